import Wax.Proofs.GrammarPrims
/-!
Soundness of the parser model for the grammar of `Wax/Proofs/Grammar.lean`: whatever the mutually
recursive parsers return is spelled as `GTok` / `GToks` / `GBranches` say (by induction on the fuel).
-/
set_option linter.unusedSimpArgs false
set_option linter.unusedVariables false
namespace Wax

/-- `parseToken` after the inline flags -/
def bodyParse (fuel : Nat) (t : Term) (i f : Input) : Option (Tok × Input) :=
  match parseLiteral f with
  | some (text, ci, j) => some (.lit ⟨i.loc, j.loc - i.loc⟩ text ci, j)
  | none => tokTail t i f (parseRepetition fuel f) (parseAlternation fuel f)

theorem parseToken_body (fuel : Nat) (t : Term) (i : Input) :
    parseToken (fuel + 1) t i = bodyParse fuel t i (flagsS i) := parseToken_eq fuel t i

structure SInv (fuel : Nat) : Prop where
  glob : ∀ t i tok j, parseGlob fuel t i = some (tok, j) →
    ∃ s ts, tok = .cat ⟨i.loc, ulen s⟩ ts ∧ ts ≠ [] ∧ i.rest = s ++ j.rest ∧
      GToks t true i.loc i.ci s j.rest ts j.ci ∧ TermAt t j.rest ∧ j.loc = i.loc + ulen s ∧
      j.sub ≤ j.loc
  tokens : ∀ t i acc toks j, i.sub ≤ i.loc → parseTokens fuel t i acc = some (toks, j) →
    ∃ s ts, toks = acc ++ ts ∧ i.rest = s ++ j.rest ∧
      GToks t (i.sub == i.loc) i.loc i.ci s j.rest ts j.ci ∧ j.loc = i.loc + ulen s ∧
      j.sub ≤ j.loc
  token : ∀ t i tok j, i.sub ≤ i.loc → parseToken fuel t i = some (tok, j) →
    ∃ s, i.rest = s ++ j.rest ∧ s ≠ [] ∧ GTok t (i.sub == i.loc) i.loc i.ci s j.rest tok j.ci ∧
      j.loc = i.loc + ulen s ∧ j.sub < j.loc
  rep : ∀ i body lo hi j, parseRepetition fuel i = some (body, lo, hi, j) →
    ∃ bs bd toks, i.rest = '<' :: bs ++ bd ++ '>' :: j.rest ∧
      body = .cat ⟨i.loc + 1, ulen bs⟩ toks ∧ toks ≠ [] ∧
      GToks .repT true (i.loc + 1) i.ci bs (bd ++ '>' :: j.rest) toks j.ci ∧ Bounds bd lo hi ∧
      j.loc = i.loc + ulen ('<' :: bs ++ bd ++ ['>']) ∧ j.sub < j.loc
  alt : ∀ i bs j, parseAlternation fuel i = some (bs, j) →
    ∃ s1 s2 toks c1 bs', i.rest = '{' :: s1 ++ s2 ++ '}' :: j.rest ∧
      bs = .cat ⟨i.loc + 1, ulen s1⟩ toks :: bs' ∧ toks ≠ [] ∧
      GToks .altT true (i.loc + 1) i.ci s1 (s2 ++ '}' :: j.rest) toks c1 ∧
      GBranches (i.loc + 1 + ulen s1) c1 s2 ('}' :: j.rest) bs' j.ci ∧
      j.loc = i.loc + ulen ('{' :: s1 ++ s2 ++ ['}']) ∧ j.sub < j.loc
  branches : ∀ i acc bs j, i.sub ≤ i.loc → parseBranches fuel i acc = (bs, j) →
    ∃ s bs', bs = acc ++ bs' ∧ i.rest = s ++ j.rest ∧ GBranches i.loc i.ci s j.rest bs' j.ci ∧
      j.loc = i.loc + ulen s ∧ j.sub ≤ j.loc

theorem sinv_zero : SInv 0 where
  glob := by intro t i tok j h; simp [parseGlob] at h
  tokens := by
    intro t i acc toks j hs h
    simp only [parseTokens, Option.some.injEq, Prod.mk.injEq] at h
    obtain ⟨rfl, rfl⟩ := h
    exact ⟨[], [], by simp, rfl, .nil _ _ _ _ _, rfl, hs⟩
  token := by intro t i tok j _ h; simp [parseToken] at h
  rep := by intro i body lo hi j h; simp [parseRepetition] at h
  alt := by intro i bs j h; simp [parseAlternation] at h
  branches := by
    intro i acc bs j hs h
    simp only [parseBranches, Prod.mk.injEq] at h
    obtain ⟨rfl, rfl⟩ := h
    exact ⟨[], [], by simp, rfl, .nil _ _ _, rfl, hs⟩

/-- the "first token" flag after the inline flags -/
theorem first_after_flags {sub p : Nat} (fl : Str) (h : sub ≤ p) :
    ((sub == p) && fl.isEmpty) = (sub == p + ulen fl) := by
  cases fl with
  | nil => simp [ulen]
  | cons ch r =>
    have := ulen_pos (s := ch :: r) (by simp)
    have : (sub == p + ulen (ch :: r)) = false := by
      simp only [beq_eq_false_iff_ne, ne_eq]; omega
    rw [this]; simp

theorem lit_head_ne {body text : Str} (h : LitText body text) (hb : body ≠ []) :
    ∃ ch tl, body = ch :: tl ∧ ch ≠ '(' := by
  cases h with
  | nil => exact absurd rfl hb
  | plain ch s t hs h => exact ⟨ch, s, rfl, by intro e; subst e; revert hs; decide⟩
  | esc ch s t hs h => exact ⟨'\\', ch :: s, rfl, by decide⟩

theorem TreeSpell.body_ne {t : Term} {a c : Bool} {body rest : Str} {root c' : Bool}
    (h : TreeSpell t a c body rest root c') : body ≠ [] := by
  match h with
  | .mk _ pre _ c1 post _ _ _ _ => simp

theorem span_eq {p a b : Nat} (h : b = p + a) : (⟨p, b - p⟩ : Span) = ⟨p, a⟩ := by
  subst h; simp

section
variable (fuel : Nat) (ih : SInv fuel)
include ih

theorem body_sound (t : Term) (i f : Input) (tok : Tok) (j : Input) (hf : ¬ FlagHead f.rest)
    (hs : f.sub ≤ f.loc) (h : bodyParse fuel t i f = some (tok, j)) :
    ∃ body, f.rest = body ++ j.rest ∧ body ≠ [] ∧
      GBody t (f.sub == f.loc) ⟨i.loc, j.loc - i.loc⟩ f.loc f.ci body j.rest tok j.ci ∧
      j.loc = f.loc + ulen body ∧ j.sub < j.loc := by
  have u1 : ('?' : Char).utf8Size = 1 := by decide
  have u2 : ('/' : Char).utf8Size = 1 := by decide
  have u3 : ('*' : Char).utf8Size = 1 := by decide
  have u4 : ('$' : Char).utf8Size = 1 := by decide
  unfold bodyParse at h
  split at h
  · -- literal
    rename_i text ci j' hl
    injection h with h; injection h with h1 h2; subst h1 h2
    obtain ⟨body, e1, e2, e3, e4, e5, e6, e7, e8⟩ := parseLiteral_sound hl
    have := ulen_pos e3
    refine ⟨body, e1, e3, ?_, e6, by omega⟩
    rw [e7, e5]
    exact .lit _ _ _ _ _ _ _ _ e2 e3 e4
  · unfold tokTail at h
    split at h
    · -- repetition
      rename_i body lo hi j' hr
      injection h with h; injection h with h1 h2; subst h1 h2
      obtain ⟨bs, bd, toks, e1, e2, e3, e4, e5, e6, e7⟩ := ih.rep f body lo hi _ hr
      subst e2
      refine ⟨'<' :: bs ++ bd ++ ['>'], by rw [e1]; simp, by simp, ?_, e6, e7⟩
      exact .rep _ _ _ _ _ _ _ _ _ _ _ _ e4 e3 e5
    · split at h
      · -- alternation
        rename_i bs j' ha
        injection h with h; injection h with h1 h2; subst h1 h2
        obtain ⟨s1, s2, toks, c1, bs', e1, e2, e3, e4, e5, e6, e7⟩ := ih.alt f bs _ ha
        subst e2
        refine ⟨'{' :: s1 ++ s2 ++ ['}'], by rw [e1]; simp, by simp, ?_, e6, e7⟩
        exact .alt _ _ _ _ _ _ _ _ _ _ _ _ e4 e3 e5
      · rename_i hnr hna
        split at h
        · -- exactly-one
          rename_i j' hw
          injection h with h; injection h with h1 h2; subst h1 h2
          rw [parseWildcard_eq] at hw
          split at hw
          · rename_i j'' hq
            injection hw with hw; injection hw with _ hw; subst hw
            obtain ⟨b, hb, jr, jl, jc, js⟩ := tag1_inv' "?" '?' (by decide) (by decide) hq
            refine ⟨['?'], by rw [hb, jr]; rfl, by simp, ?_, by rw [jl]; simp [ulen, u1],
              by omega⟩
            rw [jc]; exact .one _ _ _ _ _ _
          · split at hw
            · rename_i r hr
              injection hw with hw; subst hw
              obtain ⟨_, _, e, _⟩ := wildTree_sound hr hf
              cases e
            · split at hw
              · rename_i r hr
                injection hw with hw; subst hw
                have := (wildZom_sound '*' (by decide) (by decide) hr).1
                cases this
              · have := (wildZom_sound '$' (by decide) (by decide) hw).1
                cases this
        · -- tree
          rename_i root j' hw
          injection h with h; injection h with h1 h2; subst h1 h2
          rw [parseWildcard_eq] at hw
          split at hw
          · injection hw with hw; injection hw with hw _; cases hw
          · split at hw
            · rename_i r hr
              injection hw with hw; subst hw
              obtain ⟨body, root', e0, e1, e2, e3, e4⟩ := wildTree_sound hr hf
              injection e0 with e0; subst e0
              have hb : body ≠ [] := e2.body_ne
              have := ulen_pos hb
              exact ⟨body, e1, hb, .tree _ _ _ _ _ _ _ _ _ e2, e3, by omega⟩
            · split at hw
              · rename_i r hr
                injection hw with hw; subst hw
                have := (wildZom_sound '*' (by decide) (by decide) hr).1
                cases this
              · have := (wildZom_sound '$' (by decide) (by decide) hw).1
                cases this
        · -- zero-or-more
          rename_i lazy j' hw
          injection h with h; injection h with h1 h2; subst h1 h2
          rw [parseWildcard_eq] at hw
          split at hw
          · injection hw with hw; injection hw with hw _; cases hw
          · split at hw
            · rename_i r hr
              injection hw with hw; subst hw
              obtain ⟨_, _, e, _⟩ := wildTree_sound hr hf
              cases e
            · split at hw
              · rename_i r hr
                injection hw with hw; subst hw
                obtain ⟨e0, e1, e2, e3, e4, e5⟩ := wildZom_sound '*' (by decide) (by decide) hr
                injection e0 with e0; subst e0
                refine ⟨['*'], e1, by simp, ?_, by rw [e3]; simp [ulen, u3], by omega⟩
                rw [e4]; exact .zom _ _ _ _ _ _ e2
              · obtain ⟨e0, e1, e2, e3, e4, e5⟩ := wildZom_sound '$' (by decide) (by decide) hw
                injection e0 with e0; subst e0
                refine ⟨['$'], e1, by simp, ?_, by rw [e3]; simp [ulen, u4], by omega⟩
                rw [e4]; exact .zomLazy _ _ _ _ _ _ e2
        · rename_i hw
          split at h
          · -- class
            rename_i neg items j' hc
            injection h with h; injection h with h1 h2; subst h1 h2
            obtain ⟨body, e1, e2, e3, e4, e5⟩ := parseClass_sound hc
            have hb : body ≠ [] := by cases e2 <;> simp
            have := ulen_pos hb
            refine ⟨body, e1, hb, ?_, e3, by omega⟩
            rw [e4]; exact .cls _ _ _ _ _ _ _ _ _ e2
          · split at h
            · -- separator
              rename_i j' hsep
              injection h with h; injection h with h1 h2; subst h1 h2
              obtain ⟨b, hb, jr, jl, jc, js⟩ := tag1_inv' "/" '/' (by decide) (by decide) hsep
              refine ⟨['/'], by rw [hb, jr]; rfl, by simp, ?_, by rw [jl]; simp [ulen, u2],
                by omega⟩
              rw [jc]
              refine .sep _ _ _ _ _ _ ?_
              rintro ⟨body', rest', c', e, hT⟩
              have hwt : wildTree t f = none := by
                rw [parseWildcard_eq] at hw
                split at hw
                · cases hw
                · split at hw
                  · cases hw
                  · rename_i hh; exact hh
              have := wildTree_complete hT f.loc f.sub rfl
              have ef : f = ⟨body' ++ rest', f.loc, f.ci, f.sub⟩ := by
                rw [← e, jr, ← hb]
              rw [← ef, hwt] at this
              cases this
            · cases h

theorem token_sound (t : Term) (i : Input) (tok : Tok) (j : Input) (hs : i.sub ≤ i.loc)
    (h : parseToken (fuel + 1) t i = some (tok, j)) :
    ∃ s, i.rest = s ++ j.rest ∧ s ≠ [] ∧ GTok t (i.sub == i.loc) i.loc i.ci s j.rest tok j.ci ∧
      j.loc = i.loc + ulen s ∧ j.sub < j.loc := by
  rw [parseToken_body] at h
  obtain ⟨fl, c1, f1, f2, f3, f4, f5, f6⟩ := flagsS_sound i
  obtain ⟨body, e1, e2, e3, e4, e5⟩ :=
    body_sound fuel ih t i (flagsS i) tok j f3 (by rw [f6, f4]; omega) h
  refine ⟨fl ++ body, by rw [f1, e1, List.append_assoc], by simp [e2], ?_,
    by rw [e4, f4, ulen_append]; omega, e5⟩
  refine .mk _ _ _ _ fl c1 body _ _ _ f2 ?_
  rw [first_after_flags fl hs, ← f4, ← f5, ← span_eq (p := i.loc) (b := j.loc) (a := ulen (fl ++ body))
    (by rw [e4, f4, ulen_append]; omega)]
  rw [f6] at e3
  exact e3

end

theorem sinv_succ (fuel : Nat) (ih : SInv fuel) : SInv (fuel + 1) where
  glob := by
    intro t i0 tok j h
    rw [parseGlob] at h
    dsimp only at h
    split at h
    · cases h
    · rename_i toks j' hT
      split at h
      · cases h
      · rename_i hne
        split at h
        · rename_i hterm
          injection h with h; injection h with h1 h2; subst h1 h2
          obtain ⟨s, ts, e1, e2, e3, e4, e5⟩ :=
            ih.tokens t { i0 with sub := i0.loc } [] toks _ (Nat.le_refl _) hT
          dsimp only at e2 e3 e4
          simp only [List.nil_append] at e1
          subst e1
          simp only [beq_self_eq_true] at e3
          refine ⟨s, toks, ?_, ?_, e2, e3, (term_iff t _).mp hterm, e4, e5⟩
          · rw [span_eq e4]
          · intro e; rw [e] at hne; exact hne rfl
        · cases h
  tokens := by
    intro t i acc toks j hs h
    rw [parseTokens] at h
    split at h
    · rename_i tok j1 hk
      split at h
      · injection h with h; injection h with h1 h2; subst h1 h2
        exact ⟨[], [], by simp, rfl, .nil _ _ _ _ _, rfl, hs⟩
      · rename_i hloc
        obtain ⟨s1, e1, e2, e3, e4, e5⟩ := ih.token t i tok j1 hs hk
        obtain ⟨s2, ts, g1, g2, g3, g4, g5⟩ :=
          ih.tokens t j1 (acc ++ [tok]) toks j (by omega) h
        have hb : (j1.sub == j1.loc) = false := by
          simp only [beq_eq_false_iff_ne, ne_eq]; omega
        rw [hb, e4] at g3
        rw [g2] at e3
        refine ⟨s1 ++ s2, tok :: ts, by rw [g1]; simp, by rw [e1, g2, List.append_assoc],
          .cons _ _ _ _ s1 s2 _ tok _ ts _ e3 g3, by rw [g4, e4, ulen_append]; omega, g5⟩
    · injection h with h; injection h with h1 h2; subst h1 h2
      exact ⟨[], [], by simp, rfl, .nil _ _ _ _ _, rfl, hs⟩
  token := by
    intro t i tok j hs h
    exact token_sound fuel ih t i tok j hs h
  rep := by
    intro i body lo hi j h
    have u1 : ('<' : Char).utf8Size = 1 := by decide
    have u2 : ('>' : Char).utf8Size = 1 := by decide
    rw [parseRepetition] at h
    split at h
    · cases h
    · rename_i j0 hj0
      obtain ⟨b, hb, jr, jl, jc, js⟩ := tag1_inv' "<" '<' (by decide) (by decide) hj0
      split at h
      · cases h
      · rename_i body' k hg
        obtain ⟨s, ts, e1, e2, e3, e4, e5, e6, e7⟩ := ih.glob .repT j0 body' k hg
        generalize hpb : parseBounds k = R at h
        obtain ⟨lo', hi', l⟩ := R
        dsimp only at h
        obtain ⟨bd, b1, b2, b3, b4, b5⟩ := parseBounds_sound hpb
        split at h
        · rename_i m hm
          injection h with h; injection h with h1 h; injection h with h2 h; injection h with h3 h4
          subst h1 h2 h3 h4
          obtain ⟨b', hb', mr, ml, mc, ms⟩ := tag1_inv' ">" '>' (by decide) (by decide) hm
          refine ⟨s, bd, ts, ?_, ?_, e2, ?_, b1, ?_, ?_⟩
          · rw [hb, ← jr, e3, b2, hb', mr]; simp
          · rw [e1, jl]
          · rw [jl, jc] at e4
            rw [b2, hb', ← mr] at e4
            rw [mc, b4]; exact e4
          · rw [ml, b3, e6, jl]
            simp only [ulen_cons', ulen_append, ulen_nil, u1, u2]; omega
          · rw [ms, b5, ml]; omega
        · cases h
  alt := by
    intro i bs j h
    have u1 : ('{' : Char).utf8Size = 1 := by decide
    have u2 : ('}' : Char).utf8Size = 1 := by decide
    rw [parseAlternation] at h
    split at h
    · cases h
    · rename_i j0 hj0
      obtain ⟨b, hb, jr, jl, jc, js⟩ := tag1_inv' "{" '{' (by decide) (by decide) hj0
      split at h
      · cases h
      · rename_i b0 k hg
        obtain ⟨s, ts, e1, e2, e3, e4, e5, e6, e7⟩ := ih.glob .altT j0 b0 k hg
        generalize hpb : parseBranches fuel k [b0] = R at h
        obtain ⟨bs0, l⟩ := R
        dsimp only at h
        obtain ⟨s2, bs', b1, b2, b3, b4, b5⟩ := ih.branches k [b0] bs0 l e7 hpb
        split at h
        · rename_i m hm
          injection h with h; injection h with h1 h2
          subst h1 h2
          obtain ⟨b', hb', mr, ml, mc, ms⟩ := tag1_inv' "}" '}' (by decide) (by decide) hm
          refine ⟨s, s2, ts, k.ci, bs', ?_, ?_, e2, ?_, ?_, ?_, ?_⟩
          · rw [hb, ← jr, e3, b2, hb', mr]; simp
          · rw [b1, e1, jl]; rfl
          · rw [jl, jc] at e4
            rw [b2, hb', ← mr] at e4
            exact e4
          · rw [hb', ← mr, e6, jl] at b3
            rw [mc]; exact b3
          · rw [ml, b4, e6, jl]
            simp only [ulen_cons', ulen_append, ulen_nil, u1, u2]; omega
          · rw [ms, ml]; omega
        · cases h
  branches := by
    intro i acc bs j hs h
    have u1 : (',' : Char).utf8Size = 1 := by decide
    rw [parseBranches] at h
    split at h
    · injection h with h1 h2; subst h1 h2
      exact ⟨[], [], by simp, rfl, .nil _ _ _, rfl, hs⟩
    · rename_i j0 hj0
      obtain ⟨b, hb, jr, jl, jc, js⟩ := tag1_inv' "," ',' (by decide) (by decide) hj0
      split at h
      · injection h with h1 h2; subst h1 h2
        exact ⟨[], [], by simp, rfl, .nil _ _ _, rfl, hs⟩
      · rename_i b0 k hg
        obtain ⟨s, ts, e1, e2, e3, e4, e5, e6, e7⟩ := ih.glob .altT j0 b0 k hg
        obtain ⟨s2, bs', b1, b2, b3, b4, b5⟩ := ih.branches k (acc ++ [b0]) bs j e7 h
        refine ⟨',' :: s ++ s2, b0 :: bs', by rw [b1]; simp, ?_, ?_, ?_, b5⟩
        · rw [hb, ← jr, e3, b2]; simp
        · rw [e1, jl]
          rw [jl, jc, b2] at e4
          rw [e6, jl] at b3
          exact .cons _ _ s s2 _ ts k.ci bs' _ e4 e2 b3
        · rw [b4, e6, jl]; simp only [ulen_cons', ulen_append, u1]; omega

theorem sinv_all : ∀ fuel, SInv fuel
  | 0 => sinv_zero
  | n + 1 => sinv_succ n (sinv_all n)

end Wax
