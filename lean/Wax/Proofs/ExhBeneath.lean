import Wax.Proofs.ExhSound
import Wax.Proofs.ExhSound2
import Wax.Proofs.DepthTree
import Wax.Proofs.SpecRe
import Wax.Proofs.EscapeMatch
import Wax.Proofs.Sites
import Wax.Parse
/-!
C09 at the level of the property: "a pattern that reports `Always` matches, with every canonical
path `p` it matches, every canonical path `q` beneath `p`".

* `Canonical`, `Relative`, `Beneath` (and the executable `beneathB`);
* `exhaustive_beneath_partial`: on F09a the property holds for every `p` other than `""` and `"/"`;
* `exh_empty_witness`, `exh_root_witness` (finding K-EXH-EMPTY): the two excluded cases are real;
* `exhaustive_beneath_sem` / `exhaustive_beneath_oracle` / `exhaustive_beneath_root`: the positive
  complement — a semantic, an oracle-decidable and a purely syntactic side condition under which
  the property holds for **all** canonical `p`.
-/
set_option linter.unusedSimpArgs false
set_option linter.unusedVariables false
namespace Wax

/-! ### 1. canonical, relative, beneath -/

/-- no two adjacent separators and no trailing separator unless the path is `/`
    (`canonicalPath` of `Wax/Proofs/DepthTree.lean`) -/
def Canonical (w : Str) : Prop := canonicalPath w = true
instance (w : Str) : Decidable (Canonical w) := inferInstanceAs (Decidable (_ = true))

/-- does not start with a separator -/
def Relative (w : Str) : Prop := w.head? ≠ some '/'
instance (w : Str) : Decidable (Relative w) := inferInstanceAs (Decidable (_ ≠ _))

/-- a non-empty relative canonical path -/
def RelCanon (r : Str) : Prop := r ≠ [] ∧ Relative r ∧ Canonical r
instance (r : Str) : Decidable (RelCanon r) := inferInstanceAs (Decidable (_ ∧ _))

/-- `q` is beneath `p` -/
def Beneath (p q : Str) : Prop :=
  if p = [] then RelCanon q
  else if p = ['/'] then ∃ r, RelCanon r ∧ q = '/' :: r
  else ∃ r, RelCanon r ∧ q = p ++ '/' :: r

/-- executable `Beneath` -/
def beneathB (p q : Str) : Bool :=
  if p = [] then decide (RelCanon q)
  else if p = ['/'] then q.head? == some '/' && decide (RelCanon q.tail)
  else (p ++ ['/']).isPrefixOf q && decide (RelCanon (q.drop (p.length + 1)))

theorem beneathB_iff (p q : Str) : beneathB p q = true ↔ Beneath p q := by
  by_cases h1 : p = []
  · simp [beneathB, Beneath, h1]
  · by_cases h2 : p = ['/']
    · subst h2
      simp only [beneathB, Beneath, List.cons_ne_nil, ↓reduceIte, Bool.and_eq_true, beq_iff_eq, decide_eq_true_eq]
      constructor
      · rintro ⟨hh, hr⟩
        cases q with
        | nil => simp at hh
        | cons c q =>
          simp only [List.head?_cons, Option.some.injEq] at hh; subst hh
          exact ⟨q, hr, rfl⟩
      · rintro ⟨r, hr, rfl⟩
        exact ⟨rfl, hr⟩
    · simp only [beneathB, Beneath, h1, h2, ↓reduceIte, Bool.and_eq_true, decide_eq_true_eq, List.isPrefixOf_iff_prefix]
      constructor
      · rintro ⟨⟨x, rfl⟩, hr⟩
        refine ⟨x, ?_, by simp⟩
        have : List.drop (p.length + 1) (p ++ ['/'] ++ x) = x := by
          have : (p ++ ['/']).length = p.length + 1 := by simp
          rw [← this, List.drop_left]
        rwa [this] at hr
      · rintro ⟨r, hr, rfl⟩
        refine ⟨⟨r, by simp⟩, ?_⟩
        have : List.drop (p.length + 1) (p ++ '/' :: r) = r := by
          have e : p ++ '/' :: r = (p ++ ['/']) ++ r := by simp
          have : (p ++ ['/']).length = p.length + 1 := by simp
          rw [e, ← this, List.drop_left]
        rwa [this]

instance (p q : Str) : Decidable (Beneath p q) := decidable_of_iff _ (beneathB_iff p q)

-- sanity
example : Canonical "".toList := by decide
example : Canonical "/".toList := by decide
example : Canonical "/a/b".toList := by decide
example : Canonical "a/b".toList := by decide
example : ¬ Canonical "a/".toList := by decide
example : ¬ Canonical "a//b".toList := by decide
example : ¬ Canonical "//".toList := by decide
example : Relative "a/b".toList ∧ Relative "".toList ∧ ¬ Relative "/a".toList := by decide
example : Beneath "".toList "a/b".toList := by decide
example : ¬ Beneath "".toList "".toList := by decide
example : ¬ Beneath "".toList "/a".toList := by decide
example : Beneath "/".toList "/a".toList := by decide
example : Beneath "/".toList "/a/b".toList := by decide
example : ¬ Beneath "/".toList "/".toList := by decide
example : ¬ Beneath "/".toList "//a".toList := by decide
example : Beneath "a".toList "a/b/c".toList := by decide
example : Beneath "/a".toList "/a/b".toList := by decide
example : ¬ Beneath "a".toList "a".toList := by decide
example : ¬ Beneath "a".toList "a/".toList := by decide
example : ¬ Beneath "a".toList "a//b".toList := by decide
example : ¬ Beneath "a".toList "ab/c".toList := by decide
example : ¬ Beneath "a".toList "a/b/".toList := by decide

/-- a path beneath a canonical path is canonical (so `Beneath` relates canonical paths) -/
theorem noDoubleSep_append_sep : ∀ (p r : Str), noDoubleSep p = true → endsSep p = false →
    r.head? ≠ some '/' → noDoubleSep r = true → noDoubleSep (p ++ '/' :: r) = true
  | [], r, _, _, hr, hn => by
    simp only [List.nil_append, noDoubleSep, Bool.and_eq_true, Bool.not_eq_true', hn, and_true]
    cases r with
    | nil => simp
    | cons c r => simp at hr ⊢; exact hr
  | c :: p, r, hp, he, hr, hn => by
    simp only [noDoubleSep, Bool.and_eq_true, Bool.not_eq_true'] at hp
    have he' : p ≠ [] → endsSep p = false := by
      intro hne
      cases p with
      | nil => exact absurd rfl hne
      | cons d p => simpa [endsSep] using he
    cases p with
    | nil =>
      have hc : (c == '/') = false := by simpa [endsSep] using he
      simp only [List.cons_append, List.nil_append, noDoubleSep, List.head?_cons, hc, Bool.false_and,
        Bool.not_false, Bool.true_and, Bool.and_eq_true, Bool.not_eq_true', hn, and_true]
      cases r with
      | nil => simp
      | cons d r => simp at hr ⊢; exact hr
    | cons d p =>
      have ih := noDoubleSep_append_sep (d :: p) r hp.2 (he' (by simp)) hr hn
      simp only [List.cons_append] at ih ⊢
      simp only [noDoubleSep, Bool.and_eq_true, Bool.not_eq_true'] at ih ⊢
      refine ⟨?_, ih⟩
      simpa using hp.1

theorem endsSep_append_ne (p : Str) : ∀ {r : Str}, r ≠ [] → endsSep (p ++ r) = endsSep r := by
  induction p with
  | nil => intro r _; rfl
  | cons c p ih =>
    intro r hr
    have : (p ++ r).isEmpty = false := by cases p <;> cases r <;> simp_all
    simp [endsSep, this, ih hr]

theorem beneath_canonical {p q : Str} (hp : Canonical p) (hb : Beneath p q) : Canonical q := by
  unfold Beneath at hb
  by_cases h1 : p = []
  · simp only [h1, ↓reduceIte] at hb; exact hb.2.2
  · by_cases h2 : p = ['/']
    · simp only [h1, h2, ↓reduceIte] at hb
      obtain ⟨r, ⟨hne, hrel, hcan⟩, rfl⟩ := hb
      unfold Canonical canonicalPath at hcan ⊢
      simp only [Bool.and_eq_true] at hcan ⊢
      refine ⟨?_, ?_⟩
      · simp only [noDoubleSep, hcan.1, Bool.and_true, Bool.not_eq_true', Bool.and_eq_false_iff]
        right
        cases r with
        | nil => rfl
        | cons c r => simpa [Relative] using hrel
      · have h3 : endsSep ('/' :: r) = endsSep r := endsSep_append_ne ['/'] hne
        have h4 := hcan.2
        simp only [trailingOk, Bool.or_eq_true, Bool.not_eq_true', decide_eq_true_eq] at h4 ⊢
        rcases h4 with h4 | h4
        · exact Or.inl (h3 ▸ h4)
        · subst h4; simp [Relative] at hrel
    · simp only [h1, h2, ↓reduceIte] at hb
      obtain ⟨r, ⟨hne, hrel, hcan⟩, rfl⟩ := hb
      unfold Canonical canonicalPath at hcan hp ⊢
      simp only [Bool.and_eq_true] at hcan hp ⊢
      have hpe : endsSep p = false := by
        have := hp.2
        simp only [trailingOk, Bool.or_eq_true, Bool.not_eq_true', decide_eq_true_eq] at this
        rcases this with h | h
        · exact h
        · exact absurd h h2
      refine ⟨noDoubleSep_append_sep p r hp.1 hpe hrel hcan.1, ?_⟩
      have h3 : endsSep (p ++ '/' :: r) = endsSep r := by
        have e : p ++ '/' :: r = (p ++ ['/']) ++ r := by simp
        rw [e, endsSep_append_ne _ hne]
      have h4 := hcan.2
      simp only [trailingOk, Bool.or_eq_true, Bool.not_eq_true', decide_eq_true_eq] at h4 ⊢
      rcases h4 with h4 | h4
      · exact Or.inl (h3 ▸ h4)
      · subst h4; simp [Relative] at hrel

/-! ### 2. the property on F09a, away from the two degenerate paths -/

/-- **C09 on F09a, as a statement about paths**: for every path `p` other than `""` and `"/"` that
the pattern matches, it matches every path beneath `p`. -/
theorem exhaustive_beneath_partial (σ : Sem) (sp : Span) (ts : List Tok) (t : Tok)
    (hlast : lastTok ts = some t) (hfrag : isTreeTok t = true ∨ exhTake t = false)
    (hAlways : isExhaustive (.cat sp ts) = .ok .always) (p q : Str)
    (hc : Canonical p) (hne : p ≠ []) (hnr : p ≠ ['/'])
    (hm : Spec.Matches σ (.cat sp ts) p) (hb : Beneath p q) :
    Spec.Matches σ (.cat sp ts) q := by
  simp only [Beneath, hne, hnr, ↓reduceIte] at hb
  obtain ⟨r, _, rfl⟩ := hb
  exact exhaustive_sound_partial σ sp ts t hlast hfrag hAlways p hm r

-- non-vacuous: `a/**` reports `Always`, matches `a`, and `a/b/c` is beneath `a`
example (σ : Sem) (sp : Span) :
    Spec.Matches σ (.cat sp [.lit sp ['a'] false, .tree sp true]) "a/b/c".toList :=
  exhaustive_beneath_partial σ sp [.lit sp ['a'] false, .tree sp true] (.tree sp true) rfl
    (Or.inl rfl) rfl "a".toList "a/b/c".toList (by decide) (by decide) (by decide)
    (by
      have h : SMs σ ⟨true, true⟩ [.lit sp ['a'] false, .tree sp true] (['a'] ++ ([] ++ [])) :=
        .cons (.lit (litEq_refl_cs σ ['a'])) (.cons (.tree (Or.inl rfl)) .nil)
      exact h)
    (by decide)

/-! ### 3a. the two excluded paths are real (finding K-EXH-EMPTY) -/

/-- `<a:0,1>/**` -/
def exhEmptyTok : Tok :=
  .cat ⟨0, 10⟩ [.rep ⟨0, 7⟩ (.cat ⟨1, 1⟩ [.lit ⟨1, 1⟩ ['a'] false]) 0 (some 1), .tree ⟨7, 3⟩ true]
/-- `/<a:0,1>/**` -/
def exhRootTok : Tok :=
  .cat ⟨0, 11⟩ [.sep ⟨0, 1⟩, .rep ⟨1, 7⟩ (.cat ⟨2, 1⟩ [.lit ⟨2, 1⟩ ['a'] false]) 0 (some 1),
    .tree ⟨8, 3⟩ true]

set_option maxRecDepth 100000 in
theorem exhEmptyTok_parse : parse "<a:0,1>/**".toList = .ok exhEmptyTok := by rfl
set_option maxRecDepth 100000 in
theorem exhRootTok_parse : parse "/<a:0,1>/**".toList = .ok exhRootTok := by rfl

/-- what `<a:0,1>` matches, in any context and under any `Sem` -/
theorem optA_cases {σ : Sem} {c : Ctx} {sp sp' sp'' : Span} {u : Str}
    (h : SM σ c (.rep sp (.cat sp' [.lit sp'' ['a'] false]) 0 (some 1)) u) : u = [] ∨ u = ['a'] := by
  obtain ⟨n, _, hhi, hr⟩ := sm_rep.mp h
  have hn := hhi 1 rfl
  simp only [Tok.concatenation] at hr
  cases hr with
  | zero => exact Or.inl rfl
  | one hb => exact Or.inr ((litEq_false_iff σ _ _).mp (sm_lit.mp (sms_singleton.mp hb)))
  | more _ _ => omega

theorem optA_nil {σ : Sem} {c : Ctx} {sp sp' sp'' : Span} :
    SM σ c (.rep sp (.cat sp' [.lit sp'' ['a'] false]) 0 (some 1)) [] :=
  .rep (n := 0) (Nat.le_refl 0) (fun _ _ => Nat.zero_le _) .zero

/-- **K-EXH-EMPTY, first half** (any `Sem`): `<a:0,1>/**` is in F09a, reports `Always`, matches the
canonical path `""`, and does not match `q`, which is beneath `""`. -/
theorem exh_empty_witness (σ : Sem) :
    (∃ sp ts t, exhEmptyTok = .cat sp ts ∧ lastTok ts = some t ∧ isTreeTok t = true) ∧
    isExhaustive exhEmptyTok = .ok .always ∧
    Canonical [] ∧ Spec.Matches σ exhEmptyTok [] ∧
    Beneath [] ['q'] ∧ ¬ Spec.Matches σ exhEmptyTok ['q'] := by
  refine ⟨⟨_, _, _, rfl, rfl, rfl⟩, rfl, by decide, ?_, by decide, ?_⟩
  · have h : SMs σ ⟨true, true⟩ exhEmptyTok.concatenation ([] ++ ([] ++ [])) :=
      .cons optA_nil (.cons (.tree (Or.inl rfl)) .nil)
    exact h
  · intro h
    obtain ⟨u, v, he, hu, hv⟩ := sms_cons.mp h
    have hv' : v = [] ∨ ∃ r, v = '/' :: r := by
      simpa [TreeLang] using sm_tree.mp (sms_singleton.mp hv)
    rcases optA_cases hu with rfl | rfl <;> rcases hv' with rfl | ⟨r, rfl⟩ <;> simp at he

/-- **K-EXH-EMPTY, second half** (any `Sem`): `/<a:0,1>/**` is in F09a, reports `Always`, matches
the canonical path `/`, and does not match `/q`, which is beneath `/`. -/
theorem exh_root_witness (σ : Sem) :
    (∃ sp ts t, exhRootTok = .cat sp ts ∧ lastTok ts = some t ∧ isTreeTok t = true) ∧
    isExhaustive exhRootTok = .ok .always ∧
    Canonical ['/'] ∧ Spec.Matches σ exhRootTok ['/'] ∧
    Beneath ['/'] ['/', 'q'] ∧ ¬ Spec.Matches σ exhRootTok ['/', 'q'] := by
  refine ⟨⟨_, _, _, rfl, rfl, rfl⟩, rfl, by decide, ?_, by decide, ?_⟩
  · have h : SMs σ ⟨true, true⟩ exhRootTok.concatenation (['/'] ++ ([] ++ ([] ++ []))) :=
      .cons .sep (.cons optA_nil (.cons (.tree (Or.inl rfl)) .nil))
    exact h
  · intro h
    obtain ⟨s, w, he, hs, hw⟩ := sms_cons.mp h
    obtain ⟨u, v, rfl, hu, hv⟩ := sms_cons.mp hw
    have hs' := sm_sep.mp hs
    subst hs'
    have hv' : v = [] ∨ ∃ r, v = '/' :: r := by
      simpa [TreeLang] using sm_tree.mp (sms_singleton.mp hv)
    rcases optA_cases hu with rfl | rfl <;> rcases hv' with rfl | ⟨r, rfl⟩ <;> simp at he

-- the same two facts through the executable oracle (`specRe` + `matchB`), for the case-sensitive `Sem`
example : (specRe exhEmptyTok).matchB σcs [] = true ∧ (specRe exhEmptyTok).matchB σcs ['q'] = false := by
  decide
example : (specRe exhRootTok).matchB σcs ['/'] = true ∧
    (specRe exhRootTok).matchB σcs ['/', 'q'] = false := by decide

/-- the property, stated for F09a without excluding `""` and `"/"`, is **false** -/
theorem exhaustive_beneath_unrestricted_false (σ : Sem) :
    ¬ (∀ (sp : Span) (ts : List Tok) (t : Tok), lastTok ts = some t →
        (isTreeTok t = true ∨ exhTake t = false) → isExhaustive (.cat sp ts) = .ok .always →
        ∀ p q : Str, Canonical p → Spec.Matches σ (.cat sp ts) p → Beneath p q →
          Spec.Matches σ (.cat sp ts) q) := by
  intro h
  obtain ⟨_, hA, hc, hm, hb, hn⟩ := exh_empty_witness σ
  exact hn (h _ _ _ rfl (Or.inl rfl) hA [] ['q'] hc hm hb)

/-! ### 3b. the positive complement: all canonical paths -/

theorem lastTok_dropLast : ∀ (ts : List Tok) (t : Tok), lastTok ts = some t → ts = ts.dropLast ++ [t]
  | [], _, h => by simp [lastTok] at h
  | [x], t, h => by
    simp only [lastTok, Option.some.injEq] at h; subst h; rfl
  | x :: y :: ts, t, h => by
    simp only [lastTok] at h
    have ih := lastTok_dropLast (y :: ts) t h
    simp only [List.dropLast_cons_cons, List.cons_append]
    rw [← ih]

theorem append_eq_singleton {α} {u v : List α} {a : α} (h : [a] = u ++ v) :
    (u = [] ∧ v = [a]) ∨ (u = [a] ∧ v = []) := by
  cases u with
  | nil => exact Or.inl ⟨rfl, by simpa using h.symm⟩
  | cons b u =>
    simp only [List.cons_append, List.cons.injEq] at h
    obtain ⟨rfl, h2⟩ := h
    have := List.append_eq_nil_iff.mp h2.symm
    exact Or.inr ⟨by rw [this.1], this.2⟩

/-- the semantic core: a pattern whose last token is a tree wildcard matches everything beneath
whatever it matches, provided that what precedes the tree wildcard (if anything does) matches
neither `""` nor `"/"`. -/
theorem endsTree_beneath_all (σ : Sem) (pre : List Tok) (sp : Span) (r : Bool)
    (hE : pre = [] ∨ ¬ SMs σ ⟨true, false⟩ pre [])
    (hR : pre = [] ∨ ¬ SMs σ ⟨true, false⟩ pre ['/'])
    (p q : Str) (hm : SMs σ ⟨true, true⟩ (pre ++ [.tree sp r]) p) (hb : Beneath p q) :
    SMs σ ⟨true, true⟩ (pre ++ [.tree sp r]) q := by
  by_cases hpre : pre = []
  · -- the pattern is `**` or `/**`
    subst hpre
    simp only [List.nil_append] at hm ⊢
    have hm' := sm_tree.mp (sms_singleton.mp hm)
    refine sms_singleton.mpr (sm_tree.mpr ?_)
    cases r with
    | false => simp [TreeLang]
    | true =>
      simp only [TreeLang, ↓reduceIte] at hm' ⊢
      obtain ⟨m, rfl⟩ := hm'
      unfold Beneath at hb
      by_cases h2 : m = []
      · subst h2
        simp only [List.cons_ne_nil, ↓reduceIte] at hb
        obtain ⟨x, _, rfl⟩ := hb
        exact ⟨x, rfl⟩
      · have : ('/' :: m) ≠ ['/'] := by simpa using h2
        simp only [List.cons_ne_nil, this, ↓reduceIte] at hb
        obtain ⟨x, _, rfl⟩ := hb
        exact ⟨m ++ '/' :: x, rfl⟩
  · have hE' : ¬ SMs σ ⟨true, false⟩ pre [] := hE.resolve_left hpre
    have hR' : ¬ SMs σ ⟨true, false⟩ pre ['/'] := hR.resolve_left hpre
    have hemp : pre.isEmpty = false := by cases pre <;> simp_all
    rw [sms_append] at hm ⊢
    simp only [List.isEmpty_cons, Bool.and_false, hemp] at hm ⊢
    obtain ⟨u, v, rfl, hu, hv⟩ := hm
    have hv' : v = [] ∨ ∃ m, v = '/' :: m := by
      simpa [TreeLang] using sm_tree.mp (sms_singleton.mp hv)
    have mk : ∀ m, SMs σ ⟨false, true⟩ [Tok.tree sp r] ('/' :: m) := fun m =>
      sms_singleton.mpr (sm_tree.mpr (by simp [TreeLang]))
    unfold Beneath at hb
    by_cases h1 : u ++ v = []
    · have := List.append_eq_nil_iff.mp h1
      rw [this.1] at hu
      exact absurd hu hE'
    · by_cases h2 : u ++ v = ['/']
      · rcases append_eq_singleton h2.symm with ⟨hu0, hv0⟩ | ⟨hu0, hv0⟩
        · simp only [h1, h2, ↓reduceIte] at hb
          obtain ⟨x, _, rfl⟩ := hb
          subst hu0
          exact ⟨[], '/' :: x, rfl, hu, mk x⟩
        · rw [hu0] at hu
          exact absurd hu hR'
      · simp only [h1, h2, ↓reduceIte] at hb
        obtain ⟨x, _, rfl⟩ := hb
        rcases hv' with rfl | ⟨m, rfl⟩
        · exact ⟨u, '/' :: x, by simp, hu, mk x⟩
        · exact ⟨u, '/' :: (m ++ '/' :: x), by simp, hu, mk _⟩

/-- **C09 on F09a for all canonical paths, semantic side condition**: if what precedes the final
tree wildcard (when anything does) matches neither `""` nor `"/"`, an `Always` verdict implies
that with every canonical path the pattern matches it matches every path beneath it. -/
theorem exhaustive_beneath_sem (σ : Sem) (sp : Span) (ts : List Tok) (t : Tok)
    (hlast : lastTok ts = some t) (hfrag : isTreeTok t = true ∨ exhTake t = false)
    (hAlways : isExhaustive (.cat sp ts) = .ok .always)
    (hE : ts.dropLast = [] ∨ ¬ SMs σ ⟨true, false⟩ ts.dropLast [])
    (hR : ts.dropLast = [] ∨ ¬ SMs σ ⟨true, false⟩ ts.dropLast ['/'])
    (p q : Str) (hc : Canonical p) (hm : Spec.Matches σ (.cat sp ts) p) (hb : Beneath p q) :
    Spec.Matches σ (.cat sp ts) q := by
  rcases hfrag with htree | hunt
  · have hts := lastTok_dropLast ts t hlast
    cases t with
    | tree sp' r =>
      unfold Spec.Matches at hm ⊢
      simp only [Tok.concatenation] at hm ⊢
      rw [hts] at hm ⊢
      exact endsTree_beneath_all σ _ sp' r hE hR p q hm hb
    | _ => simp [isTreeTok] at htree
  · rw [exh_never_of_untaken sp ts t hlast hunt] at hAlways
    cases hAlways

/-- the same with the side condition phrased on the whole pattern for `""`:
"the pattern does not match the empty path" -/
theorem exhaustive_beneath_sem' (σ : Sem) (sp : Span) (ts : List Tok) (t : Tok)
    (hlast : lastTok ts = some t) (hfrag : isTreeTok t = true ∨ exhTake t = false)
    (hAlways : isExhaustive (.cat sp ts) = .ok .always)
    (hE : ¬ Spec.Matches σ (.cat sp ts) [])
    (hR : ts.dropLast = [] ∨ ¬ SMs σ ⟨true, false⟩ ts.dropLast ['/'])
    (p q : Str) (hc : Canonical p) (hm : Spec.Matches σ (.cat sp ts) p) (hb : Beneath p q) :
    Spec.Matches σ (.cat sp ts) q := by
  refine exhaustive_beneath_sem σ sp ts t hlast hfrag hAlways ?_ hR p q hc hm hb
  rcases hfrag with htree | hunt
  · by_cases hpre : ts.dropLast = []
    · exact Or.inl hpre
    · refine Or.inr (fun h => hE ?_)
      have hts := lastTok_dropLast ts t hlast
      cases t with
      | tree sp' r =>
        unfold Spec.Matches
        simp only [Tok.concatenation]
        rw [hts, sms_append]
        have hemp : ts.dropLast.isEmpty = false := by
          cases hd : ts.dropLast with
          | nil => exact absurd hd hpre
          | cons _ _ => rfl
        simp only [List.isEmpty_cons, Bool.and_false, hemp]
        exact ⟨[], [], rfl, h, sms_singleton.mpr (sm_tree.mpr (by simp [TreeLang]))⟩
      | _ => simp [isTreeTok] at htree
  · rw [exh_never_of_untaken sp ts t hlast hunt] at hAlways
    cases hAlways

/-! #### a decidable side condition through the oracle -/

/-- nothing precedes the last token, or the oracle (`specList` + `matchAllB`) rejects `w` for what
precedes it -/
def preRejectsB (σ : Sem) (ts : List Tok) (w : Str) : Bool :=
  ts.dropLast.isEmpty || !Re.matchAllB σ (specList ⟨true, false⟩ ts.dropLast) w

theorem preRejectsB_sound (σ : Sem) (hdot : σ.dotall = true) (ts : List Tok) (w : Str)
    (h : preRejectsB σ ts w = true) : ts.dropLast = [] ∨ ¬ SMs σ ⟨true, false⟩ ts.dropLast w := by
  simp only [preRejectsB, Bool.or_eq_true, List.isEmpty_iff, Bool.not_eq_true'] at h
  rcases h with h | h
  · exact Or.inl h
  · refine Or.inr (fun hm => ?_)
    have := matchAllB_complete σ ((specList_correct σ hdot _ _ _).mpr hm)
    rw [h] at this; cases this

/-- **C09 on F09a for all canonical paths, oracle-decidable side condition** -/
theorem exhaustive_beneath_oracle (σ : Sem) (hdot : σ.dotall = true) (sp : Span) (ts : List Tok)
    (t : Tok) (hlast : lastTok ts = some t) (hfrag : isTreeTok t = true ∨ exhTake t = false)
    (hAlways : isExhaustive (.cat sp ts) = .ok .always)
    (hE : preRejectsB σ ts [] = true) (hR : preRejectsB σ ts ['/'] = true)
    (p q : Str) (hc : Canonical p) (hm : Spec.Matches σ (.cat sp ts) p) (hb : Beneath p q) :
    Spec.Matches σ (.cat sp ts) q :=
  exhaustive_beneath_sem σ sp ts t hlast hfrag hAlways (preRejectsB_sound σ hdot ts [] hE)
    (preRejectsB_sound σ hdot ts ['/'] hR) p q hc hm hb

-- `a/**` (tokens `a`, `/**`): the oracle side conditions hold; the witnesses of 3a fail them
example : preRejectsB σcs [.lit ⟨0, 1⟩ ['a'] false, .tree ⟨1, 3⟩ true] [] = true ∧
    preRejectsB σcs [.lit ⟨0, 1⟩ ['a'] false, .tree ⟨1, 3⟩ true] ['/'] = true := by decide
example : preRejectsB σcs exhEmptyTok.concatenation [] = false ∧
    preRejectsB σcs exhRootTok.concatenation ['/'] = false := by decide

/-! #### a purely syntactic side condition: minimal lengths -/

mutual
  /-- a lower bound on the length of what the token matches, in any context -/
  def minLen : Tok → Nat
    | .lit _ s _ => s.length
    | .sep _ => 1
    | .cls .. => 1
    | .one _ => 1
    | .zom .. => 0
    | .tree .. => 0
    | .alt _ bs => minLenBranches bs
    | .cat _ ts => minLenList ts
    | .rep _ body lo _ => lo * minLen body
  def minLenList : List Tok → Nat
    | [] => 0
    | t :: ts => minLen t + minLenList ts
  def minLenBranches : List Tok → Nat
    | [] => 0
    | b :: bs => if bs.isEmpty then minLen b else min (minLen b) (minLenBranches bs)
end

theorem minLenBranches_le_mem {bs : List Tok} {b : Tok} (hb : b ∈ bs) :
    minLenBranches bs ≤ minLen b := by
  induction bs with
  | nil => cases hb
  | cons x xs ih =>
    simp only [minLenBranches]
    cases hb with
    | head => split <;> omega
    | tail _ hm =>
      have := ih hm
      have hne : xs.isEmpty = false := by cases xs with | nil => cases hm | cons => rfl
      simp only [hne, Bool.false_eq_true, ↓reduceIte]
      omega

theorem minLenList_concatenation (b : Tok) : minLenList b.concatenation = minLen b := by
  cases b <;> simp [Tok.concatenation, minLenList, minLen]

mutual
  theorem sm_minLen (σ : Sem) : ∀ {c : Ctx} {t : Tok} {w : Str}, SM σ c t w → minLen t ≤ w.length
    | _, _, _, .lit h => by simp only [minLen]; rw [litEq_length h]; exact Nat.le_refl _
    | _, _, _, .sep => by simp [minLen]
    | _, _, _, .cls _ => by simp [minLen]
    | _, _, _, .one _ => by simp [minLen]
    | _, _, _, .zom _ => by simp [minLen]
    | _, _, _, .tree _ => by simp [minLen]
    | _, _, _, @SM.alt _ _ _ _ b _ hb hm => by
      have h1 := sms_minLen σ hm
      rw [minLenList_concatenation] at h1
      have h2 := minLenBranches_le_mem hb
      simp only [minLen]; omega
    | _, _, _, @SM.rep _ _ _ body lo _ n _ h1 _ h3 => by
      have h := srep_minLen σ h3
      rw [minLenList_concatenation] at h
      have : lo * minLen body ≤ n * minLen body := Nat.mul_le_mul_right _ h1
      simp only [minLen]; omega
    | _, _, _, .cat h => by simp only [minLen]; exact sms_minLen σ h
  theorem sms_minLen (σ : Sem) : ∀ {c : Ctx} {ts : List Tok} {w : Str}, SMs σ c ts w →
      minLenList ts ≤ w.length
    | _, _, _, .nil => by simp [minLenList]
    | _, _, _, .cons hu hv => by
      have h1 := sm_minLen σ hu
      have h2 := sms_minLen σ hv
      simp only [minLenList, List.length_append]; omega
  theorem srep_minLen (σ : Sem) : ∀ {c : Ctx} {body : List Tok} {n : Nat} {w : Str},
      SRep σ c body n w → n * minLenList body ≤ w.length
    | _, _, _, _, .zero => by simp
    | _, _, _, _, .one h => by simpa using sms_minLen σ h
    | _, _, _, _, @SRep.more _ _ body n _ _ hu hv => by
      have h1 := sms_minLen σ hu
      have h2 := srep_minLen σ hv
      have : (n + 2) * minLenList body = minLenList body + (n + 1) * minLenList body := by
        simp only [Nat.add_mul]; omega
      simp only [List.length_append]; omega
end

/-- at the start of a pattern a rooted tree wildcard (`/**/`, `/**`) consumes its separator -/
def minLenTop : List Tok → Nat
  | .tree _ true :: rest => 1 + minLenList rest
  | ts => minLenList ts

theorem sms_minLenTop (σ : Sem) {l : Bool} {ts : List Tok} {w : Str} (h : SMs σ ⟨true, l⟩ ts w) :
    minLenTop ts ≤ w.length := by
  unfold minLenTop
  split
  · obtain ⟨u, v, rfl, hu, hv⟩ := sms_cons.mp h
    have h2 := sms_minLen σ hv
    have hu' := sm_tree.mp hu
    have : 1 ≤ u.length := by
      simp only [TreeLang, Bool.true_or, ↓reduceIte] at hu'
      split at hu'
      · obtain ⟨r, rfl⟩ := hu'; simp
      · obtain ⟨r, _, rfl⟩ := hu'; simp
    simp only [List.length_append]; omega
  · exact sms_minLen σ h

/-- the first token matches one character, never a separator (under any `Sem`) -/
def firstNotSep : List Tok → Bool
  | .lit _ (c :: _) false :: _ => c != '/'
  | .cls .. :: _ => true
  | .one _ :: _ => true
  | _ => false

theorem firstNotSep_sound (σ : Sem) {c : Ctx} {ts : List Tok} {w : Str}
    (hf : firstNotSep ts = true) (h : SMs σ c ts w) : w ≠ ['/'] := by
  unfold firstNotSep at hf
  split at hf
  · obtain ⟨u, v, rfl, hu, hv⟩ := sms_cons.mp h
    have := (litEq_false_iff σ _ _).mp (sm_lit.mp hu)
    subst this
    simp only [bne_iff_ne, ne_eq] at hf
    intro he
    simp only [List.cons_append, List.cons.injEq] at he
    exact hf he.1
  · obtain ⟨u, v, rfl, hu, hv⟩ := sms_cons.mp h
    obtain ⟨ch, rfl, hch⟩ := sm_cls.mp hu
    intro he
    simp only [List.cons_append, List.nil_append, List.cons.injEq] at he
    rw [he.1] at hch
    simp [classHolds] at hch
  · obtain ⟨u, v, rfl, hu, hv⟩ := sms_cons.mp h
    obtain ⟨ch, rfl, hch⟩ := sm_one.mp hu
    intro he
    simp only [List.cons_append, List.nil_append, List.cons.injEq] at he
    exact hch he.1
  · cases hf

/-- F09r, first half: what precedes the last token (if anything) cannot match `""` -/
def emptyOkS (ts : List Tok) : Bool := ts.dropLast.isEmpty || decide (1 ≤ minLenTop ts.dropLast)
/-- F09r, second half: what precedes the last token (if anything) cannot match `"/"`: it matches at
least two characters (e.g. a separator or a rooted tree wildcard followed by something that cannot
match the empty string), or it starts with a character that is not a separator -/
def rootOkS (ts : List Tok) : Bool :=
  ts.dropLast.isEmpty || decide (2 ≤ minLenTop ts.dropLast) || firstNotSep ts.dropLast

theorem emptyOkS_sound (σ : Sem) (ts : List Tok) (h : emptyOkS ts = true) :
    ts.dropLast = [] ∨ ¬ SMs σ ⟨true, false⟩ ts.dropLast [] := by
  simp only [emptyOkS, Bool.or_eq_true, List.isEmpty_iff, decide_eq_true_eq] at h
  rcases h with h | h
  · exact Or.inl h
  · refine Or.inr (fun hm => ?_)
    have := sms_minLenTop σ hm
    simp at this; omega

theorem rootOkS_sound (σ : Sem) (ts : List Tok) (h : rootOkS ts = true) :
    ts.dropLast = [] ∨ ¬ SMs σ ⟨true, false⟩ ts.dropLast ['/'] := by
  simp only [rootOkS, Bool.or_eq_true, List.isEmpty_iff, decide_eq_true_eq] at h
  rcases h with (h | h) | h
  · exact Or.inl h
  · refine Or.inr (fun hm => ?_)
    have := sms_minLenTop σ hm
    simp at this; omega
  · exact Or.inr (fun hm => firstNotSep_sound σ h hm rfl)

/-- **C09 on F09a ∩ F09r, for ALL canonical paths** (`exhaustive_beneath_root`): if the last
top-level token is a tree wildcard or is not taken by the scan, and what precedes it (if anything)
can match neither `""` (`emptyOkS`) nor `"/"` (`rootOkS`) — both purely syntactic, decidable — then
an `Always` verdict implies: with every canonical path `p` the pattern matches — `""` and `"/"`
included — it matches every path `q` beneath `p`. -/
theorem exhaustive_beneath_root (σ : Sem) (sp : Span) (ts : List Tok) (t : Tok)
    (hlast : lastTok ts = some t) (hfrag : isTreeTok t = true ∨ exhTake t = false)
    (hAlways : isExhaustive (.cat sp ts) = .ok .always)
    (hE : emptyOkS ts = true) (hR : rootOkS ts = true)
    (p q : Str) (hc : Canonical p) (hm : Spec.Matches σ (.cat sp ts) p) (hb : Beneath p q) :
    Spec.Matches σ (.cat sp ts) q :=
  exhaustive_beneath_sem σ sp ts t hlast hfrag hAlways (emptyOkS_sound σ ts hE)
    (rootOkS_sound σ ts hR) p q hc hm hb

-- non-vacuous at the root: `/**` reports `Always`, meets the side conditions, matches `/`; the
-- theorem yields `/q`
example (σ : Sem) (sp : Span) : Spec.Matches σ (.cat sp [.tree sp true]) "/q".toList :=
  exhaustive_beneath_root σ sp [.tree sp true] (.tree sp true) rfl (Or.inl rfl) rfl
    rfl rfl "/".toList "/q".toList (by decide)
    (sms_singleton.mpr (sm_tree.mpr (by simp [TreeLang]))) (by decide)
-- `/a/**`, `a/**`, `/**/a/**`, `?/**` meet the side conditions; the witnesses of 3a do not
example (sp : Span) :
    isExhaustive (.cat sp [.sep sp, .lit sp ['a'] false, .tree sp true]) = .ok .always ∧
    emptyOkS [.sep sp, .lit sp ['a'] false, .tree sp true] = true ∧
    rootOkS [.sep sp, .lit sp ['a'] false, .tree sp true] = true := ⟨rfl, rfl, rfl⟩
example (sp : Span) : emptyOkS [.lit sp ['a'] false, .tree sp true] = true ∧
    rootOkS [.lit sp ['a'] false, .tree sp true] = true := ⟨rfl, rfl⟩
example (sp : Span) : emptyOkS [.tree sp true, .lit sp ['a'] false, .tree sp true] = true ∧
    rootOkS [.tree sp true, .lit sp ['a'] false, .tree sp true] = true := ⟨rfl, rfl⟩
example (sp : Span) : emptyOkS [.one sp, .tree sp true] = true ∧
    rootOkS [.one sp, .tree sp true] = true := ⟨rfl, rfl⟩
example : emptyOkS exhEmptyTok.concatenation = false ∧ rootOkS exhRootTok.concatenation = false := by
  decide

end Wax
