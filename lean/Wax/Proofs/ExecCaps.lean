import Wax.Proofs.Exec
import Wax.Proofs.HirGroups
import Wax.Proofs.HirLang
import Wax.Proofs.ExecComplete
import Wax.Proofs.HirSimple
/-!
# The captures `Re.exec` reports are matched by their groups

`exec_caps_sound`: whenever `r.exec σ s = some caps` and `caps[i]? = some (some u)`, then `u` is a
contiguous piece of the haystack (`u <:+: s`) and `Matches σ (r.group i) u`, where `r.group i` is
the sub-regex of the `i`-th capture group in the order of the opening parentheses
(`Re.group`, `Re.groupList` in `Wax/Proofs/HirGroups.lean`; `r.group 0 = r`).

The proof is `run_sound` of `Wax/Proofs/Exec.lean` again, with an invariant on the slots threaded
through (`StepInv`): every slot that is set holds a piece of the haystack matched by its group.
Slots are written only when a group closes, with the piece consumed since it opened; a failed
branch leaves no trace because the slots are passed functionally.
-/
namespace Wax

/-- every success of `f` is a success of the continuation after a prefix in `L`, and the invariant
    `Q` on (rest of the haystack, slots) is kept -/
def StepInv (Q : Str → Caps → Prop) (L : Str → Prop) (f : Step) : Prop :=
  ∀ w v c k res, f w v c k = some res → Q w c →
    ∃ u w' v' c', w = u ++ w' ∧ L u ∧ Q w' c' ∧ k w' v' c' = some res

section loops
variable {Q : Str → Caps → Prop} {L : Str → Prop}

theorem loopU_inv {body : Step} (hb : StepInv Q L body) (u : Sid) (lazy : Bool) :
    ∀ n, StepInv Q (fun x => ∃ m, IterN L m x) (loopU body u lazy n) := by
  intro n
  induction n with
  | zero =>
    intro w v c k res h hq
    simp only [loopU] at h
    obtain ⟨v', h⟩ := enter_some h
    exact ⟨[], w, v', c, rfl, ⟨0, rfl⟩, hq, h⟩
  | succ n ih =>
    intro w v c k res h hq
    simp only [loopU] at h
    obtain ⟨v', h⟩ := enter_some h
    rcases prefer_some h with h | h
    · obtain ⟨a, w1, v1, c1, rfl, ha, hq1, h1⟩ := hb _ _ _ _ _ h hq
      have h1 := ite_some h1
      obtain ⟨b, w2, v2, c2, rfl, ⟨m, hm⟩, hq2, h2⟩ := ih _ _ _ _ _ h1 hq1
      exact ⟨a ++ b, w2, v2, c2, by simp, ⟨m + 1, a, b, rfl, ha, hm⟩, hq2, h2⟩
    · exact ⟨[], w, v', c, rfl, ⟨0, rfl⟩, hq, h⟩

theorem plusLoop_inv {body : Step} (hb : StepInv Q L body) (p : Sid) (lazy : Bool) :
    ∀ n, StepInv Q (fun x => ∃ m, IterN L (m + 1) x) (plusLoop body p lazy n) := by
  intro n
  induction n with
  | zero =>
    intro w v c k res h hq
    simp only [plusLoop] at h
    obtain ⟨a, w1, v1, c1, rfl, ha, hq1, h1⟩ := hb _ _ _ _ _ h hq
    obtain ⟨v2, h2⟩ := enter_some h1
    exact ⟨a, w1, v2, c1, rfl, ⟨0, IterN.one ha⟩, hq1, h2⟩
  | succ n ih =>
    intro w v c k res h hq
    simp only [plusLoop] at h
    obtain ⟨a, w1, v1, c1, rfl, ha, hq1, h1⟩ := hb _ _ _ _ _ h hq
    obtain ⟨v2, h2⟩ := enter_some h1
    rcases prefer_some h2 with h3 | h3
    · have h3 := ite_some h3
      obtain ⟨b, w2, v3, c2, rfl, ⟨m, hm⟩, hq2, h4⟩ := ih _ _ _ _ _ h3 hq1
      exact ⟨a ++ b, w2, v3, c2, by simp, ⟨m + 1, a, b, rfl, ha, hm⟩, hq2, h4⟩
    · exact ⟨a, w1, v2, c1, rfl, ⟨0, IterN.one ha⟩, hq1, h3⟩

theorem starQ_inv {body : Step} (hb : StepInv Q L body) (q p : Sid) (lazy : Bool) :
    StepInv Q (fun x => ∃ m, IterN L m x) (starQ body q p lazy) := by
  intro w v c k res h hq
  simp only [starQ] at h
  obtain ⟨v', h⟩ := enter_some h
  rcases prefer_some h with h | h
  · obtain ⟨a, w1, v1, c1, e, ⟨m, hm⟩, hq1, h1⟩ := plusLoop_inv hb p lazy _ _ _ _ _ _ h hq
    exact ⟨a, w1, v1, c1, e, ⟨m + 1, hm⟩, hq1, h1⟩
  · exact ⟨[], w, v', c, rfl, ⟨0, rfl⟩, hq, h⟩

theorem starLoop_inv {body : Nat → Step} (hb : ∀ i, StepInv Q L (body i))
    (nn : Bool) (un : Nat → Sid) (lazy : Bool) :
    StepInv Q (fun x => ∃ m, IterN L m x) (starLoop nn body un lazy) := by
  intro w v c k res h hq
  simp only [starLoop] at h
  split at h
  · exact loopU_inv (hb 0) _ _ _ _ _ _ _ _ h hq
  · exact starQ_inv (hb 0) _ _ _ _ _ _ _ _ h hq

theorem exactly_inv {body : Nat → Step} (hb : ∀ i, StepInv Q L (body i)) :
    ∀ n i, StepInv Q (IterN L n) (exactly body n i) := by
  intro n
  induction n with
  | zero =>
    intro i w v c k res h hq
    simp only [exactly] at h
    exact ⟨[], w, v, c, rfl, rfl, hq, h⟩
  | succ n ih =>
    intro i w v c k res h hq
    simp only [exactly] at h
    obtain ⟨a, w1, v1, c1, rfl, ha, hq1, h1⟩ := hb i _ _ _ _ _ h hq
    obtain ⟨b, w2, v2, c2, rfl, hm, hq2, h2⟩ := ih _ _ _ _ _ _ h1 hq1
    exact ⟨a ++ b, w2, v2, c2, by simp, ⟨a, b, rfl, ha, hm⟩, hq2, h2⟩

theorem optNest_inv {body : Nat → Step} (hb : ∀ i, StepInv Q L (body i)) (un : Nat → Sid) :
    ∀ n i, StepInv Q (fun x => ∃ m, m ≤ n ∧ IterN L m x) (optNest body un n i) := by
  intro n
  induction n with
  | zero =>
    intro i w v c k res h hq
    simp only [optNest] at h
    exact ⟨[], w, v, c, rfl, ⟨0, Nat.le_refl _, rfl⟩, hq, h⟩
  | succ n ih =>
    intro i w v c k res h hq
    simp only [optNest] at h
    obtain ⟨v', h⟩ := enter_some h
    rcases orElse'_some h with h | h
    · obtain ⟨a, w1, v1, c1, rfl, ha, hq1, h1⟩ := hb i _ _ _ _ _ h hq
      obtain ⟨b, w2, v2, c2, rfl, ⟨m, hmn, hm⟩, hq2, h2⟩ := ih _ _ _ _ _ _ h1 hq1
      exact ⟨a ++ b, w2, v2, c2, by simp, ⟨m + 1, by omega, a, b, rfl, ha, hm⟩, hq2, h2⟩
    · exact ⟨[], w, v', c, rfl, ⟨0, Nat.zero_le _, rfl⟩, hq, h⟩

theorem repLoop_inv {body : Nat → Step} (hb : ∀ i, StepInv Q L (body i))
    (nn : Bool) (un : Nat → Sid) (lo : Nat) (hi : Option Nat) :
    StepInv Q (fun x => ∃ m, lo ≤ m ∧ (∀ h, hi = some h → m ≤ h) ∧ IterN L m x)
      (repLoop nn body un lo hi) := by
  intro w v c k res h hq
  simp only [repLoop] at h
  cases hi with
  | some hh =>
    simp only at h
    split at h
    · rename_i hle
      obtain ⟨a, w1, v1, c1, rfl, ha, hq1, h1⟩ := exactly_inv hb _ _ _ _ _ _ _ h hq
      obtain ⟨b, w2, v2, c2, rfl, ⟨m, hmn, hm⟩, hq2, h2⟩ := optNest_inv hb un _ _ _ _ _ _ _ h1 hq1
      refine ⟨a ++ b, w2, v2, c2, by simp, ⟨lo + m, Nat.le_add_right _ _, ?_, IterN.append ha hm⟩, hq2, h2⟩
      intro h' e
      cases e
      omega
    · cases h
  | none =>
    simp only at h
    cases lo with
    | zero =>
      simp only at h
      obtain ⟨a, w1, v1, c1, e, ⟨m, hm⟩, hq1, h1⟩ := starLoop_inv hb nn un false _ _ _ _ _ h hq
      exact ⟨a, w1, v1, c1, e, ⟨m, Nat.zero_le _, (by intro _ e; cases e), hm⟩, hq1, h1⟩
    | succ lo' =>
      simp only at h
      obtain ⟨a, w1, v1, c1, rfl, ha, hq1, h1⟩ := exactly_inv hb _ _ _ _ _ _ _ h hq
      obtain ⟨b, w2, v2, c2, rfl, ⟨m, hm⟩, hq2, h2⟩ := plusLoop_inv (hb lo') _ _ _ _ _ _ _ _ h1 hq1
      exact ⟨a ++ b, w2, v2, c2, by simp,
        ⟨lo' + (m + 1), by omega, (by intro _ e; cases e), IterN.append ha hm⟩, hq2, h2⟩

end loops

/-! ### where the groups of a sub-pattern sit in the list of all groups -/

/-- the groups `l` are the groups number `n`, `n + 1`, … of the whole pattern -/
def GroupsAt (gl : List Re) (n : Nat) (l : List Re) : Prop := ∃ t, gl.drop n = l ++ t

theorem GroupsAt.left {gl : List Re} {n : Nat} {a b : List Re} (h : GroupsAt gl n (a ++ b)) :
    GroupsAt gl n a := by
  obtain ⟨t, ht⟩ := h
  exact ⟨b ++ t, by rw [ht, List.append_assoc]⟩

theorem GroupsAt.right {gl : List Re} {n : Nat} {a b : List Re} (h : GroupsAt gl n (a ++ b)) :
    GroupsAt gl (n + a.length) b := by
  obtain ⟨t, ht⟩ := h
  refine ⟨t, ?_⟩
  rw [← List.drop_drop, ht, List.append_assoc, List.drop_left]

theorem GroupsAt.head {gl : List Re} {n : Nat} {x : Re} {a : List Re} (h : GroupsAt gl n (x :: a)) :
    gl[n]? = some x := by
  obtain ⟨t, ht⟩ := h
  have : (gl.drop n)[0]? = some x := by rw [ht]; rfl
  simpa using this

theorem GroupsAt.tail {gl : List Re} {n : Nat} {x : Re} {a : List Re} (h : GroupsAt gl n (x :: a)) :
    GroupsAt gl (n + 1) a := by
  have := GroupsAt.right (a := [x]) (b := a) h
  simpa using this

/-! ### the invariant -/

/-- `u` is an acceptable value of slot `i` -/
def SlotOk (σ : Sem) (s : Str) (gl : List Re) (i : Nat) (u : Str) : Prop :=
  u <:+: s ∧ ∃ g, gl[i]? = some g ∧ Matches σ g u

/-- the rest is a suffix of the haystack and every slot that is set is acceptable -/
def CapInv (σ : Sem) (s : Str) (gl : List Re) (w : Str) (c : Caps) : Prop :=
  w <:+ s ∧ ∀ i u, c[i]? = some (some u) → SlotOk σ s gl i u

theorem CapInv.rest {σ : Sem} {s : Str} {gl : List Re} {u w' : Str} {c : Caps}
    (h : CapInv σ s gl (u ++ w') c) : CapInv σ s gl w' c :=
  ⟨(List.suffix_append u w').trans h.1, h.2⟩

theorem take_consumed (u w' : Str) : (u ++ w').take ((u ++ w').length - w'.length) = u := by
  have : (u ++ w').length - w'.length = u.length := by simp
  rw [this, List.take_left]

mutual
  theorem run_inv (σ : Sem) (s : Str) (gl : List Re) : ∀ (r : Re) (id : Sid) (n : Nat),
      GroupsAt gl n r.groupList → StepInv (CapInv σ s gl) (Matches σ r) (r.run σ id n)
    | .lit t ci, id, n, _ => by
      intro w v c k res h hq
      simp only [Re.run] at h
      split at h
      · rename_i w' hw
        obtain ⟨u, rfl, hu⟩ := litStrip_sound σ ci _ _ _ hw
        exact ⟨u, w', _, c, rfl, .lit hu, hq.rest, h⟩
      · cases h
    | .chr p, id, n, _ => by
      intro w v c k res h hq
      simp only [Re.run] at h
      split at h
      · rename_i a w'
        split at h
        · rename_i hp
          exact ⟨[a], w', [], c, rfl, .chr hp, CapInv.rest (u := [a]) hq, h⟩
        · cases h
      · cases h
    | .never, id, n, _ => by
      intro w v c k res h
      simp [Re.run] at h
    | .cat l, id, n, hg => by
      intro w v c k res h hq
      simp only [Re.run] at h
      simp only [Re.groupList] at hg
      obtain ⟨u, w', v', c', e, hu, hq', hk⟩ := runCat_inv σ s gl l id 0 n hg _ _ _ _ _ h hq
      exact ⟨u, w', v', c', e, .cat hu, hq', hk⟩
    | .alt l, id, n, hg => by
      intro w v c k res h hq
      simp only [Re.run] at h
      simp only [Re.groupList] at hg
      have key : ∀ v, Re.runAlt σ l id 1 n w v c k = some res →
          ∃ u w' v' c', w = u ++ w' ∧ Matches σ (.alt l) u ∧ CapInv σ s gl w' c' ∧ k w' v' c' = some res := by
        intro v h
        obtain ⟨r, hr, u, w', v', c', e, hu, hq', hk⟩ := runAlt_inv σ s gl l id 1 n hg _ _ _ _ _ h hq
        exact ⟨u, w', v', c', e, .alt hr hu, hq', hk⟩
      split at h
      · obtain ⟨v', h⟩ := enter_some h
        exact key _ h
      · exact key _ h
    | .star r, id, n, hg => by
      intro w v c k res h hq
      simp only [Re.run] at h
      simp only [Re.groupList] at hg
      obtain ⟨u, w', v', c', e, ⟨m, hm⟩, hq', hk⟩ :=
        starLoop_inv (fun i => run_inv σ s gl r ((2 * i + 1) :: id) n hg) _ _ _ _ _ _ _ _ h hq
      exact ⟨u, w', v', c', e, star_of_iterN hm, hq', hk⟩
    | .lazyStar r, id, n, hg => by
      intro w v c k res h hq
      simp only [Re.run] at h
      simp only [Re.groupList] at hg
      obtain ⟨u, w', v', c', e, ⟨m, hm⟩, hq', hk⟩ :=
        starLoop_inv (fun i => run_inv σ s gl r ((2 * i + 1) :: id) n hg) _ _ _ _ _ _ _ _ h hq
      exact ⟨u, w', v', c', e, .lazyStar (star_of_iterN hm), hq', hk⟩
    | .opt r, id, n, hg => by
      intro w v c k res h hq
      simp only [Re.run] at h
      simp only [Re.groupList] at hg
      obtain ⟨v', h⟩ := enter_some h
      rcases orElse'_some h with h | h
      · obtain ⟨u, w', v'', c', e, hu, hq', hk⟩ := run_inv σ s gl r (1 :: id) n hg _ _ _ _ _ h hq
        exact ⟨u, w', v'', c', e, .optSome hu, hq', hk⟩
      · exact ⟨[], w, v', c, rfl, .optNone, hq, h⟩
    | .rep r lo hi, id, n, hg => by
      intro w v c k res h hq
      simp only [Re.run] at h
      simp only [Re.groupList] at hg
      obtain ⟨u, w', v', c', e, ⟨m, hlo, hhi, hm⟩, hq', hk⟩ :=
        repLoop_inv (fun i => run_inv σ s gl r ((2 * i + 1) :: id) n hg) _ _ _ _ _ _ _ _ _ h hq
      exact ⟨u, w', v', c', e, .rep hlo hhi (iter_of_iterN hm), hq', hk⟩
    | .cap r, id, n, hg => by
      intro w v c k res h hq
      simp only [Re.run] at h
      simp only [Re.groupList] at hg
      obtain ⟨u, w', v', c', e, hu, hq', hk⟩ := run_inv σ s gl r (0 :: id) (n + 1) hg.tail _ _ _ _ _ h hq
      subst e
      rw [take_consumed] at hk
      refine ⟨u, w', v', _, rfl, .cap hu, ⟨hq'.1, ?_⟩, hk⟩
      intro i x hx
      rw [List.getElem?_set] at hx
      split at hx
      · rename_i hni
        split at hx
        · simp only [Option.some.injEq] at hx
          subst hx hni
          obtain ⟨pre, hpre⟩ := hq.1
          exact ⟨⟨pre, w', by rw [← hpre, List.append_assoc]⟩, r, hg.head, hu⟩
        · cases hx
      · exact hq'.2 i x hx
    | .grp r, id, n, hg => by
      intro w v c k res h hq
      simp only [Re.run] at h
      simp only [Re.groupList] at hg
      obtain ⟨u, w', v', c', e, hu, hq', hk⟩ := run_inv σ s gl r (0 :: id) n hg _ _ _ _ _ h hq
      exact ⟨u, w', v', c', e, .grp hu, hq', hk⟩
  theorem runCat_inv (σ : Sem) (s : Str) (gl : List Re) : ∀ (l : List Re) (id : Sid) (j n : Nat),
      GroupsAt gl n (Re.groupListL l) →
      StepInv (CapInv σ s gl) (MatchesAll σ l) (Re.runCat σ l id j n)
    | [], id, j, n, _ => by
      intro w v c k res h hq
      simp only [Re.runCat] at h
      exact ⟨[], w, v, c, rfl, .nil, hq, h⟩
    | r :: rs, id, j, n, hg => by
      intro w v c k res h hq
      simp only [Re.runCat] at h
      simp only [Re.groupListL] at hg
      have hg2 := hg.right
      rw [groupList_length] at hg2
      obtain ⟨a, w1, v1, c1, rfl, ha, hq1, h1⟩ := run_inv σ s gl r (j :: id) n hg.left _ _ _ _ _ h hq
      obtain ⟨b, w2, v2, c2, rfl, hb, hq2, h2⟩ :=
        runCat_inv σ s gl rs id (j + 1) (n + r.ncaps) hg2 _ _ _ _ _ h1 hq1
      exact ⟨a ++ b, w2, v2, c2, by simp, .cons ha hb, hq2, h2⟩
  theorem runAlt_inv (σ : Sem) (s : Str) (gl : List Re) : ∀ (l : List Re) (id : Sid) (j n : Nat),
      GroupsAt gl n (Re.groupListL l) → ∀ (w : Str) (v : Vis) (c : Caps)
      (k : Kont) (res : Caps), Re.runAlt σ l id j n w v c k = some res → CapInv σ s gl w c →
      ∃ r ∈ l, ∃ u w' v' c', w = u ++ w' ∧ Matches σ r u ∧ CapInv σ s gl w' c' ∧ k w' v' c' = some res
    | [], id, j, n, _, w, v, c, k, res, h, _ => by simp [Re.runAlt] at h
    | r :: rs, id, j, n, hg, w, v, c, k, res, h, hq => by
      simp only [Re.runAlt] at h
      simp only [Re.groupListL] at hg
      have hg2 := hg.right
      rw [groupList_length] at hg2
      rcases orElse'_some h with h | h
      · obtain ⟨u, w', v', c', e, hu, hq', hk⟩ := run_inv σ s gl r (j :: id) n hg.left _ _ _ _ _ h hq
        exact ⟨r, List.mem_cons_self .., u, w', v', c', e, hu, hq', hk⟩
      · obtain ⟨r', hr', rest⟩ := runAlt_inv σ s gl rs id (j + 1) (n + r.ncaps) hg2 _ _ _ _ _ h hq
        exact ⟨r', List.mem_cons_of_mem _ hr', rest⟩
end

/-- **captures are matched by their groups**: every reported capture is a contiguous piece of the
    haystack and is in the language of the group with that number (group 0 is the whole pattern) -/
theorem exec_caps_sound {σ : Sem} {r : Re} {s : Str} {caps : List (Option Str)}
    (h : r.exec σ s = some caps) {i : Nat} {u : Str} (hi : caps[i]? = some (some u)) :
    u <:+: s ∧ Matches σ (r.group i) u := by
  have hs := exec_sound h
  unfold Re.exec at h
  split at h
  · cases h
  · rename_i c hc
    cases h
    cases i with
    | zero =>
      simp only [List.getElem?_cons_zero, Option.some.injEq] at hi
      subst hi
      exact ⟨List.infix_refl _, hs.1⟩
    | succ i =>
      simp only [List.getElem?_cons_succ] at hi
      have hq0 : CapInv σ s r.groupList s (List.replicate r.ncaps none) := by
        refine ⟨List.suffix_refl _, fun j x hx => ?_⟩
        rw [List.getElem?_replicate] at hx
        split at hx <;> cases hx
      obtain ⟨u', w', v', c', _, _, hq', hk⟩ :=
        run_inv σ s r.groupList r [] 0 ⟨[], by simp⟩ _ _ _ _ _ hc hq0
      simp only [atEnd] at hk
      split at hk
      · cases hk
        obtain ⟨hinf, g, hg, hm⟩ := hq'.2 i u hi
        refine ⟨hinf, ?_⟩
        simp only [Re.group, hg, Option.getD_some]
        exact hm
      · cases hk

/-- a capture that is reported belongs to a group that exists -/
theorem exec_caps_index {σ : Sem} {r : Re} {s : Str} {caps : List (Option Str)}
    (h : r.exec σ s = some caps) {i : Nat} {u : Option Str} (hi : caps[i]? = some u) : i ≤ r.ncaps := by
  have := (exec_sound h).2.2.2
  have hlt : i < caps.length := by
    apply Classical.byContradiction
    intro hn
    rw [List.getElem?_eq_none (by omega)] at hi
    cases hi
  omega

/-! ### the same for the match model (`exec` on the normal form) -/

mutual
  theorem boundsOk_group : ∀ (r : Re), r.boundsOk = true → ∀ g ∈ r.groupList, g.boundsOk = true
    | .lit .., _, g, hg => by simp [Re.groupList] at hg
    | .chr _, _, g, hg => by simp [Re.groupList] at hg
    | .never, _, g, hg => by simp [Re.groupList] at hg
    | .cat l, h, g, hg => by
      simp only [Re.boundsOk] at h; simp only [Re.groupList] at hg
      exact boundsOk_groupL l h g hg
    | .alt l, h, g, hg => by
      simp only [Re.boundsOk] at h; simp only [Re.groupList] at hg
      exact boundsOk_groupL l h g hg
    | .star r, h, g, hg => by
      simp only [Re.boundsOk] at h; simp only [Re.groupList] at hg
      exact boundsOk_group r h g hg
    | .lazyStar r, h, g, hg => by
      simp only [Re.boundsOk] at h; simp only [Re.groupList] at hg
      exact boundsOk_group r h g hg
    | .opt r, h, g, hg => by
      simp only [Re.boundsOk] at h; simp only [Re.groupList] at hg
      exact boundsOk_group r h g hg
    | .rep r _ _, h, g, hg => by
      simp only [Re.boundsOk, Bool.and_eq_true] at h; simp only [Re.groupList] at hg
      exact boundsOk_group r h.2 g hg
    | .grp r, h, g, hg => by
      simp only [Re.boundsOk] at h; simp only [Re.groupList] at hg
      exact boundsOk_group r h g hg
    | .cap r, h, g, hg => by
      simp only [Re.boundsOk] at h; simp only [Re.groupList] at hg
      rcases List.mem_cons.mp hg with e | hg
      · rw [e]; exact h
      · exact boundsOk_group r h g hg
  theorem boundsOk_groupL : ∀ (l : List Re), Re.boundsOkList l = true → ∀ g ∈ Re.groupListL l, g.boundsOk = true
    | [], _, g, hg => by simp [Re.groupListL] at hg
    | r :: rs, h, g, hg => by
      simp only [Re.boundsOkList, Bool.and_eq_true] at h
      simp only [Re.groupListL] at hg
      rcases List.mem_append.mp hg with hg | hg
      · exact boundsOk_group r h.1 g hg
      · exact boundsOk_groupL rs h.2 g hg
end

mutual
  theorem ciChars_group : ∀ (r : Re), ∀ g ∈ r.groupList, ∀ c ∈ g.ciChars, c ∈ r.ciChars
    | .lit .., g, hg => by simp [Re.groupList] at hg
    | .chr _, g, hg => by simp [Re.groupList] at hg
    | .never, g, hg => by simp [Re.groupList] at hg
    | .cat l, g, hg => by
      simp only [Re.groupList] at hg; simp only [Re.ciChars]
      exact ciChars_groupL l g hg
    | .alt l, g, hg => by
      simp only [Re.groupList] at hg; simp only [Re.ciChars]
      exact ciChars_groupL l g hg
    | .star r, g, hg => by
      simp only [Re.groupList] at hg; simp only [Re.ciChars]
      exact ciChars_group r g hg
    | .lazyStar r, g, hg => by
      simp only [Re.groupList] at hg; simp only [Re.ciChars]
      exact ciChars_group r g hg
    | .opt r, g, hg => by
      simp only [Re.groupList] at hg; simp only [Re.ciChars]
      exact ciChars_group r g hg
    | .rep r _ _, g, hg => by
      simp only [Re.groupList] at hg; simp only [Re.ciChars]
      exact ciChars_group r g hg
    | .grp r, g, hg => by
      simp only [Re.groupList] at hg; simp only [Re.ciChars]
      exact ciChars_group r g hg
    | .cap r, g, hg => by
      simp only [Re.groupList] at hg; simp only [Re.ciChars]
      rcases List.mem_cons.mp hg with e | hg
      · rw [e]; exact fun c hc => hc
      · exact ciChars_group r g hg
  theorem ciChars_groupL : ∀ (l : List Re), ∀ g ∈ Re.groupListL l, ∀ c ∈ g.ciChars, c ∈ Re.ciCharsList l
    | [], g, hg => by simp [Re.groupListL] at hg
    | r :: rs, g, hg => by
      simp only [Re.groupListL] at hg
      simp only [Re.ciCharsList, List.mem_append]
      rcases List.mem_append.mp hg with hg | hg
      · exact fun c hc => Or.inl (ciChars_group r g hg c hc)
      · exact fun c hc => Or.inr (ciChars_groupL rs g hg c hc)
end

/-- the hypotheses of `hirNorm_lang` pass to the groups -/
theorem HirHyp.group {orbit : Char → List Char} {σ : Sem} {r : Re} (h : HirHyp orbit σ r)
    {g : Re} (hg : g ∈ r.groupList) : HirHyp orbit σ g :=
  ⟨boundsOk_group r h.bounds g hg, fun c hc => h.orbit c (ciChars_group r g hg c hc)⟩

/-- **C04 for the match model**: every capture that `exec` reports on the normal form (what `cmdM`
    prints, what the crate returns) is a contiguous piece of the haystack and is in the language of
    the group with the same number *of the pattern wax printed* -/
theorem match_model_caps_sound {orbit : Char → List Char} {σ : Sem} {r : Re} (h : HirHyp orbit σ r)
    (hk : r.capsKept = true) {s : Str} {caps : List (Option Str)}
    (he : (r.hirNorm orbit σ).exec σ s = some caps) {i : Nat} {u : Str} (hi : caps[i]? = some (some u)) :
    u <:+: s ∧ Matches σ (r.group i) u := by
  obtain ⟨h1, h2⟩ := exec_caps_sound he hi
  refine ⟨h1, ?_⟩
  have hle : i ≤ r.ncaps := by rw [← hirNorm_ncaps (orbit := orbit) (σ := σ) hk]; exact exec_caps_index he hi
  rw [hirNorm_group hk i hle] at h2
  cases i with
  | zero => exact (hirNorm_lang h u).mp h2
  | succ i =>
    have hlt : i < r.groupList.length := by rw [groupList_length]; omega
    have hmem : r.group (i + 1) ∈ r.groupList := by
      simp only [Re.group, List.getElem?_eq_getElem hlt, Option.getD_some]
      exact List.getElem_mem hlt
    exact (hirNorm_lang (h.group hmem) u).mp h2

/-- and there is one entry per group of the printed pattern -/
theorem match_model_caps_length {orbit : Char → List Char} {σ : Sem} {r : Re}
    (hk : r.capsKept = true) {s : Str} {caps : List (Option Str)}
    (he : (r.hirNorm orbit σ).exec σ s = some caps) : caps.length = r.ncaps + 1 := by
  rw [(exec_sound he).2.2.2, hirNorm_ncaps hk]

/-- `((?:a*xx)|(?:a*(yy)))z`: the common prefix `a*` of the two branches is factored out
    (`a*(?:xx|(yy))`), group 2 keeps its number and its meaning -/
def exFactored : Re :=
  .cat [.cap (.alt [.grp (.cat [.star (.lit ['a'] false), .lit ['x', 'x'] false]),
                    .grp (.cat [.star (.lit ['a'] false), .cap (.lit ['y', 'y'] false)])]),
        .lit ['z'] false]

/-- the hypotheses of `match_model_caps_sound` hold on `exFactored` and the haystack `aayyz` -/
example : HirHyp trivOrbit trivSem exFactored ∧ exFactored.capsKept = true ∧
    (exFactored.hirNorm trivOrbit trivSem).exec trivSem ['a', 'a', 'y', 'y', 'z'] =
      some [some ['a', 'a', 'y', 'y', 'z'], some ['a', 'a', 'y', 'y'], some ['y', 'y']] :=
  ⟨hirHyp_triv (by decide), by decide, by decide +kernel⟩

/-- **the match model is complete, for normal forms with simple loops** (partial: the full
    statement is without `hl`; see `Wax/Proofs/ExecComplete.lean` for what is missing) -/
theorem match_model_complete_partial {orbit : Char → List Char} {σ : Sem} {r : Re} (h : HirHyp orbit σ r)
    (hl : (r.hirNorm orbit σ).loopsSimple = true) {s : Str} (hm : Matches σ r s) :
    ∃ caps, (r.hirNorm orbit σ).exec σ s = some caps :=
  exec_complete_partial hl ((hirNorm_lang h s).mpr hm)

/-- the same with the hypothesis on the printed pattern (`hirNorm_loopsSimple`) -/
theorem match_model_complete_partial' {orbit : Char → List Char} {σ : Sem} {r : Re} (h : HirHyp orbit σ r)
    (hl : r.loopsSimple = true) {s : Str} (hm : Matches σ r s) :
    ∃ caps, (r.hirNorm orbit σ).exec σ s = some caps :=
  match_model_complete_partial h (hirNorm_loopsSimple hl) hm

/-- on such patterns the match model decides the language of the printed pattern -/
theorem match_model_isSome {orbit : Char → List Char} {σ : Sem} {r : Re} (h : HirHyp orbit σ r)
    (hl : r.loopsSimple = true) (s : Str) :
    ((r.hirNorm orbit σ).exec σ s).isSome = r.matchB σ s := by
  rw [exec_isSome_iff (hirNorm_loopsSimple hl), hirNorm_matchB h]

example : exFactored.loopsSimple = true := by decide

/-- the hypotheses of `exec_caps_sound` hold on a concrete input: `(a*)(b)?` on `aab` -/
example : (Re.cat [.cap (.star (.lit ['a'] false)), .opt (.cap (.lit ['b'] false))]).exec trivSem ['a', 'a', 'b'] =
    some [some ['a', 'a', 'b'], some ['a', 'a'], some ['b']] := by decide

end Wax
