import Wax.Proofs.GlobPrograms
import Wax.Proofs.WalkFaults
import Wax.Proofs.WalkLogs
import Wax.Proofs.Behavior
import Wax.Proofs.PathSplit
/-!
C15 / C02 / C13 / C14 for glob walks *with depth bounds*, on the executable model.

1. `prune_less_same_matches` (monotonicity): a verdict that discards a directory only where no
   entry at or beneath it can be kept yields the same kept entries as the verdict that never
   discards — walking MORE never adds (or loses) a match.  Every verdict below the glob closure
   is such a verdict (`glob_prunes_only_nonmatching`, `glob_prune_less_same_matches`), in
   particular the closure silenced below `min_depth` (`glob_silenced_same_matches`); no chain
   hypothesis is needed: `relVerdict q = .tree → hasBad … q` holds for *every* `q`
   (`relVerdict_tree_hasBad`).
   `glob_walk_bounded_exact_partial` (`_names`, `_compiled`): the filtrate of
   `π.items (b.atPivot pivot) rv` is exactly the list of entries of the whole tree whose relative
   path the complete program matches and whose depth from the root segment `b.admits`, in
   traversal order.  `root_exempt_needed`, `reach_needed`: two provisos that cannot be dropped.
2. `file_discard_harmless` (`_on`), `feedDep_sameCut`: walks / stacks that differ only in
   keep-vs-file drive the same traversal and cancel equally often; instances
   `append_file_layer_harmless`, `insert_file_layer_harmless` (under `StateFree`),
   `glob_file_arm_harmless`; `inner_file_layer_not_harmless`: the proviso is needed
   (K-NOT-RESIDUE-PIVOT).
3. `glob_entry_fields_partial` (`glob_entry_roundtrip_and_match`, `_faithful`, `_names`): the
   fields of a yielded `GlobEntry`; `glob_entry_depth_rooted`: the depth field is wrong for every
   entry when the pivot exceeds the components of the root (K-ENTRY-ROOTED-DEPTH).
-/
set_option linter.unusedSimpArgs false

namespace Wax.Walk
open Wax Wax.Path
open Wax.WalkTree (relOf PathOk hasBad hasBad_append pathOk_append)

/-! ## 1. a glob walk with depth bounds -/

/-! ### the Ok entries of item lists -/

theorem okEntries_okItems (l : List Item) : okEntries (okItems l) = okEntries l := by
  induction l with
  | nil => rfl
  | cons x xs ih =>
    cases x with
    | ok e => simp only [okItems_cons_ok, okEntries_ok, ih]
    | err q a => simp only [okItems_cons_err, okEntries_err, ih]

theorem okEntries_filter_within (mn : Nat) (mx : Option Nat) (l : List Item) :
    okEntries (l.filter (Item.within mn mx)) =
      (okEntries l).filter (fun e => Walk.within mn mx e.depth) := by
  induction l with
  | nil => rfl
  | cons x xs ih =>
    cases x with
    | ok e =>
      by_cases h : Walk.within mn mx e.depth = true
      · have h' : Item.within mn mx (.ok e) = true := h
        simp only [List.filter_cons, h', if_true, okEntries_ok, h, ih]
      · have h' : ¬ Item.within mn mx (.ok e) = true := h
        simp only [List.filter_cons, h', if_false, okEntries_ok, h, ih, Bool.false_eq_true]
    | err q a =>
      by_cases h : Item.within mn mx (.err q a) = true
      · simp only [List.filter_cons, h, if_true, okEntries_err, ih]
      · simp only [List.filter_cons, h, if_false, okEntries_err, ih, Bool.false_eq_true]

/-- the Ok entries of a depth-bounded walk are the Ok entries, within the bounds, of the unbounded
    walk driven by the verdict silenced below `min_depth` (`walkItems_bounded_eq_filter` on
    entries) -/
theorem okEntries_bounded (mn : Nat) (mx : Option Nat) (v : Entry → Bool) (rv : RootView) :
    okEntries (walkItems mn mx v rv) =
      (okEntries (walkItems 0 none (silenced mn v) rv)).filter
        (fun e => Walk.within mn mx e.depth) := by
  rw [← okEntries_okItems, walkItems_bounded_eq_filter, okEntries_filter_within, okEntries_okItems]

/-! ### walking more never changes the set of matches -/

theorem visitB_dir0 (w : Entry → Bool) (p : List Str) (n : Str) (cs : List WNode) :
    visitB 0 none w p (.dir n cs) =
      .ok ⟨p ++ [n], .d⟩ :: (if w ⟨p ++ [n], .d⟩ then [] else visitListB 0 none w (p ++ [n]) cs) := by
  simp [visitB, over]

theorem visitB_leaf0 (w : Entry → Bool) (p : List Str) (n : Str) (k : LeafKind) :
    visitB 0 none w p (.leaf n k) = [.ok ⟨p ++ [n], k.kind⟩] := by
  simp [visitB]

mutual
  /-- in a subtree none of whose (good) paths can be kept, nothing is kept, whatever the verdict -/
  theorem kept_nil (G : List Str → Bool) (K : Entry → Bool) (w : Entry → Bool) :
      ∀ (n : WNode) (p : List Str), allPathsB G p n.toWT = true →
        (∀ q k, G (p ++ q) = true → K ⟨p ++ q, k⟩ = false) →
        (okEntries (visitB 0 none w p n)).filter K = []
    | .leaf nm kd, p, hG, hK => by
      simp only [WNode.toWT, allPathsB] at hG
      simp [visitB_leaf0, okEntries_ok, okEntries_nil, hK [nm] kd.kind hG]
    | .errChild nm a, p, _, _ => by simp [visitB, okEntries_err, okEntries_nil]
    | .errHere, p, _, _ => by simp [visitB, okEntries_err, okEntries_nil]
    | .dir nm cs, p, hG, hK => by
      simp only [WNode.toWT, allPathsB, Bool.and_eq_true] at hG
      have ih := kept_nilL G K w cs (p ++ [nm]) hG.2
        (fun q k hq => by
          have := hK ([nm] ++ q) k (by simpa using hq)
          simpa using this)
      rw [visitB_dir0, okEntries_ok, List.filter_cons, hK [nm] .d hG.1]
      by_cases hw : w ⟨p ++ [nm], .d⟩ = true
      · simp [hw, okEntries_nil]
      · simp only [hw, Bool.false_eq_true, if_false, ih]
  theorem kept_nilL (G : List Str → Bool) (K : Entry → Bool) (w : Entry → Bool) :
      ∀ (ns : List WNode) (p : List Str), allPathsLB G p (toWTList ns) = true →
        (∀ q k, G (p ++ q) = true → K ⟨p ++ q, k⟩ = false) →
        (okEntries (visitListB 0 none w p ns)).filter K = []
    | [], _, _, _ => rfl
    | n :: ns, p, hG, hK => by
      simp only [toWTList, allPathsLB, Bool.and_eq_true] at hG
      simp only [visitListB, okEntries_append, List.filter_append, kept_nil G K w n p hG.1 hK,
        kept_nilL G K w ns p hG.2 hK, List.append_nil]
end

mutual
  theorem prune_less_same_matches_node (G : List Str → Bool) (K : Entry → Bool) (w : Entry → Bool)
      (hw : ∀ p, G p = true → w ⟨p, .d⟩ = true → ∀ q k, G (p ++ q) = true → K ⟨p ++ q, k⟩ = false) :
      ∀ (n : WNode) (p : List Str), allPathsB G p n.toWT = true →
        (okEntries (visitB 0 none w p n)).filter K = (okEntries (visitB 0 none never p n)).filter K
    | .leaf nm kd, p, _ => by simp only [visitB_leaf0]
    | .errChild nm a, p, _ => by simp only [visitB]
    | .errHere, p, _ => by simp only [visitB]
    | .dir nm cs, p, hG => by
      simp only [WNode.toWT, allPathsB, Bool.and_eq_true] at hG
      rw [visitB_dir0, visitB_dir0, okEntries_ok, okEntries_ok, List.filter_cons, List.filter_cons]
      have hn : never ⟨p ++ [nm], .d⟩ = false := rfl
      simp only [hn, Bool.false_eq_true, if_false]
      by_cases hv : w ⟨p ++ [nm], .d⟩ = true
      · have hnil := kept_nilL G K never cs (p ++ [nm]) hG.2 (hw (p ++ [nm]) hG.1 hv)
        simp only [hv, if_true, okEntries_nil, List.filter_nil, hnil]
      · simp only [hv, Bool.false_eq_true, if_false,
          prune_less_same_matches_list G K w hw cs (p ++ [nm]) hG.2]
  /-- **monotonicity (`prune_less_same_matches`)**: let `w` be a verdict that discards a directory
      `p` only if no entry at or beneath `p` is kept by `K` (among the paths `G` of the tree).
      Then the unbounded walk driven by `w` and the walk that never discards — which reads more —
      have the same kept entries, in the same order. -/
  theorem prune_less_same_matches_list (G : List Str → Bool) (K : Entry → Bool) (w : Entry → Bool)
      (hw : ∀ p, G p = true → w ⟨p, .d⟩ = true → ∀ q k, G (p ++ q) = true → K ⟨p ++ q, k⟩ = false) :
      ∀ (ns : List WNode) (p : List Str), allPathsLB G p (toWTList ns) = true →
        (okEntries (visitListB 0 none w p ns)).filter K =
          (okEntries (visitListB 0 none never p ns)).filter K
    | [], _, _ => rfl
    | n :: ns, p, hG => by
      simp only [toWTList, allPathsLB, Bool.and_eq_true] at hG
      simp only [visitListB, okEntries_append, List.filter_append,
        prune_less_same_matches_node G K w hw n p hG.1,
        prune_less_same_matches_list G K w hw ns p hG.2]
end

/-- the children walkdir finds below the root of the walk -/
def RootView.children : RootView → List WNode
  | .dir cs => cs
  | .link cs => cs
  | _ => []

/-- **`prune_less_same_matches`, a whole walk** (root entry included) -/
theorem prune_less_same_matches (G : List Str → Bool) (K : Entry → Bool) (w : Entry → Bool)
    (hw : ∀ p, G p = true → w ⟨p, .d⟩ = true → ∀ q k, G (p ++ q) = true → K ⟨p ++ q, k⟩ = false)
    (rv : RootView) (h0 : G [] = true)
    (hall : allPathsLB G [] (toWTList rv.children) = true) :
    (okEntries (walkItems 0 none w rv)).filter K =
      (okEntries (walkItems 0 none never rv)).filter K := by
  rw [walkItems_eq_spec, walkItems_eq_spec]
  cases rv with
  | err a => rfl
  | leaf k => rfl
  | dir cs =>
    simp only [RootView.children] at hall
    have hn : never ⟨[], .d⟩ = false := rfl
    simp only [walkSpec, Nat.lt_irrefl, if_false, over, Bool.false_eq_true, okEntries_ok,
      List.filter_cons, hn]
    by_cases hv : w ⟨[], .d⟩ = true
    · have hnil := kept_nilL G K never cs [] hall
        (fun q k hq => by simpa using hw [] h0 hv q k (by simpa using hq))
      simp only [hv, if_true, okEntries_nil, List.filter_nil, hnil]
    · simp only [hv, Bool.false_eq_true, if_false, prune_less_same_matches_list G K w hw cs [] hall]
  | link cs =>
    simp only [RootView.children] at hall
    simp only [walkSpec, Nat.lt_irrefl, if_false, over, Bool.false_eq_true, okEntries_ok,
      List.filter_cons, prune_less_same_matches_list G K w hw cs [] hall]


/-! ### the entries of a walk lie on the paths of the tree -/

theorem mem_okEntries {e : Entry} {l : List Item} : e ∈ okEntries l ↔ Item.ok e ∈ l := by
  induction l with
  | nil => simp [okEntries_nil]
  | cons x xs ih =>
    cases x with
    | ok e' => simp [okEntries_ok, ih]
    | err q a => simp [okEntries_err, ih]

mutual
  theorem visitB_ok_good (G : List Str → Bool) (mn : Nat) (mx : Option Nat) (w : Entry → Bool) :
      ∀ (n : WNode) (p : List Str), allPathsB G p n.toWT = true →
        ∀ e, Item.ok e ∈ visitB mn mx w p n → G e.names = true
    | .leaf nm kd, p, hG, e, he => by
      simp only [WNode.toWT, allPathsB] at hG
      simp only [visitB] at he
      split at he
      · cases he
      · simp only [List.mem_singleton, Item.ok.injEq] at he
        subst he; exact hG
    | .errChild nm a, p, _, e, he => by simp [visitB] at he
    | .errHere, p, _, e, he => by simp [visitB] at he
    | .dir nm cs, p, hG, e, he => by
      simp only [WNode.toWT, allPathsB, Bool.and_eq_true] at hG
      simp only [visitB] at he
      split at he
      · split at he
        · cases he
        · exact visitListB_ok_good G mn mx w cs _ hG.2 e he
      · rcases List.mem_cons.mp he with h | h
        · simp only [Item.ok.injEq] at h
          subst h; exact hG.1
        · split at h
          · cases h
          · split at h
            · cases h
            · exact visitListB_ok_good G mn mx w cs _ hG.2 e h
  theorem visitListB_ok_good (G : List Str → Bool) (mn : Nat) (mx : Option Nat) (w : Entry → Bool) :
      ∀ (ns : List WNode) (p : List Str), allPathsLB G p (toWTList ns) = true →
        ∀ e, Item.ok e ∈ visitListB mn mx w p ns → G e.names = true
    | [], _, _, e, he => by simp [visitListB] at he
    | n :: ns, p, hG, e, he => by
      simp only [toWTList, allPathsLB, Bool.and_eq_true] at hG
      simp only [visitListB, List.mem_append] at he
      rcases he with he | he
      · exact visitB_ok_good G mn mx w n p hG.1 e he
      · exact visitListB_ok_good G mn mx w ns p hG.2 e he
end

/-- every entry a walk yields (any bounds, any verdict) lies on a path of the tree -/
theorem walk_ok_good (G : List Str → Bool) (mn : Nat) (mx : Option Nat) (w : Entry → Bool)
    (rv : RootView) (h0 : G [] = true) (hall : allPathsLB G [] (toWTList rv.children) = true) :
    ∀ e ∈ okEntries (walkItems mn mx w rv), G e.names = true := by
  intro e he
  rw [mem_okEntries, walkItems_eq_spec] at he
  have hcs : ∀ cs, allPathsLB G [] (toWTList cs) = true →
      Item.ok e ∈ (if over 1 mx then [] else visitListB mn mx w [] cs) → G e.names = true := by
    intro cs hcs h
    split at h
    · cases h
    · exact visitListB_ok_good G mn mx w cs [] hcs e h
  cases rv with
  | err a => simp [walkSpec] at he
  | leaf k =>
    simp only [walkSpec] at he
    split at he
    · cases he
    · simp only [List.mem_singleton, Item.ok.injEq] at he
      subst he; exact h0
  | dir cs =>
    simp only [RootView.children] at hall
    simp only [walkSpec] at he
    split at he
    · exact hcs cs hall he
    · rcases List.mem_cons.mp he with h | h
      · simp only [Item.ok.injEq] at h
        subst h; exact h0
      · split at h
        · cases h
        · exact hcs cs hall h
  | link cs =>
    simp only [RootView.children] at hall
    simp only [walkSpec] at he
    split at he
    · exact hcs cs hall he
    · rcases List.mem_cons.mp he with h | h
      · simp only [Item.ok.injEq] at h
        subst h; exact h0
      · exact hcs cs hall h

/-! ### the `GlobWalker` closure prunes only where nothing can match -/

/-- the closure answers `filter_tree` only on name lists with a rejected name — for *every* name
    list, whether or not its ancestors were discarded (the converse needs a chain of ancestors
    that were not: `relVerdict_chain`) -/
theorem relVerdict_tree_hasBad (σ : Sem) (g : GlobProgram) (q : List Str)
    (h : relVerdict σ g q = .tree) : hasBad (progFns σ g.components) q = true := by
  have := (relVerdict_tree_iff σ g q).mp h
  rw [hasBad_split (q.length - g.pivot - 1), this, Bool.or_true]

/-- the relative segment a consumer of a glob walk reads off a filtrate is the candidate path of
    the closure -/
theorem globPipeline_relative (σ : Sem) (root : Str) (g : GlobProgram) (e : Entry) :
    ((globPipeline σ root g).relativeFor e .filtrate).2 =
      (globVerdict σ g (joinAll root e.names) e.names.length).2 := rfl

theorem globPipeline_relative_faithful (σ : Sem) (root : Str) (g : GlobProgram) (pre : List Str)
    (hpiv : g.pivot = pre.length) (e : Entry) (hf : entryFaithfulP root pre e.names = true) :
    ((globPipeline σ root g).relativeFor e .filtrate).2 = relOf (pre ++ e.names) := by
  rw [globPipeline_relative, globVerdict_of_faithfulP σ g root pre e.names hpiv hf]

/-- beneath a directory the closure discards as a tree, no entry is matched by the complete
    program: pruning skips only entries that cannot match -/
theorem glob_prunes_only_nonmatching (σ : Sem) (g : GlobProgram) (hs : ProgramsSound σ g)
    (root : Str) (pre : List Str) (hpiv : g.pivot = pre.length) (p : List Str)
    (hp : entryFaithfulP root pre p = true)
    (hc : (globPipeline σ root g).cancels ⟨p, .d⟩ = true)
    (q : List Str) (hq : entryFaithfulP root pre (p ++ q) = true) :
    g.complete.matchB σ (relOf (pre ++ (p ++ q))) = false := by
  rw [globPipeline_cancels] at hc
  simp only [globVerdict_of_faithfulP σ g root pre p hpiv hp, beq_iff_eq] at hc
  have hbad := hasBad_append _ _ q (relVerdict_tree_hasBad σ g _ hc)
  have hok : PathOk (pre ++ (p ++ q)) := by
    simp only [entryFaithfulP, Bool.and_eq_true] at hq
    exact goodNames_pathOk hq.1
  cases hm : g.complete.matchB σ (relOf (pre ++ (p ++ q))) with
  | false => rfl
  | true =>
    have := hs.notBad _ hok hm
    rw [← List.append_assoc, hbad] at this
    cases this

/-- what `glob_walk_bounded_exact_partial` needs of the root entry of a walk without invariant
    prefix: at depth 0 the loop finds no candidate for the first component program (`Right`) and
    makes the root node residue, *whether or not* the complete program matches the empty path
    (`root_not_yielded`).  So: an invariant prefix, or no component program, or a glob that does
    not match the empty path. -/
def rootExempt (σ : Sem) (g : GlobProgram) (pre : List Str) : Bool :=
  !pre.isEmpty || g.components.isEmpty || !g.complete.matchB σ []

/-- the closure keeps (yields) a faithful entry iff the complete program matches its relative
    path — the root entry included, given `rootExempt` -/
theorem glob_filtrate_iff (σ : Sem) (g : GlobProgram) (hs : ProgramsSound σ g)
    (root : Str) (pre : List Str) (hpiv : g.pivot = pre.length)
    (hroot0 : rootExempt σ g pre = true) (e : Entry)
    (hf : entryFaithfulP root pre e.names = true) :
    ((globPipeline σ root g).decide e).1 = .filtrate ↔
      g.complete.matchB σ (relOf (pre ++ e.names)) = true := by
  rw [globPipeline_filtrate]
  by_cases hne : pre ++ e.names = []
  · have hv := globVerdict_of_faithfulP σ g root pre e.names hpiv hf
    rw [hv, hne]
    simp only [List.append_eq_nil_iff] at hne
    simp only [relVerdict_nil]
    cases hc : g.components with
    | nil =>
      by_cases hm : g.complete.matchB σ [] = true <;> simp [completeVerdict, relOf, hm]
    | cons c cs =>
      have : g.complete.matchB σ [] = false := by
        simpa [rootExempt, hne.1, hc] using hroot0
      simp [relOf, this]
  · have hy := (globVerdict_yield_iff σ g hs root pre e.names hpiv hne hf).1
    rw [hy, globVerdict_of_faithfulP σ g root pre e.names hpiv hf]

/-! ### the bounds handed to walkdir select the depths the configuration admits -/

theorem within_iff_pivotAdmits (r : Nat × Option Nat) (d : Nat) :
    Walk.within r.1 r.2 d = true ↔ DepthBehavior.pivotAdmits r d := by
  obtain ⟨mn, mx⟩ := r
  cases mx with
  | none => simp [Walk.within, over, DepthBehavior.pivotAdmits]
  | some u => simp [Walk.within, over, DepthBehavior.pivotAdmits]

/-- the entries a consumer of the walk receives (the filtrate), in order -/
def Pipeline.filtrateEntries (π : Pipeline) (items : List Item) : List Entry :=
  (okEntries items).filter (fun e => Decidable.decide ((π.decide e).1 = .filtrate))


/-- they are the entries among the items the walk yields to its consumer (`Pipeline.yielded`,
    which is what the driver prints: `showItem_isSome`) -/
theorem okEntries_yielded (π : Pipeline) (mn : Nat) (mx : Option Nat) (rv : RootView) :
    okEntries (π.yielded mn mx rv) = π.filtrateEntries (π.items mn mx rv) := by
  unfold Pipeline.yielded Pipeline.filtrateEntries
  induction π.items mn mx rv with
  | nil => rfl
  | cons x xs ih =>
    cases x with
    | err q a =>
      have : π.keeps (.err q a) = true := rfl
      simp only [List.filter_cons, this, if_true, okEntries_err, ih]
    | ok e =>
      by_cases hf : (π.decide e).1 = .filtrate
      · have : π.keeps (.ok e) = true := by simp [Pipeline.keeps, hf]
        simp only [List.filter_cons, this, if_true, okEntries_ok, ih, hf, decide_true]
      · have : π.keeps (.ok e) = false := by simp [Pipeline.keeps, hf]
        simp only [List.filter_cons, this, okEntries_ok, ih, hf, decide_false, Bool.false_eq_true,
          if_false]

theorem within_atPivot (b : DepthBehavior) (hwf : b.wf) (pivot : Nat)
    (hreach : ∀ u, b.upper = some u → pivot ≤ u) (d : Nat) :
    Walk.within (b.atPivot pivot).1 (b.atPivot pivot).2 d = decide (b.admits (d + pivot)) := by
  rw [Bool.eq_iff_iff, decide_eq_true_eq, within_iff_pivotAdmits]
  exact DepthBehavior.atPivot_admits b hwf pivot d hreach

theorem filter_swap {α} (p q : α → Bool) (l : List α) :
    (l.filter p).filter q = (l.filter q).filter p := by
  rw [List.filter_filter, List.filter_filter]
  exact List.filter_congr (fun a _ => Bool.and_comm _ _)

/-- **`prune_less_same_matches` for the glob closure**: any verdict `w` that discards at most
    where the closure does (`w ≤ cancels`: it prunes less, the walk reads more) yields the same
    matching entries as no pruning at all ... -/
theorem glob_prune_less_same_matches_never (σ : Sem) (g : GlobProgram) (hs : ProgramsSound σ g)
    (root : Str) (pre : List Str) (hpiv : g.pivot = pre.length) (w : Entry → Bool)
    (hle : ∀ e, w e = true → (globPipeline σ root g).cancels e = true) (rv : RootView)
    (hf0 : entryFaithfulP root pre [] = true)
    (hfaith : allPathsLB (entryFaithfulP root pre) [] (toWTList rv.children) = true) :
    (okEntries (walkItems 0 none w rv)).filter
        (fun e => g.complete.matchB σ (relOf (pre ++ e.names))) =
      (okEntries (walkItems 0 none never rv)).filter
        (fun e => g.complete.matchB σ (relOf (pre ++ e.names))) :=
  prune_less_same_matches (entryFaithfulP root pre) _ w
    (fun p hp hw q _ hq => glob_prunes_only_nonmatching σ g hs root pre hpiv p hp (hle _ hw) q hq)
    rv hf0 hfaith

/-- ... and hence as the closure itself: walking more never adds a match, pruning never loses one -/
theorem glob_prune_less_same_matches (σ : Sem) (g : GlobProgram) (hs : ProgramsSound σ g)
    (root : Str) (pre : List Str) (hpiv : g.pivot = pre.length) (w : Entry → Bool)
    (hle : ∀ e, w e = true → (globPipeline σ root g).cancels e = true) (rv : RootView)
    (hf0 : entryFaithfulP root pre [] = true)
    (hfaith : allPathsLB (entryFaithfulP root pre) [] (toWTList rv.children) = true) :
    (okEntries (walkItems 0 none w rv)).filter
        (fun e => g.complete.matchB σ (relOf (pre ++ e.names))) =
      (okEntries (walkItems 0 none (globPipeline σ root g).cancels rv)).filter
        (fun e => g.complete.matchB σ (relOf (pre ++ e.names))) := by
  rw [glob_prune_less_same_matches_never σ g hs root pre hpiv w hle rv hf0 hfaith,
    glob_prune_less_same_matches_never σ g hs root pre hpiv _ (fun _ h => h) rv hf0 hfaith]

theorem silenced_le (mn : Nat) (v : Entry → Bool) (e : Entry) (h : silenced mn v e = true) :
    v e = true := by
  simp only [silenced, Bool.and_eq_true] at h
  exact h.2

/-- the instance the bounded walk needs: the closure silenced on the directories that `min_depth`
    hides (so that they are read although the closure would have discarded them) -/
theorem glob_silenced_same_matches (σ : Sem) (g : GlobProgram) (hs : ProgramsSound σ g)
    (root : Str) (pre : List Str) (hpiv : g.pivot = pre.length) (mn : Nat) (rv : RootView)
    (hf0 : entryFaithfulP root pre [] = true)
    (hfaith : allPathsLB (entryFaithfulP root pre) [] (toWTList rv.children) = true) :
    (okEntries (walkItems 0 none (silenced mn (globPipeline σ root g).cancels) rv)).filter
        (fun e => g.complete.matchB σ (relOf (pre ++ e.names))) =
      (okEntries (walkItems 0 none never rv)).filter
        (fun e => g.complete.matchB σ (relOf (pre ++ e.names))) :=
  glob_prune_less_same_matches_never σ g hs root pre hpiv _ (silenced_le mn _) rv hf0 hfaith

/-- **C15 / C02 in terms of the bounds handed to walkdir** (any `min_depth`, any `max_depth`,
    ordered or not): the entries handed to the consumer are the entries of the whole tree whose
    relative path the complete program matches and whose walkdir depth lies within the bounds -/
theorem glob_walk_bounds_exact (σ : Sem) (g : GlobProgram) (hs : ProgramsSound σ g)
    (pre : List Str) (hpiv : g.pivot = pre.length) (hroot0 : rootExempt σ g pre = true)
    (mn : Nat) (mx : Option Nat) (root : Str) (rv : RootView)
    (hf0 : entryFaithfulP root pre [] = true)
    (hfaith : allPathsLB (entryFaithfulP root pre) [] (toWTList rv.children) = true) :
    let π := globPipeline σ root g
    π.filtrateEntries (π.items mn mx rv) =
      (okEntries (walkItems 0 none never rv)).filter (fun e =>
        g.complete.matchB σ (π.relativeFor e .filtrate).2 && Walk.within mn mx e.depth) := by
  intro π
  unfold Pipeline.filtrateEntries Pipeline.items
  rw [okEntries_bounded, filter_swap]
  -- on the entries of the tree, "filtrate" is "the complete program matches"
  have hFK : (okEntries (walkItems 0 none (silenced mn π.cancels) rv)).filter
        (fun e => Decidable.decide ((π.decide e).1 = .filtrate)) =
      (okEntries (walkItems 0 none (silenced mn π.cancels) rv)).filter
        (fun e => g.complete.matchB σ (relOf (pre ++ e.names))) := by
    apply List.filter_congr
    intro e he
    have hf := walk_ok_good (entryFaithfulP root pre) 0 none _ rv hf0 hfaith e he
    rw [Bool.eq_iff_iff, decide_eq_true_eq]
    exact glob_filtrate_iff σ g hs root pre hpiv hroot0 e hf
  rw [hFK, glob_silenced_same_matches σ g hs root pre hpiv _ rv hf0 hfaith, List.filter_filter]
  apply List.filter_congr
  intro e he
  have hf := walk_ok_good (entryFaithfulP root pre) 0 none _ rv hf0 hfaith e he
  rw [globPipeline_relative_faithful σ root g pre hpiv e hf, Bool.and_comm]

/-- **C15 / C02 for a glob walk with depth bounds** (no further combinators).

Hypotheses (all on the fragment, none on the walk itself):
* `hs`: the programs are sound (`ProgramsSound`: from `programsSound_compiled` for what the crate
  compiles for `c₁/…/cₖ/c[/**…]` inside `F01`, see `glob_walk_bounded_exact_compiled`);
* `pre`, `hpiv`: the names of the invariant prefix, as many as the pivot;
* `hroot0` (`rootExempt`, decidable): an invariant prefix, or no component program, or the
  complete program does not match the empty path — otherwise the root entry is a counterexample
  (`root_exempt_needed`);
* `hwf`, `hreach`: the depth behaviour is representable (non-zero minimum) and its maximum reaches
  the pivot (the hypothesis of `atPivot_admits`) — otherwise the root entry is a counterexample
  again (`reach_needed`, `atPivot_short`);
* `hf0`, `hfaith` (decidable): the path arithmetic of `split_at_depth` spells the names, for the
  root of the walk and every path of the tree (`entryFaithfulP`).

Conclusion: the entries handed to the consumer by the walk with the bounds `b.atPivot pivot` are
exactly — same entries, same order, same file types — the entries of the *whole* tree (the
unbounded walk that never discards) whose relative path (the second of `root_relative_paths`) the
complete program matches AND whose depth from the root segment (walkdir depth + pivot,
`GlobEntry::depth`) the behaviour admits.

Full strength would drop `hs` (any glob), `hroot0` and `hreach`; `hroot0` and `hreach` cannot be
dropped (`root_exempt_needed`, `reach_needed`), `hs` is what C02 is proved for. -/
theorem glob_walk_bounded_exact_partial (σ : Sem) (g : GlobProgram) (hs : ProgramsSound σ g)
    (pre : List Str) (hpiv : g.pivot = pre.length) (hroot0 : rootExempt σ g pre = true)
    (b : DepthBehavior) (hwf : b.wf) (hreach : ∀ u, b.upper = some u → g.pivot ≤ u)
    (root : Str) (rv : RootView)
    (hf0 : entryFaithfulP root pre [] = true)
    (hfaith : allPathsLB (entryFaithfulP root pre) [] (toWTList rv.children) = true) :
    let π := globPipeline σ root g
    π.filtrateEntries (π.items (b.atPivot π.pivot).1 (b.atPivot π.pivot).2 rv) =
      (okEntries (walkItems 0 none never rv)).filter (fun e =>
        g.complete.matchB σ (π.relativeFor e .filtrate).2 &&
          decide (b.admits (e.depth + π.pivot))) := by
  intro π
  have hpp : π.pivot = g.pivot := rfl
  rw [hpp, glob_walk_bounds_exact σ g hs pre hpiv hroot0 _ _ root rv hf0 hfaith]
  apply List.filter_congr
  intro e _
  rw [within_atPivot b hwf g.pivot hreach]

/-- the same with the relative path spelled from the names (prefix, then what walkdir reports) -/
theorem glob_walk_bounded_exact_names (σ : Sem) (g : GlobProgram) (hs : ProgramsSound σ g)
    (pre : List Str) (hpiv : g.pivot = pre.length) (hroot0 : rootExempt σ g pre = true)
    (b : DepthBehavior) (hwf : b.wf) (hreach : ∀ u, b.upper = some u → g.pivot ≤ u)
    (root : Str) (rv : RootView)
    (hf0 : entryFaithfulP root pre [] = true)
    (hfaith : allPathsLB (entryFaithfulP root pre) [] (toWTList rv.children) = true) :
    let π := globPipeline σ root g
    π.filtrateEntries (π.items (b.atPivot π.pivot).1 (b.atPivot π.pivot).2 rv) =
      (okEntries (walkItems 0 none never rv)).filter (fun e =>
        g.complete.matchB σ (relOf (pre ++ e.names)) &&
          decide (b.admits ((pre ++ e.names).length))) := by
  intro π
  rw [glob_walk_bounded_exact_partial σ g hs pre hpiv hroot0 b hwf hreach root rv hf0 hfaith]
  apply List.filter_congr
  intro e he
  have hf := walk_ok_good (entryFaithfulP root pre) 0 none _ rv hf0 hfaith e he
  have hpp : π.pivot = g.pivot := rfl
  have hd : e.depth + g.pivot = (pre ++ e.names).length := by
    simp only [Entry.depth, List.length_append, hpiv]; omega
  rw [globPipeline_relative_faithful σ root g pre hpiv e hf, hpp, hd]

/-- **C15 / C02 for what the crate compiles**: the glob `t = c₁/…/cₖ/c[/**…]` (`k ≥ 0`,
    boundary-free components inside the fragment `F01`), walked with the depth behaviour `b` from
    the root `base/prefix`, `pre` being the names of the invariant prefix: the consumer receives
    exactly the entries of the whole tree whose relative path is in the documented language of
    `t` and whose depth from the root segment `b` admits -/
theorem glob_walk_bounded_exact_compiled (σ : Sem) (hσ : SepIsolated σ) (hdot : σ.dotall = true)
    (sp : Span) (comps : List (List Tok × Span)) (cl tail : List Tok)
    (hcomps : ∀ c ∈ comps, compOk c.1 = true) (hcl : compOk cl = true) (ht : TailOk tail)
    (hF : F01 (.cat sp (WalkTree.joinSep comps (cl ++ tail))) = true)
    (pre : List Str)
    (hroot0 : rootExempt σ
      (compiledProgram (.cat sp (WalkTree.joinSep comps (cl ++ tail))) pre.length) pre = true)
    (b : DepthBehavior) (hwf : b.wf) (hreach : ∀ u, b.upper = some u → pre.length ≤ u)
    (root : Str) (rv : RootView)
    (hf0 : entryFaithfulP root pre [] = true)
    (hfaith : allPathsLB (entryFaithfulP root pre) [] (toWTList rv.children) = true) :
    let t : Tok := .cat sp (WalkTree.joinSep comps (cl ++ tail))
    let π := globPipeline σ root (compiledProgram t pre.length)
    (∀ w, (encodeTop t).matchB σ w = true ↔ Spec.Matches σ t w) ∧
    π.filtrateEntries (π.items (b.atPivot pre.length).1 (b.atPivot pre.length).2 rv) =
      (okEntries (walkItems 0 none never rv)).filter (fun e =>
        (encodeTop t).matchB σ (π.relativeFor e .filtrate).2 &&
          decide (b.admits (e.depth + pre.length))) := by
  intro t π
  refine ⟨fun w => compiled_complete_iff σ hdot t hF 0 w, ?_⟩
  exact glob_walk_bounded_exact_partial σ (compiledProgram t pre.length)
    (programsSound_compiled σ hσ hdot sp comps cl tail hcomps hcl ht hF pre.length) pre rfl hroot0
    b hwf hreach root rv hf0 hfaith

/-! ### the theorem is not vacuous, and its provisos are needed -/

def bComps : List (List Tok × Span) :=
  [([.lit ⟨0, 1⟩ ['a'] false], ⟨1, 1⟩), ([.lit ⟨2, 1⟩ ['x'] false], ⟨3, 1⟩)]
def bLast : List Tok := [.lit ⟨4, 1⟩ ['b'] false, .zom ⟨5, 1⟩ false]
/-- what `a/x/b*/**` parses to; its anchor for the base `r` is the root `r/a/` with pivot 1 -/
def bGlob : Tok := .cat ⟨0, 9⟩ (WalkTree.joinSep bComps (bLast ++ [.tree ⟨6, 3⟩ true]))

/-- below `r/a/`: `x/{bb, c, bd/{q -> …}}`, `y/{bb}`, `by`, an unreadable directory `z`, a broken
    link `w` -/
def bTree : RootView :=
  .dir [.dir "x".toList [.leaf "bb".toList .f, .leaf "c".toList .f, .dir "bd".toList [.leaf "q".toList .l]],
    .dir "y".toList [.leaf "bb".toList .f], .leaf "by".toList .f, .dir "z".toList [.errHere],
    .errChild "w".toList false]

/-- `a/x/b*/**` from `r/a/` with depths 3 to 3 from the root segment `r` (walkdir: `min_depth = 2`,
    `max_depth = 2`): the directory `y`, which the closure would discard as a tree, lies below
    `min_depth`, is hidden from the closure and read; `a/y/bb` does not match; the consumer
    receives `a/x/bb` and `a/x/bd`, not `a/x/bd/q` (depth 4) -/
example :
    let π := globPipeline exSem "r/a/".toList (compiledProgram bGlob 1)
    let b := DepthBehavior.minMax 3 0
    b.atPivot 1 = (2, some 2) ∧
    Item.ok ⟨["y".toList, "bb".toList], .f⟩ ∈ π.items (b.atPivot 1).1 (b.atPivot 1).2 bTree ∧
    π.cancels ⟨["y".toList], .d⟩ = true ∧
    π.filtrateEntries (π.items (b.atPivot 1).1 (b.atPivot 1).2 bTree) =
      [⟨["x".toList, "bb".toList], .f⟩, ⟨["x".toList, "bd".toList], .d⟩] := by
  intro π b
  refine ⟨by decide, by decide, by decide, ?_⟩
  have h := (glob_walk_bounded_exact_compiled exSem exSem_sepIsolated rfl ⟨0, 9⟩ bComps bLast
    [.tree ⟨6, 3⟩ true] (by decide) (by decide) (Or.inr ⟨_, _, _, rfl⟩) (by decide)
    ["a".toList] (by decide) b (by simp [b, DepthBehavior.wf])
    (by intro u hu; simp [b, DepthBehavior.upper] at hu; subst hu; decide) "r/a/".toList bTree (by decide)
    (by decide)).2
  exact h.trans (by decide)

/-- **`hroot0` is needed**: `*` walked from `r` (no prefix, sound programs): the complete program
    matches the empty relative path of the root entry, the configuration admits depth 0, but the
    root is node residue (`Right`): the walk of the empty directory yields nothing -/
theorem root_exempt_needed :
    let t : Tok := .cat ⟨0, 1⟩ (WalkTree.joinSep [] ([.zom ⟨0, 1⟩ false] ++ []))
    let π := globPipeline exSem "r".toList (compiledProgram t 0)
    let b := DepthBehavior.unbounded
    ProgramsSound exSem (compiledProgram t 0) ∧ rootExempt exSem (compiledProgram t 0) [] = false ∧
    entryFaithfulP "r".toList [] [] = true ∧
    π.filtrateEntries (π.items (b.atPivot π.pivot).1 (b.atPivot π.pivot).2 (.dir [])) = [] ∧
    (okEntries (walkItems 0 none never (.dir []))).filter (fun e =>
        (compiledProgram t 0).complete.matchB exSem (π.relativeFor e .filtrate).2 &&
          decide (b.admits (e.depth + π.pivot))) = [⟨[], .d⟩] := by
  intro t π b
  refine ⟨?_, by decide, by decide, by decide, by decide⟩
  exact programsSound_compiled exSem exSem_sepIsolated rfl ⟨0, 1⟩ [] [.zom ⟨0, 1⟩ false] []
    (by decide) (by decide) (Or.inl rfl) (by decide) 0

/-- **`hreach` is needed**: `a/**` walked from `r/a` (pivot 1) with `max_depth = 0`: walkdir is
    handed a maximum of `0 - 1 = 0` (saturating) and yields the root `r/a` of the walk, which the
    glob matches, at depth 1 from the root segment — a depth the configuration does not admit
    (`atPivot_short`) -/
theorem reach_needed :
    let t : Tok := .cat ⟨0, 4⟩ (WalkTree.joinSep [] ([.lit ⟨0, 1⟩ ['a'] false] ++ [.tree ⟨1, 3⟩ true]))
    let π := globPipeline exSem "r/a".toList (compiledProgram t 1)
    let b := DepthBehavior.max 0
    ProgramsSound exSem (compiledProgram t 1) ∧
    rootExempt exSem (compiledProgram t 1) ["a".toList] = true ∧
    entryFaithfulP "r/a".toList ["a".toList] [] = true ∧
    π.filtrateEntries (π.items (b.atPivot π.pivot).1 (b.atPivot π.pivot).2 (.dir [])) = [⟨[], .d⟩] ∧
    (okEntries (walkItems 0 none never (.dir []))).filter (fun e =>
        (compiledProgram t 1).complete.matchB exSem (π.relativeFor e .filtrate).2 &&
          decide (b.admits (e.depth + π.pivot))) = [] := by
  intro t π b
  refine ⟨?_, by decide, by decide, by decide, by decide⟩
  exact programsSound_compiled exSem exSem_sepIsolated rfl ⟨0, 4⟩ [] [.lit ⟨0, 1⟩ ['a'] false]
    [.tree ⟨1, 3⟩ true] (by decide) (by decide) (Or.inr ⟨_, _, _, rfl⟩) (by decide) 1


/-! ## 2. file residue does not steer the walk (C13, second sentence)

The machine `run` consults the stack of combinators through `π.cancels` only, and an entry cancels
the walk exactly when the stack makes it *tree* residue (`decide_cancels_iff_tree`).  So whatever
is discarded as a *file* (node residue) — by the glob closure (`Right`, or the complete program
does not match), by a `not` (non-exhaustive match) or by `filter_entry` (`EntryResidue::File`) —
leaves the traversal as it is: the same items before and after it, nothing cancelled. -/

/-- two separation states cut the walk alike -/
def sameCutS (s s' : Sepn) : Prop := s = .tree ↔ s' = .tree
/-- two verdicts cut the walk alike: they differ at most in keep-vs-file -/
def sameCutV (v v' : Verdict) : Prop := v = .tree ↔ v' = .tree

/-- one combinator: alike states and alike verdicts give alike states and the same cancellation -/
theorem applyVerdict_sameCut {s s' : Sepn} {v v' : Verdict} (hs : sameCutS s s')
    (hv : sameCutV v v') :
    sameCutS (applyVerdict s v).1 (applyVerdict s' v').1 ∧
      (applyVerdict s v).2 = (applyVerdict s' v').2 := by
  cases s <;> cases s' <;> cases v <;> cases v' <;>
    simp_all [sameCutS, sameCutV, applyVerdict]

/-- two stacks of combinators, position by position, give alike verdicts on alike states -/
def stacksAlike : List (Sepn → Verdict) → List (Sepn → Verdict) → Prop
  | [], [] => True
  | f :: fs, f' :: fs' => (∀ t t', sameCutS t t' → sameCutV (f t) (f' t')) ∧ stacksAlike fs fs'
  | _, _ => False

/-- **stacks that differ only in keep-vs-file**: if the functions of two stacks, position by
    position, give alike verdicts on alike states, the stacks leave an entry in alike states and
    cancel the walk equally often -/
theorem feedDep_sameCut : ∀ (fs fs' : List (Sepn → Verdict)), stacksAlike fs fs' →
    ∀ s s', sameCutS s s' →
      sameCutS (feedDep fs s).1 (feedDep fs' s').1 ∧ (feedDep fs s).2 = (feedDep fs' s').2
  | [], [], _, s, s', hs => ⟨hs, rfl⟩
  | [], _ :: _, h, _, _, _ => by simp [stacksAlike] at h
  | _ :: _, [], h, _, _, _ => by simp [stacksAlike] at h
  | f :: fs, f' :: fs', h, s, s', hs => by
    simp only [stacksAlike] at h
    have ha := applyVerdict_sameCut hs (h.1 s s' hs)
    have := feedDep_sameCut fs fs' h.2 _ _ ha.1
    simp only [feedDep]
    exact ⟨this.1, by rw [this.2, ha.2]⟩

/-- ... hence two walks whose stacks are alike on an entry decide it alike -/
theorem decide_sameCut (π π' : Pipeline) (e : Entry) (h : stacksAlike (π.stack e) (π'.stack e)) :
    ((π.decide e).1 = .tree ↔ (π'.decide e).1 = .tree) ∧ (π.decide e).2 = (π'.decide e).2 :=
  feedDep_sameCut _ _ h .filtrate .filtrate Iff.rfl

/-- the number of cancellations of an entry is 1 if it becomes tree residue and 0 otherwise -/
theorem decide_count (π : Pipeline) (e : Entry) :
    (π.decide e).2 = if (π.decide e).1 = .tree then 1 else 0 := by
  have h1 := decide_cancels_le_one π e
  have h2 := decide_cancels_iff_tree π e
  unfold Pipeline.cancels at h2
  by_cases ht : (π.decide e).1 = .tree
  · have := h2.mpr ht
    simp only [bne_iff_ne, ne_eq] at this
    simp only [ht, if_true]; omega
  · have : ¬ ((π.decide e).2 != 0) = true := fun h => ht (h2.mp h)
    simp only [bne_iff_ne, ne_eq, Decidable.not_not] at this
    simp only [ht, if_false, this]

/-- an entry that ends up as file (node) residue, or as filtrate, cancels nothing -/
theorem node_residue_cancels_nothing (π : Pipeline) (e : Entry) (h : (π.decide e).1 ≠ .tree) :
    π.cancels e = false ∧ (π.decide e).2 = 0 := by
  refine ⟨?_, by rw [decide_count]; simp [h]⟩
  cases hc : π.cancels e with
  | false => rfl
  | true => exact absurd ((decide_cancels_iff_tree π e).mp hc) h

/-- **`file_discard_harmless`**: two walks (globs, stacks of combinators — anything) whose stacks
    make the same entries tree residue, i.e. that differ only in keep-vs-file, cancel the walk on
    the same entries, equally often, and the machine yields the *same items* — all of them, kept or
    not, errors included, in the same order — with any depth bounds over any tree -/
theorem file_discard_harmless (π π' : Pipeline)
    (h : ∀ e, (π.decide e).1 = .tree ↔ (π'.decide e).1 = .tree)
    (mn : Nat) (mx : Option Nat) (rv : RootView) :
    π.cancels = π'.cancels ∧ (∀ e, (π.decide e).2 = (π'.decide e).2) ∧
      π.items mn mx rv = π'.items mn mx rv := by
  have hc : π.cancels = π'.cancels := by
    funext e
    rw [Bool.eq_iff_iff, decide_cancels_iff_tree, decide_cancels_iff_tree]
    exact h e
  refine ⟨hc, ?_, by unfold Pipeline.items; rw [hc]⟩
  intro e
  rw [decide_count, decide_count]
  by_cases ht : (π.decide e).1 = .tree
  · simp [ht, (h e).mp ht]
  · have : ¬ (π'.decide e).1 = .tree := fun h' => ht ((h e).mpr h')
    simp [ht, this]

/-- an item that is not an entry of `D` -/
def outside (D : Entry → Bool) : Item → Bool
  | .ok e => !D e
  | .err .. => true

/-- **`file_discard_harmless`, restricted to the other entries**: two walks that agree on every
    entry outside `D` and on `D` differ only in keep-vs-file: the traversal is the same, nothing is
    cancelled on account of the difference, and the consumer receives the same items apart from
    the entries of `D` -/
theorem file_discard_harmless_on (π π' : Pipeline) (D : Entry → Bool)
    (hsame : ∀ e, D e = false → π.decide e = π'.decide e)
    (hcut : ∀ e, D e = true → ((π.decide e).1 = .tree ↔ (π'.decide e).1 = .tree))
    (mn : Nat) (mx : Option Nat) (rv : RootView) :
    π.items mn mx rv = π'.items mn mx rv ∧
    (∀ e, (π.decide e).2 = (π'.decide e).2) ∧
    (π.yielded mn mx rv).filter (outside D) = (π'.yielded mn mx rv).filter (outside D) := by
  have h : ∀ e, (π.decide e).1 = .tree ↔ (π'.decide e).1 = .tree := by
    intro e
    cases hd : D e with
    | false => rw [hsame e hd]
    | true => exact hcut e hd
  obtain ⟨_, h2, h3⟩ := file_discard_harmless π π' h mn mx rv
  refine ⟨h3, h2, ?_⟩
  unfold Pipeline.yielded
  rw [h3, List.filter_filter, List.filter_filter]
  apply List.filter_congr
  intro it _
  cases it with
  | err q a => rfl
  | ok e =>
    cases hd : D e with
    | true => simp [outside, hd]
    | false => simp only [Pipeline.keeps, hsame e hd]

/-! ### instances: a combinator that only ever discards files -/

/-- `filter_entry` with a function that never answers `EntryResidue::Tree` -/
def fileOnly (rules : List (Str × Bool)) : Bool := rules.all (fun r => !r.2)

theorem ruleVerdict_fileOnly : ∀ (rules : List (Str × Bool)), fileOnly rules = true →
    ∀ name, ruleVerdict name rules ≠ .tree
  | [], _, _ => by simp [ruleVerdict]
  | (n, t) :: rest, h, name => by
    simp only [fileOnly, List.all_cons, Bool.and_eq_true, Bool.not_eq_true'] at h
    have ih := ruleVerdict_fileOnly rest (by simpa [fileOnly] using h.2) name
    simp only [ruleVerdict]
    split
    · simp [h.1]
    · exact ih

theorem feedDep_append : ∀ (fs gs : List (Sepn → Verdict)) (s : Sepn),
    feedDep (fs ++ gs) s =
      ((feedDep gs (feedDep fs s).1).1, (feedDep gs (feedDep fs s).1).2 + (feedDep fs s).2)
  | [], gs, s => by simp [feedDep]
  | f :: fs, gs, s => by
    simp only [List.cons_append, feedDep, feedDep_append fs gs, Nat.add_assoc]

theorem verdict_append_layer (π : Pipeline) (l l' : Layer) (e : Entry) :
    (fun s => l'.verdict (π.withLayers (π.layers ++ [l])) e s) = (fun s => l'.verdict π e s) := by
  funext s; cases l' <;> rfl

theorem stack_append_layer (π : Pipeline) (l : Layer) (e : Entry) :
    (π.withLayers (π.layers ++ [l])).stack e = π.stack e ++ [fun s => l.verdict π e s] := by
  have hm : (π.layers ++ [l]).map (fun l' s => l'.verdict (π.withLayers (π.layers ++ [l])) e s) =
      π.layers.map (fun l' s => l'.verdict π e s) ++ [fun s => l.verdict π e s] := by
    rw [List.map_append, List.map_cons, List.map_nil, verdict_append_layer π l l e,
      List.map_congr_left (fun l' _ => verdict_append_layer π l l' e)]
  unfold Pipeline.stack
  rw [List.append_assoc]
  exact congrArg _ hm

/-- the decision of the walk with one more, outermost, layer -/
theorem decide_append_layer (π : Pipeline) (l : Layer) (e : Entry) :
    (π.withLayers (π.layers ++ [l])).decide e =
      ((applyVerdict (π.decide e).1 (l.verdict π e (π.decide e).1)).1,
        (if (applyVerdict (π.decide e).1 (l.verdict π e (π.decide e).1)).2 then 1 else 0) +
          (π.decide e).2) := by
  unfold Pipeline.decide
  rw [stack_append_layer, feedDep_append]
  simp [feedDep]

/-- **an outermost layer that only discards files is harmless**: `filter_entry` with a function
    that never answers `Tree`, put on top of any walk: the machine yields the same items, and the
    entries the new layer keeps are decided as before (so the consumer receives the same items
    apart from those the layer discards) -/
theorem append_file_layer_harmless (π : Pipeline) (rules : List (Str × Bool))
    (h : fileOnly rules = true) (mn : Nat) (mx : Option Nat) (rv : RootView) :
    let π' := π.withLayers (π.layers ++ [.filter rules])
    let D : Entry → Bool := fun e => ruleVerdict (fileName (π.path e)) rules != .keep
    π'.items mn mx rv = π.items mn mx rv ∧
    (∀ e, (π'.decide e).2 = (π.decide e).2) ∧
    (π'.yielded mn mx rv).filter (outside D) = (π.yielded mn mx rv).filter (outside D) := by
  intro π' D
  have hne := ruleVerdict_fileOnly rules h
  refine file_discard_harmless_on π' π D ?_ ?_ mn mx rv
  · intro e hd
    have hk : ruleVerdict (fileName (π.path e)) rules = .keep := by
      simpa [D] using hd
    show (π.withLayers (π.layers ++ [.filter rules])).decide e = _
    rw [decide_append_layer]
    simp only [Layer.verdict, hk, applyVerdict]
    simp
  · intro e _
    show ((π.withLayers (π.layers ++ [.filter rules])).decide e).1 = .tree ↔ _
    rw [decide_append_layer]
    simp only [Layer.verdict]
    have := hne (fileName (π.path e))
    cases hv : ruleVerdict (fileName (π.path e)) rules <;>
      cases hs : (π.decide e).1 <;> simp_all [applyVerdict]


/-- **a layer that only discards files, anywhere in the stack, is harmless — under the proviso**
    that no layer's verdict depends on the state an entry arrives in (`Pipeline.StateFree`: no
    pivot, or `filter_entry` layers only).  Without the proviso it is false:
    `inner_file_layer_not_harmless`. -/
theorem insert_file_layer_harmless (π : Pipeline) (l₁ l₂ : List Layer) (rules : List (Str × Bool))
    (h : fileOnly rules = true) (hsf : (π.withLayers (l₁ ++ l₂)).StateFree)
    (mn : Nat) (mx : Option Nat) (rv : RootView) :
    (π.withLayers (l₁ ++ .filter rules :: l₂)).items mn mx rv =
      (π.withLayers (l₁ ++ l₂)).items mn mx rv := by
  have h1 := (append_file_layer_harmless (π.withLayers (l₁ ++ l₂)) rules h mn mx rv).1
  rw [← h1]
  have hsf' : ((π.withLayers (l₁ ++ l₂)).withLayers
      ((π.withLayers (l₁ ++ l₂)).layers ++ [.filter rules])).StateFree := by
    intro l hl e s s'
    have hl' : l ∈ (l₁ ++ l₂) ++ [Layer.filter rules] := hl
    rw [List.mem_append] at hl'
    rcases hl' with hl' | hl'
    · have := hsf l hl' e s s'
      cases l <;> exact this
    · simp only [List.mem_singleton] at hl'
      subst hl'; rfl
  have hp : ((l₁ ++ l₂) ++ [Layer.filter rules]).Perm (l₁ ++ .filter rules :: l₂) := by
    rw [List.append_assoc]
    exact List.Perm.append_left _ (List.perm_append_comm (l₁ := l₂) (l₂ := [Layer.filter rules]))
  exact items_perm _ hsf' _ hp mn mx rv

/-- **K-NOT-RESIDUE-PIVOT once more: an *inner* layer that only discards files is NOT harmless**
    in a glob walk with an invariant prefix followed by a `not`: `a/b/**` from `""` (root `a/b`,
    pivot 2) over `a/b/{c/x.txt, y.txt}` with `not("c/**")`.  Without `filter_entry(c ↦ File)`
    beneath it, `not` sees the filtrate `a/b/c` (relative path `a/b/c`), keeps it, and `c/x.txt`
    is read; with it, `not` sees residue (relative path `c`), discards it as a tree, and the walk
    is cancelled: a File discard changed the items the machine yields after it. -/
theorem inner_file_layer_not_harmless :
    fileOnly [(['c'], false)] = true ∧
    (kπ.withLayers ([] ++ .filter [(['c'], false)] :: [.not (notProgram kNotTok)])).items 0 none kTree =
      [.ok ⟨[], .d⟩, .ok ⟨[['c']], .d⟩, .ok ⟨["y.txt".toList], .f⟩] ∧
    (kπ.withLayers ([] ++ [.not (notProgram kNotTok)])).items 0 none kTree =
      [.ok ⟨[], .d⟩, .ok ⟨[['c']], .d⟩, .ok ⟨[['c'], "x.txt".toList], .f⟩,
        .ok ⟨["y.txt".toList], .f⟩] := by
  decide

/-! ### instance: the File arm of the `GlobWalker` closure -/

theorem zipArms_sameCut (σ : Sem) (c c' : Verdict) (hc : c ≠ .tree) (hc' : c' ≠ .tree)
    (cs : List Str) (ps : List Re) : sameCutV (zipArms σ c cs ps) (zipArms σ c' cs ps) := by
  rw [zipArms_eq, zipArms_eq]
  unfold sameCutV
  split
  · simp
  · split <;> simp [hc, hc']

theorem stacksAlike_layers (π π' : Pipeline) (e : Entry) : ∀ (ls : List Layer),
    (∀ l ∈ ls, ∀ s s', l.verdict π e s = l.verdict π' e s') →
    stacksAlike (ls.map (fun l s => l.verdict π e s)) (ls.map (fun l s => l.verdict π' e s))
  | [], _ => trivial
  | l :: ls, h => by
    simp only [List.map_cons, stacksAlike]
    refine ⟨fun t t' _ => ?_, stacksAlike_layers π π' e ls
      (fun l' hl' => h l' (List.mem_cons_of_mem _ hl'))⟩
    rw [h l (List.mem_cons_self ..) t t']
    exact Iff.rfl

/-- **the complete program does not steer the walk**: it decides between keep and `filter_node`
    only (`Left`, or the loop not entered), so two globs with the same component programs and the
    same pivot — whatever their complete programs — drive the same traversal, under any stack of
    layers that satisfies the proviso `StateFree` (in particular none), with any depth bounds -/
theorem glob_file_arm_harmless (σ : Sem) (root : Str) (g g' : GlobProgram) (layers : List Layer)
    (hcomp : g'.components = g.components) (hpiv : g'.pivot = g.pivot)
    (hsf : (Pipeline.mk σ root (some g) layers).StateFree)
    (mn : Nat) (mx : Option Nat) (rv : RootView) :
    (Pipeline.mk σ root (some g) layers).items mn mx rv =
      (Pipeline.mk σ root (some g') layers).items mn mx rv := by
  refine (file_discard_harmless _ _ (fun e => (decide_sameCut _ _ e ?_).1) mn mx rv).2.2
  unfold Pipeline.stack
  simp only [List.singleton_append, stacksAlike]
  constructor
  · intro _ _ _
    simp only [globVerdict, hcomp, hpiv]
    apply zipArms_sameCut <;> (split <;> simp)
  · apply stacksAlike_layers
    intro l hl s s'
    have := hsf l hl e s s'
    cases l with
    | filter rules => rfl
    | not p =>
      simp only [Layer.verdict, Pipeline.relativeFor, Pipeline.pivot, Pipeline.path, hpiv] at this ⊢
      exact this


/-! ### the statements of part 2 are not vacuous -/

/-- `a/b/**` from `""` with `filter_entry(c ↦ Tree)`, and on top of it `filter_entry(y.txt ↦ File)`:
    the hypotheses of `append_file_layer_harmless` hold, the outer layer does discard something
    (`y.txt`), and the machine yields the same three items with and without it -/
example :
    let π := kπ.withLayers [.filter [(['c'], true)]]
    let π' := π.withLayers (π.layers ++ [.filter [("y.txt".toList, false)]])
    fileOnly [("y.txt".toList, false)] = true ∧
    (π.decide ⟨["y.txt".toList], .f⟩).1 = .filtrate ∧ (π'.decide ⟨["y.txt".toList], .f⟩).1 = .node ∧
    π'.items 0 none kTree = π.items 0 none kTree ∧
    π.items 0 none kTree = [.ok ⟨[], .d⟩, .ok ⟨[['c']], .d⟩, .ok ⟨["y.txt".toList], .f⟩] := by
  intro π π'
  exact ⟨by decide, by decide, by decide,
    (append_file_layer_harmless π [("y.txt".toList, false)] (by decide) 0 none kTree).1, by decide⟩

/-- `glob_file_arm_harmless`: `a/b/**` against a glob with the same component programs whose
    complete program matches nothing: every entry is node residue, and the traversal is the same -/
example :
    let g' : GlobProgram := ⟨.never, kGlob.components, 2⟩
    (Pipeline.mk drvSem ['a', '/', 'b'] (some kGlob) []).items 0 none kTree =
      (Pipeline.mk drvSem ['a', '/', 'b'] (some g') []).items 0 none kTree ∧
    ((Pipeline.mk drvSem ['a', '/', 'b'] (some g') []).decide ⟨[['c']], .d⟩).1 = .node ∧
    ((Pipeline.mk drvSem ['a', '/', 'b'] (some kGlob) []).decide ⟨[['c']], .d⟩).1 = .filtrate := by
  intro g'
  refine ⟨glob_file_arm_harmless drvSem _ kGlob g' [] rfl rfl ?_ 0 none kTree, by decide, by decide⟩
  intro l hl
  cases hl

/-! ## 3. the fields of a `GlobEntry` (C14 for glob walks)

`GlobEntry::root_relative_paths` is `split_at_depth(path, walkdir depth + pivot)`
(`Pipeline.relativeFor e .filtrate`), `GlobEntry::depth` is `walkdir depth + pivot`
(`e.depth + π.pivot`), and the entry is handed to the consumer iff it is still a filtrate after
the closure and every layer. -/

/-- a stack of combinators never brings an entry back -/
theorem feedDep_rank_le : ∀ (fs : List (Sepn → Verdict)) (s : Sepn), s.rank ≤ (feedDep fs s).1.rank
  | [], _ => Nat.le_refl _
  | f :: fs, s => by
    simp only [feedDep]
    exact Nat.le_trans (never_backwards s (f s)) (feedDep_rank_le fs _)

/-- an entry that is still a filtrate after the whole stack was kept by the innermost function -/
theorem feedDep_filtrate_head (f : Sepn → Verdict) (fs : List (Sepn → Verdict))
    (h : (feedDep (f :: fs) .filtrate).1 = .filtrate) : f .filtrate = .keep := by
  simp only [feedDep] at h
  have hle := feedDep_rank_le fs (applyVerdict .filtrate (f .filtrate)).1
  rw [h] at hle
  cases hv : f .filtrate with
  | keep => rfl
  | file => rw [hv] at hle; simp [applyVerdict, Sepn.rank] at hle
  | tree => rw [hv] at hle; simp [applyVerdict, Sepn.rank] at hle

/-- the closure keeps an entry only if the complete program matches the candidate path it
    computed — as coded, no hypothesis at all -/
theorem globVerdict_keep_matches (σ : Sem) (g : GlobProgram) (path : Str) (depth : Nat)
    (h : (globVerdict σ g path depth).1 = .keep) :
    g.complete.matchB σ (globVerdict σ g path depth).2 = true := by
  simp only [globVerdict, zipArms_eq] at h ⊢
  split at h
  · cases h
  · split at h
    · cases h
    · split at h
      · assumption
      · cases h

theorem map_bodySpans_good : ∀ (q : List Str) (first : Bool) (k : Nat), goodNames q = true →
    (bodySpans first (piecesFrom k q)).map (·.1) = q.map Comp.normal
  | [], _, _, _ => rfl
  | n :: q, first, k, h => by
    obtain ⟨hn, hq⟩ := goodNames_cons.mp h
    simp only [piecesFrom, bodySpans, pieceComp_good hn, List.map_cons,
      map_bodySpans_good q false _ hq]

/-- the components of a relative path spelled from good names are those names, all `Normal` -/
theorem components_relOf_good {q : List Str} (h : goodNames q = true) :
    components (relOf q) = q.map Comp.normal := by
  cases q with
  | nil => exact components_nil
  | cons n q =>
    simp only [components, compSpans, isAbsolute_relOf_good h, Bool.not_false, Bool.false_eq_true,
      if_false]
    rw [splitSep_relOf (by simp) (goodNames_pathOk h)]
    exact map_bodySpans_good _ _ _ h

/-- 1. and 3. hold for every entry a glob walk hands out, whatever the root, the names, the pivot,
    the programs and the layers -/
theorem glob_entry_roundtrip_and_match (π : Pipeline) (g : GlobProgram) (hg : π.glob = some g)
    (e : Entry) (hfil : (π.decide e).1 = .filtrate) :
    components (π.relativeFor e .filtrate).1 ++ components (π.relativeFor e .filtrate).2 =
        components (π.path e) ∧
    g.complete.matchB π.σ (π.relativeFor e .filtrate).2 = true := by
  refine ⟨relativeFor_roundtrip π e .filtrate, ?_⟩
  have hk : (globVerdict π.σ g (π.path e) e.depth).1 = .keep := by
    unfold Pipeline.decide Pipeline.stack at hfil
    rw [hg] at hfil
    exact feedDep_filtrate_head _ _ hfil
  have := globVerdict_keep_matches π.σ g (π.path e) e.depth hk
  have hrel : (π.relativeFor e .filtrate).2 = (globVerdict π.σ g (π.path e) e.depth).2 := by
    simp only [Pipeline.relativeFor, Pipeline.pivot, hg, if_true, globVerdict]
  rw [hrel]; exact this

/-- **`glob_entry_fields_partial` (C14 for glob walks)**: any glob walk, with any stack of layers
    and any programs; `e` an entry the consumer receives (a filtrate after the whole stack).  Then
    1. root segment ++ relative segment = path, as components;
    2. `GlobEntry::depth` (walkdir depth + pivot) is the number of components of the relative
       segment — PROVIDED the entry path has that many components (`hlen`, decidable per entry:
       it holds for a relative invariant prefix and names as walkdir reports them,
       `glob_entry_fields_faithful` / `glob_entry_fields_anchor`; it fails for every entry when the
       invariant prefix is rooted, K-ENTRY-ROOTED-DEPTH, `entry_rooted_off_by_one`);
    3. the complete program matches the relative segment.
    Full strength would be without `hlen`; only 2. needs it. -/
theorem glob_entry_fields_partial (π : Pipeline) (g : GlobProgram) (hg : π.glob = some g)
    (e : Entry) (hfil : (π.decide e).1 = .filtrate)
    (hlen : e.depth + π.pivot ≤ (components (π.path e)).length) :
    components (π.relativeFor e .filtrate).1 ++ components (π.relativeFor e .filtrate).2 =
        components (π.path e) ∧
    (components (π.relativeFor e .filtrate).2).length = e.depth + π.pivot ∧
    g.complete.matchB π.σ (π.relativeFor e .filtrate).2 = true := by
  obtain ⟨h1, h3⟩ := glob_entry_roundtrip_and_match π g hg e hfil
  refine ⟨h1, ?_, h3⟩
  have := relativeFor_length π e .filtrate (by simpa using hlen)
  simpa using this

/-- faithful path arithmetic gives `hlen`, and spells the relative segment -/
theorem faithful_fields (root : Str) (pre names : List Str)
    (hf : entryFaithfulP root pre names = true) :
    (splitAtDepth (joinAll root names) (names.length + pre.length)).2 = relOf (pre ++ names) ∧
    components (relOf (pre ++ names)) = (pre ++ names).map Comp.normal ∧
    names.length + pre.length ≤ (components (joinAll root names)).length := by
  simp only [entryFaithfulP, Bool.and_eq_true, beq_iff_eq] at hf
  have hc := components_relOf_good hf.1
  refine ⟨hf.2, hc, ?_⟩
  have hr := splitAtDepth_roundtrip (joinAll root names) (names.length + pre.length)
  rw [hf.2, hc] at hr
  rw [← hr]
  simp only [List.length_append, List.length_map]
  omega

/-- **C14 for the entries of a glob walk over a tree with faithful names** (any depth bounds, any
    programs, no further layers): every entry handed to the consumer has the three properties, and
    its relative segment is spelled by the names of the prefix followed by the names walkdir
    reports, all `Normal` components -/
theorem glob_entry_fields_faithful (σ : Sem) (g : GlobProgram)
    (pre : List Str) (hpiv : g.pivot = pre.length)
    (root : Str) (rv : RootView) (mn : Nat) (mx : Option Nat)
    (hf0 : entryFaithfulP root pre [] = true)
    (hfaith : allPathsLB (entryFaithfulP root pre) [] (toWTList rv.children) = true) :
    let π := globPipeline σ root g
    ∀ e ∈ π.filtrateEntries (π.items mn mx rv),
      components (π.relativeFor e .filtrate).1 ++ components (π.relativeFor e .filtrate).2 =
          components (π.path e) ∧
      (components (π.relativeFor e .filtrate).2).length = e.depth + π.pivot ∧
      g.complete.matchB σ (π.relativeFor e .filtrate).2 = true ∧
      (π.relativeFor e .filtrate).2 = relOf (pre ++ e.names) ∧
      components (π.relativeFor e .filtrate).2 = (pre ++ e.names).map Comp.normal := by
  intro π e he
  unfold Pipeline.filtrateEntries at he
  obtain ⟨hmem, hfil⟩ := List.mem_filter.mp he
  have hfil' : (π.decide e).1 = .filtrate := by simpa using hfil
  have hf := walk_ok_good (entryFaithfulP root pre) mn mx _ rv hf0 hfaith e hmem
  obtain ⟨h1, h2, h3⟩ := faithful_fields root pre e.names hf
  have hpp : π.pivot = pre.length := hpiv
  have hrel := globPipeline_relative_faithful σ root g pre hpiv e hf
  obtain ⟨r1, r2, r3⟩ := glob_entry_fields_partial π g rfl e hfil'
    (by rw [hpp]; exact h3)
  exact ⟨r1, r2, r3, hrel, by rw [hrel, h2]⟩


/-- **C14 for glob walks in terms of the root and the names**: the names are as walkdir reports
    them (`nameOk`: not empty, no separator, not `.` or `..`) and the pivot does not exceed the
    number of components of the root of the walk — which is so for every relative invariant prefix
    (`pivot_le_root_relative`) and for none that is rooted (`pivot_gt_root_rooted`) -/
theorem glob_entry_fields_names (π : Pipeline) (g : GlobProgram) (hg : π.glob = some g)
    (e : Entry) (hfil : (π.decide e).1 = .filtrate)
    (hok : ∀ n ∈ e.names, nameOk n = true) (hp : π.pivot ≤ (components π.root).length) :
    components (π.relativeFor e .filtrate).1 ++ components (π.relativeFor e .filtrate).2 =
        components (π.path e) ∧
    (components (π.relativeFor e .filtrate).2).length = e.depth + π.pivot ∧
    g.complete.matchB π.σ (π.relativeFor e .filtrate).2 = true := by
  refine glob_entry_fields_partial π g hg e hfil ?_
  simp only [Pipeline.path, components_joinAll _ hok, Entry.depth, List.length_append,
    List.length_map]
  omega

/-- what `Glob::anchor` computes for a relative invariant prefix (or none) satisfies `hp` -/
theorem pivot_le_root_relative (κ : Casing) (t : Tok) (base : Str)
    (hr : isAbsolute (invariantTextPrefix κ t).2 = false)
    (hc : Comp.cur ∉ components (invariantTextPrefix κ t).2) :
    (anchor κ t base).2 ≤ (components (anchor κ t base).1).length := by
  by_cases hne : (invariantTextPrefix κ t).2 = []
  · rw [anchor_empty κ t base hne]; exact Nat.zero_le _
  · rw [anchor_relative κ t base hne hr hc]
    simp only [components_join base hr hc, List.length_append]
    omega

/-- ... and what it computes for a rooted invariant prefix does not (K-ENTRY-ROOTED-DEPTH) -/
theorem pivot_gt_root_rooted (κ : Casing) (t : Tok) (base : Str)
    (ha : isAbsolute (invariantTextPrefix κ t).2 = true) :
    (anchor κ t base).2 = (components (anchor κ t base).1).length + 1 := by
  rw [anchor_absolute κ t base ha]

/-- **2. is false for every entry of a glob walk with a rooted invariant prefix** — whenever the
    pivot exceeds the number of components of the root of the walk: the relative segment is the
    whole path and has fewer components than `GlobEntry::depth` (one fewer for what `Glob::anchor`
    computes, `pivot_gt_root_rooted`); 1. and 3. hold all the same
    (`glob_entry_roundtrip_and_match`) -/
theorem glob_entry_depth_rooted (π : Pipeline) (e : Entry)
    (hp : (components π.root).length < π.pivot)
    (hok : ∀ n ∈ e.names, nameOk n = true) :
    components (π.relativeFor e .filtrate).2 = components (π.path e) ∧
    (components (π.relativeFor e .filtrate).2).length = (components π.root).length + e.depth ∧
    (components (π.relativeFor e .filtrate).2).length < e.depth + π.pivot := by
  have hc := components_joinAll π.root hok
  have hall := splitAtDepth_rel_all (π.path e) (d := e.depth + π.pivot) (by
    simp only [Pipeline.path, hc, Entry.depth, List.length_append, List.length_map]; omega)
  have hl : (components (π.relativeFor e .filtrate).2).length =
      (components π.root).length + e.depth := by
    simp only [Pipeline.relativeFor, if_true, hall]
    simp only [Pipeline.path, hc, Entry.depth, List.length_append, List.length_map]
  refine ⟨by simp only [Pipeline.relativeFor, if_true, hall], hl, ?_⟩
  rw [hl]; omega

/-! ### the statements of part 3 are not vacuous -/

/-- the two entries `a/x/b*/**` yields from `r/a/` with depths 3 to 3 (see above): path `r/a/x/bd`,
    root segment `r`, relative segment `a/x/bd` with 3 components = walkdir depth 2 + pivot 1,
    matched by the complete program -/
example :
    let π := globPipeline exSem "r/a/".toList (compiledProgram bGlob 1)
    let e : Entry := ⟨["x".toList, "bd".toList], .d⟩
    e ∈ π.filtrateEntries (π.items 2 (some 2) bTree) ∧
    π.path e = "r/a/x/bd".toList ∧ π.relativeFor e .filtrate = ("r".toList, "a/x/bd".toList) ∧
    (components (π.relativeFor e .filtrate).1 ++ components (π.relativeFor e .filtrate).2 =
        components (π.path e) ∧
      (components (π.relativeFor e .filtrate).2).length = e.depth + π.pivot ∧
      (compiledProgram bGlob 1).complete.matchB exSem (π.relativeFor e .filtrate).2 = true ∧
      (π.relativeFor e .filtrate).2 = relOf (["a".toList] ++ e.names) ∧
      components (π.relativeFor e .filtrate).2 = (["a".toList] ++ e.names).map Comp.normal) := by
  intro π e
  have hmem : e ∈ π.filtrateEntries (π.items 2 (some 2) bTree) := by decide
  exact ⟨hmem, by decide, by decide,
    glob_entry_fields_faithful exSem (compiledProgram bGlob 1) ["a".toList] rfl "r/a/".toList bTree
      2 (some 2) (by decide) (by decide) e hmem⟩

/-- a rooted glob walk: root `/tmp`, pivot 2 + 1; the entry `/tmp/n1` is handed out with depth 4
    and a relative segment of 3 components -/
example :
    let π : Pipeline := ⟨exSem, "/tmp".toList, some ⟨.star (.chr .dot), [], 3⟩, []⟩
    let e : Entry := ⟨["n1".toList], .f⟩
    (π.decide e).1 = .filtrate ∧ e.depth + π.pivot = 4 ∧
    (components (π.relativeFor e .filtrate).2).length = 3 := by
  decide

end Wax.Walk
