import Wax.Spec
/-!
A token (tree) without component boundaries matches only separator-free text.  This is what makes
the walker's per-component pruning sound (C02) and what keeps the captures of `?`, `*`, `$`,
classes, and boundary-free branches inside one component (C04 v).
-/
namespace Wax

/-- the back end's case folding never relates a separator to anything else -/
def SepIsolated (σ : Sem) : Prop := ∀ a b, σ.ceq a b = true → (a = '/' ↔ b = '/')

mutual
  /-- no separator, no tree wildcard, no literal text containing a separator, anywhere -/
  def noBoundary : Tok → Bool
    | .lit _ s _ => !s.contains '/'
    | .sep _ => false
    | .tree .. => false
    | .alt _ bs => noBoundaryL bs
    | .rep _ b _ _ => noBoundary b
    | .cat _ ts => noBoundaryL ts
    | _ => true
  def noBoundaryL : List Tok → Bool
    | [] => true
    | t :: ts => noBoundary t && noBoundaryL ts
end

theorem noBoundaryL_mem {bs : List Tok} {b : Tok} (hb : b ∈ bs) (h : noBoundaryL bs = true) : noBoundary b = true := by
  induction bs with
  | nil => cases hb
  | cons x xs ih =>
    simp only [noBoundaryL, Bool.and_eq_true] at h
    cases hb with
    | head => exact h.1
    | tail _ hm => exact ih hm h.2

theorem noBoundaryL_concatenation {b : Tok} (h : noBoundary b = true) : noBoundaryL b.concatenation = true := by
  cases b <;> simp_all [Tok.concatenation, noBoundaryL, noBoundary]

theorem litEq_sepFree {σ : Sem} (hσ : SepIsolated σ) {ci : Bool} :
    ∀ {s w : Str}, litEq σ ci s w = true → SepFree s → SepFree w
  | [], [], _, _ => sepFree_nil
  | a :: s, b :: w, h, hs => by
    simp only [litEq, Bool.and_eq_true] at h
    obtain ⟨ha, hs'⟩ := sepFree_cons.mp hs
    refine sepFree_cons.mpr ⟨?_, litEq_sepFree hσ h.2 hs'⟩
    cases ci with
    | true =>
      have := hσ a b (by simpa using h.1)
      intro hb; exact ha (this.mpr hb)
    | false =>
      have : a = b := by simpa using h.1
      subst this; exact ha
  | [], _ :: _, h, _ => by simp [litEq] at h
  | _ :: _, [], h, _ => by simp [litEq] at h

theorem sepFree_of_not_contains {s : Str} (h : (!s.contains '/') = true) : SepFree s := by
  intro c hc hcs
  subst hcs
  have : s.contains '/' = true := List.contains_iff_mem.mpr hc
  simp at h
  exact h hc

mutual
  theorem sm_sepFree (σ : Sem) (hσ : SepIsolated σ) : ∀ {c : Ctx} {t : Tok} {w : Str},
      SM σ c t w → noBoundary t = true → SepFree w
    | _, _, _, .lit h, hn => by
      simp only [noBoundary] at hn
      exact litEq_sepFree hσ h (sepFree_of_not_contains hn)
    | _, _, _, .sep, hn => by simp [noBoundary] at hn
    | _, _, _, .cls hp, _ => by
      simp only [classHolds, Bool.and_eq_true, bne_iff_ne, ne_eq] at hp
      exact sepFree_cons.mpr ⟨hp.1, sepFree_nil⟩
    | _, _, _, .one hp, _ => sepFree_cons.mpr ⟨hp, sepFree_nil⟩
    | _, _, _, .zom hw, _ => hw
    | _, _, _, .tree _, hn => by simp [noBoundary] at hn
    | _, _, _, .alt hb hm, hn => by
      simp only [noBoundary] at hn
      exact sms_sepFree σ hσ hm (noBoundaryL_concatenation (noBoundaryL_mem hb hn))
    | _, _, _, .rep _ _ h3, hn => by
      simp only [noBoundary] at hn
      exact srep_sepFree σ hσ h3 (noBoundaryL_concatenation hn)
    | _, _, _, .cat h, hn => by
      simp only [noBoundary] at hn
      exact sms_sepFree σ hσ h hn
  theorem sms_sepFree (σ : Sem) (hσ : SepIsolated σ) : ∀ {c : Ctx} {ts : List Tok} {w : Str},
      SMs σ c ts w → noBoundaryL ts = true → SepFree w
    | _, _, _, .nil, _ => sepFree_nil
    | _, _, _, .cons hu hv, hn => by
      simp only [noBoundaryL, Bool.and_eq_true] at hn
      exact sepFree_append.mpr ⟨sm_sepFree σ hσ hu hn.1, sms_sepFree σ hσ hv hn.2⟩
  theorem srep_sepFree (σ : Sem) (hσ : SepIsolated σ) : ∀ {c : Ctx} {body : List Tok} {n : Nat} {w : Str},
      SRep σ c body n w → noBoundaryL body = true → SepFree w
    | _, _, _, _, .zero, _ => sepFree_nil
    | _, _, _, _, .one h, hn => sms_sepFree σ hσ h hn
    | _, _, _, _, .more hu hv, hn =>
      sepFree_append.mpr ⟨sms_sepFree σ hσ hu hn, srep_sepFree σ hσ hv hn⟩
end

end Wax
