import Wax.WalkTree
import Wax.Proofs.ExhSound
/-!
C03 composed: a negation whose exhaustive pattern is descendant-closed and does not match the
empty path may discard matching directories as trees — the consumer receives exactly the entries
the negation does not match.
-/
namespace Wax.WalkTree
open Wax

/-- **C03 (partial)**: pruning by a descendant-closed negation is per-entry filtering -/
theorem not_walk_exact (σ : Sem) (t : Tok) (M : Str → Bool)
    (hM : ∀ w, M w = true ↔ Spec.Matches σ t w)
    (hdesc : ∀ w x, Spec.Matches σ t w → Spec.Matches σ t (w ++ '/' :: x))
    (hempty : M [] = false) (n : Node) (p : List Str) :
    okKept M (visit (fun e => M (relOf e.path)) p n) = okKept M (visit never p n) := by
  refine not_exact M M (fun _ h => h) ?_ n p
  intro a q ha
  by_cases hq : q = []
  · subst hq; simpa using ha
  · by_cases hp : a = []
    · subst hp; simp only [relOf] at ha; rw [hempty] at ha; cases ha
    · rw [relOf_append hp hq]
      exact (hM _).mpr (hdesc _ _ ((hM _).mp ha))

/-- ... in particular for every negation in the fragment of `exhaustive_sound_partial` that the
fold calls `Always` -/
theorem not_walk_exact_of_always (σ : Sem) (sp : Span) (ts : List Tok) (last : Tok)
    (hlast : lastTok ts = some last) (hfrag : isTreeTok last = true ∨ exhTake last = false)
    (hAlways : isExhaustive (.cat sp ts) = .ok .always)
    (M : Str → Bool) (hM : ∀ w, M w = true ↔ Spec.Matches σ (.cat sp ts) w)
    (hempty : M [] = false) (n : Node) (p : List Str) :
    okKept M (visit (fun e => M (relOf e.path)) p n) = okKept M (visit never p n) :=
  not_walk_exact σ (.cat sp ts) M hM
    (fun w x h => exhaustive_sound_partial σ sp ts last hlast hfrag hAlways w h x) hempty n p

end Wax.WalkTree
