import Wax.Exec
import Wax.Proofs.Exec
/-!
The fuel of the two loops of `Re.exec` always suffices: started with any fuel that is at least the
length of the rest of the haystack, `loopU` and `plusLoop` compute the same result
(`loopU_fuel`, `plusLoop_fuel`); `Re.run` starts them with exactly that length.

The reason is that every piece of the search calls its continuation only on rests that are no
longer than the rest it was given (`Local`), and a further round of a loop is only started on a
strictly shorter rest.
-/
namespace Wax

/-- `f` looks at its continuation only on rests that are no longer than its own -/
def Local (f : Step) : Prop :=
  ∀ w v c k k', (∀ w' v' c', w'.length ≤ w.length → k w' v' c' = k' w' v' c') → f w v c k = f w v c k'

theorem orElse'_congr {a a' : Option Caps} {b b' : Unit → Option Caps} (ha : a = a') (hb : b () = b' ()) :
    orElse' a b = orElse' a' b' := by
  subst ha
  unfold orElse'
  cases a with
  | none => exact hb
  | some x => rfl

theorem prefer_congr {lazy : Bool} {m m' l l' : Unit → Option Caps} (hm : m () = m' ()) (hl : l () = l' ()) :
    prefer lazy m l = prefer lazy m' l' := by
  unfold prefer
  cases lazy with
  | true => simp only [if_true]; exact orElse'_congr hl hm
  | false => simp only [Bool.false_eq_true, if_false]; exact orElse'_congr hm hl

theorem enter_congr {s : Sid} {v : Vis} {f g : Vis → Option Caps} (h : ∀ v', f v' = g v') :
    enter s v f = enter s v g := by
  unfold enter
  split
  · rfl
  · exact h _

theorem litStrip_length (σ : Sem) (ci : Bool) : ∀ (s w w' : Str), litStrip σ ci s w = some w' → w'.length ≤ w.length := by
  intro s
  induction s with
  | nil => intro w w' h; simp only [litStrip] at h; cases h; exact Nat.le_refl _
  | cons a s ih =>
    intro w w' h
    cases w with
    | nil => simp [litStrip] at h
    | cons b w =>
      simp only [litStrip] at h
      by_cases hab : (if ci then σ.ceq a b else a == b) = true
      · rw [if_pos hab] at h
        have := ih _ _ h
        simp only [List.length_cons]
        omega
      · rw [if_neg hab] at h; cases h

/-! ### the loops are local when their bodies are -/

theorem loopU_local {body : Step} (hb : Local body) (u : Sid) (lazy : Bool) : ∀ n, Local (loopU body u lazy n) := by
  intro n
  induction n with
  | zero =>
    intro w v c k k' h
    simp only [loopU]
    exact enter_congr (fun v' => h _ _ _ (Nat.le_refl _))
  | succ n ih =>
    intro w v c k k' h
    simp only [loopU]
    refine enter_congr (fun v' => prefer_congr ?_ (h _ _ _ (Nat.le_refl _)))
    refine hb _ _ _ _ _ (fun w' v'' c' hle => ?_)
    split
    · exact ih _ _ _ _ _ (fun w'' v3 c3 hle' => h _ _ _ (Nat.le_trans hle' hle))
    · rfl

theorem plusLoop_local {body : Step} (hb : Local body) (p : Sid) (lazy : Bool) : ∀ n, Local (plusLoop body p lazy n) := by
  intro n
  induction n with
  | zero =>
    intro w v c k k' h
    simp only [plusLoop]
    exact hb _ _ _ _ _ (fun w' v' c' hle => enter_congr (fun v'' => h _ _ _ hle))
  | succ n ih =>
    intro w v c k k' h
    simp only [plusLoop]
    refine hb _ _ _ _ _ (fun w' v' c' hle => enter_congr (fun v'' => prefer_congr ?_ (h _ _ _ hle)))
    split
    · exact ih _ _ _ _ _ (fun w'' v3 c3 hle' => h _ _ _ (Nat.le_trans hle' hle))
    · rfl

theorem starQ_local {body : Step} (hb : Local body) (q p : Sid) (lazy : Bool) : Local (starQ body q p lazy) := by
  intro w v c k k' h
  simp only [starQ]
  exact enter_congr (fun v' => prefer_congr (plusLoop_local hb p lazy _ _ _ _ _ _ h) (h _ _ _ (Nat.le_refl _)))

theorem starLoop_local {body : Nat → Step} (hb : ∀ i, Local (body i)) (nn : Bool) (un : Nat → Sid) (lazy : Bool) :
    Local (starLoop nn body un lazy) := by
  intro w v c k k' h
  simp only [starLoop]
  split
  · exact loopU_local (hb 0) _ _ _ _ _ _ _ _ h
  · exact starQ_local (hb 0) _ _ _ _ _ _ _ _ h

theorem exactly_local {body : Nat → Step} (hb : ∀ i, Local (body i)) : ∀ n i, Local (exactly body n i) := by
  intro n
  induction n with
  | zero => intro i w v c k k' h; simp only [exactly]; exact h _ _ _ (Nat.le_refl _)
  | succ n ih =>
    intro i w v c k k' h
    simp only [exactly]
    exact hb i _ _ _ _ _ (fun w' v' c' hle => ih _ _ _ _ _ _ (fun w'' v3 c3 hle' => h _ _ _ (Nat.le_trans hle' hle)))

theorem optNest_local {body : Nat → Step} (hb : ∀ i, Local (body i)) (un : Nat → Sid) :
    ∀ n i, Local (optNest body un n i) := by
  intro n
  induction n with
  | zero => intro i w v c k k' h; simp only [optNest]; exact h _ _ _ (Nat.le_refl _)
  | succ n ih =>
    intro i w v c k k' h
    simp only [optNest]
    refine enter_congr (fun v' => orElse'_congr ?_ (h _ _ _ (Nat.le_refl _)))
    exact hb i _ _ _ _ _ (fun w' v'' c' hle => ih _ _ _ _ _ _ (fun w'' v3 c3 hle' => h _ _ _ (Nat.le_trans hle' hle)))

theorem repLoop_local {body : Nat → Step} (hb : ∀ i, Local (body i)) (nn : Bool) (un : Nat → Sid)
    (lo : Nat) (hi : Option Nat) : Local (repLoop nn body un lo hi) := by
  intro w v c k k' h
  simp only [repLoop]
  cases hi with
  | some hh =>
    simp only
    split
    · exact exactly_local hb _ _ _ _ _ _ _ (fun w' v' c' hle =>
        optNest_local hb un _ _ _ _ _ _ _ (fun w'' v3 c3 hle' => h _ _ _ (Nat.le_trans hle' hle)))
    · rfl
  | none =>
    simp only
    cases lo with
    | zero => exact starLoop_local hb nn un false _ _ _ _ _ h
    | succ m =>
      exact exactly_local hb _ _ _ _ _ _ _ (fun w' v' c' hle =>
        plusLoop_local (hb m) _ _ _ _ _ _ _ _ (fun w'' v3 c3 hle' => h _ _ _ (Nat.le_trans hle' hle)))

mutual
  theorem run_local (σ : Sem) : ∀ (r : Re) (id : Sid) (n : Nat), Local (r.run σ id n)
    | .lit s ci, id, n => by
      intro w v c k k' h
      simp only [Re.run]
      split
      · rename_i w' hw
        exact h _ _ _ (litStrip_length σ ci _ _ _ hw)
      · rfl
    | .chr p, id, n => by
      intro w v c k k' h
      simp only [Re.run]
      split
      · split
        · exact h _ _ _ (by simp)
        · rfl
      · rfl
    | .never, id, n => by intro w v c k k' h; simp only [Re.run]
    | .cat l, id, n => by
      intro w v c k k' h
      simp only [Re.run]
      exact runCat_local σ l id 0 n _ _ _ _ _ h
    | .alt l, id, n => by
      intro w v c k k' h
      simp only [Re.run]
      split
      · exact enter_congr (fun v' => runAlt_local σ _ id 1 n _ _ _ _ _ h)
      · exact runAlt_local σ _ id 1 n _ _ _ _ _ h
    | .star r, id, n => by
      intro w v c k k' h
      simp only [Re.run]
      exact starLoop_local (fun i => run_local σ r ((2 * i + 1) :: id) n) _ _ _ _ _ _ _ _ h
    | .lazyStar r, id, n => by
      intro w v c k k' h
      simp only [Re.run]
      exact starLoop_local (fun i => run_local σ r ((2 * i + 1) :: id) n) _ _ _ _ _ _ _ _ h
    | .opt r, id, n => by
      intro w v c k k' h
      simp only [Re.run]
      exact enter_congr (fun v' => orElse'_congr (run_local σ r (1 :: id) n _ _ _ _ _ h) (h _ _ _ (Nat.le_refl _)))
    | .rep r lo hi, id, n => by
      intro w v c k k' h
      simp only [Re.run]
      exact repLoop_local (fun i => run_local σ r ((2 * i + 1) :: id) n) _ _ _ _ _ _ _ _ _ h
    | .cap r, id, n => by
      intro w v c k k' h
      simp only [Re.run]
      exact run_local σ r (0 :: id) (n + 1) _ _ _ _ _ (fun w' v' c' hle => h _ _ _ hle)
    | .grp r, id, n => by
      intro w v c k k' h
      simp only [Re.run]
      exact run_local σ r (0 :: id) n _ _ _ _ _ h
  theorem runCat_local (σ : Sem) : ∀ (l : List Re) (id : Sid) (j n : Nat), Local (Re.runCat σ l id j n)
    | [], id, j, n => by intro w v c k k' h; simp only [Re.runCat]; exact h _ _ _ (Nat.le_refl _)
    | r :: rs, id, j, n => by
      intro w v c k k' h
      simp only [Re.runCat]
      exact run_local σ r (j :: id) n _ _ _ _ _ (fun w' v' c' hle =>
        runCat_local σ rs id (j + 1) (n + r.ncaps) _ _ _ _ _ (fun w'' v3 c3 hle' => h _ _ _ (Nat.le_trans hle' hle)))
  theorem runAlt_local (σ : Sem) : ∀ (l : List Re) (id : Sid) (j n : Nat), Local (Re.runAlt σ l id j n)
    | [], id, j, n => by intro w v c k k' h; simp only [Re.runAlt]
    | r :: rs, id, j, n => by
      intro w v c k k' h
      simp only [Re.runAlt]
      exact orElse'_congr (run_local σ r (j :: id) n _ _ _ _ _ h) (runAlt_local σ rs id (j + 1) (n + r.ncaps) _ _ _ _ _ h)
end

/-! ### any fuel ≥ the length of the rest gives the same result -/

theorem orElse'_none_right (a : Option Caps) : orElse' a (fun _ => none) = a := by
  unfold orElse'; cases a <;> rfl

theorem prefer_none_more (lazy : Bool) (l : Unit → Option Caps) : prefer lazy (fun _ => none) l = l () := by
  unfold prefer
  cases lazy with
  | true => simp only [if_true]; exact orElse'_none_right _
  | false => simp only [Bool.false_eq_true, if_false]; rfl

theorem plusLoop_fuel_succ {body : Step} (hb : Local body) (p : Sid) (lazy : Bool) :
    ∀ (n : Nat) (w : Str) (v : Vis) (c : Caps) (k : Kont), w.length ≤ n →
      plusLoop body p lazy n w v c k = plusLoop body p lazy (n + 1) w v c k := by
  intro n
  induction n with
  | zero =>
    intro w v c k hw
    simp only [plusLoop]
    refine hb _ _ _ _ _ (fun w' v' c' _ => enter_congr (fun v'' => ?_))
    have : ¬ w'.length < w.length := by omega
    rw [if_neg this]
    exact (prefer_none_more lazy (fun _ => k w' v'' c')).symm
  | succ n ih =>
    intro w v c k hw
    rw [plusLoop, plusLoop]
    refine hb _ _ _ _ _ (fun w' v' c' _ => enter_congr (fun v'' => prefer_congr ?_ rfl))
    by_cases hlt : w'.length < w.length
    · rw [if_pos hlt, if_pos hlt]
      exact ih _ _ _ _ (by omega)
    · rw [if_neg hlt, if_neg hlt]

/-- any two fuels that are at least the length of the rest give the same result -/
theorem plusLoop_fuel {body : Step} (hb : Local body) (p : Sid) (lazy : Bool)
    (n m : Nat) (w : Str) (v : Vis) (c : Caps) (k : Kont) (hn : w.length ≤ n) (hm : w.length ≤ m) :
    plusLoop body p lazy n w v c k = plusLoop body p lazy m w v c k := by
  have up : ∀ d n, w.length ≤ n → plusLoop body p lazy n w v c k = plusLoop body p lazy (n + d) w v c k := by
    intro d
    induction d with
    | zero => intro n _; rfl
    | succ d ih =>
      intro n h
      rw [ih n h, plusLoop_fuel_succ hb p lazy (n + d) w v c k (by omega)]
      rfl
  rcases Nat.le_total n m with h | h
  · obtain ⟨d, rfl⟩ := Nat.exists_eq_add_of_le h
    exact up d n hn
  · obtain ⟨d, rfl⟩ := Nat.exists_eq_add_of_le h
    exact (up d m hm).symm

theorem loopU_fuel_succ {body : Step} (hb : Local body)
    (hfail : ∀ w v c, body w v c (fun _ _ _ => none) = none) (u : Sid) (lazy : Bool) :
    ∀ (n : Nat) (w : Str) (v : Vis) (c : Caps) (k : Kont), w.length ≤ n →
      loopU body u lazy n w v c k = loopU body u lazy (n + 1) w v c k := by
  intro n
  induction n with
  | zero =>
    intro w v c k hw
    simp only [loopU]
    refine enter_congr (fun v' => ?_)
    have hnone : body w v' c (fun w' v'' c' =>
        if w'.length < w.length then enter u v'' (fun v3 => k w' v3 c') else none) = none := by
      refine Eq.trans (hb _ _ _ _ (fun _ _ _ => none) (fun w' v'' c' _ => ?_)) (hfail w v' c)
      have : ¬ w'.length < w.length := by omega
      rw [if_neg this]
    have : (fun (_ : Unit) => body w v' c (fun w' v'' c' =>
        if w'.length < w.length then enter u v'' (fun v3 => k w' v3 c') else none)) = (fun _ => none) := by
      funext _; exact hnone
    rw [this]
    exact (prefer_none_more lazy (fun _ => k w v' c)).symm
  | succ n ih =>
    intro w v c k hw
    rw [loopU, loopU]
    refine enter_congr (fun v' => prefer_congr ?_ rfl)
    refine hb _ _ _ _ _ (fun w' v'' c' _ => ?_)
    by_cases hlt : w'.length < w.length
    · rw [if_pos hlt, if_pos hlt]
      exact ih _ _ _ _ (by omega)
    · rw [if_neg hlt, if_neg hlt]

/-- any two fuels that are at least the length of the rest give the same result -/
theorem loopU_fuel {body : Step} (hb : Local body)
    (hfail : ∀ w v c, body w v c (fun _ _ _ => none) = none) (u : Sid) (lazy : Bool)
    (n m : Nat) (w : Str) (v : Vis) (c : Caps) (k : Kont) (hn : w.length ≤ n) (hm : w.length ≤ m) :
    loopU body u lazy n w v c k = loopU body u lazy m w v c k := by
  have up : ∀ d n, w.length ≤ n → loopU body u lazy n w v c k = loopU body u lazy (n + d) w v c k := by
    intro d
    induction d with
    | zero => intro n _; rfl
    | succ d ih =>
      intro n h
      rw [ih n h, loopU_fuel_succ hb hfail u lazy (n + d) w v c k (by omega)]
      rfl
  rcases Nat.le_total n m with h | h
  · obtain ⟨d, rfl⟩ := Nat.exists_eq_add_of_le h
    exact up d n hn
  · obtain ⟨d, rfl⟩ := Nat.exists_eq_add_of_le h
    exact (up d m hm).symm

/-- a piece of a pattern fails when its continuation always fails -/
theorem run_fail (σ : Sem) (r : Re) (id : Sid) (n : Nat) (w : Str) (v : Vis) (c : Caps) :
    r.run σ id n w v c (fun _ _ _ => none) = none := by
  cases h : r.run σ id n w v c (fun _ _ _ => none) with
  | none => rfl
  | some res =>
    obtain ⟨_, _, _, _, _, _, _, hk⟩ := run_sound σ r id n _ _ _ _ _ h
    cases hk

/-- the loops of a pattern, as `Re.run` starts them, do not depend on the fuel -/
theorem run_loop_fuel (σ : Sem) (r : Re) (id u : Sid) (g : Nat) (lazy : Bool)
    (n m : Nat) (w : Str) (v : Vis) (c : Caps) (k : Kont) (hn : w.length ≤ n) (hm : w.length ≤ m) :
    loopU (r.run σ id g) u lazy n w v c k = loopU (r.run σ id g) u lazy m w v c k ∧
    plusLoop (r.run σ id g) u lazy n w v c k = plusLoop (r.run σ id g) u lazy m w v c k :=
  ⟨loopU_fuel (run_local σ r id g) (run_fail σ r id g) u lazy n m w v c k hn hm,
   plusLoop_fuel (run_local σ r id g) u lazy n m w v c k hn hm⟩

end Wax
