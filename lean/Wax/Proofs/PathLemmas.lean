import Wax.Path
import Wax.Walk
import Wax.Proofs.Entry
/-!
The path arithmetic of walks at the level of path STRINGS (C14, C02, C15): the executable model of
std::path in `Wax/Path.lean` (`components`, `join`, `ancestors`, `strip_prefix`, and the helpers
`split_at_depth` / `join_and_get_depth` of walk/mod.rs) is tied to the abstract component-list
lemmas of `Wax/Proofs/Entry.lean` (`splitAtDepthC`, `root_is_base`, `depth_is_rel_length`).

Layout:
* pieces: `splitSep`, `piecesFrom`, `bodySpans` under `a ++ "/" ++ b`;
* `compSpans_join`: the spans of `join b r` for a relative `r`;
* `trim`: `Components::as_path` trimming, `compSpans (trim p) = compSpans p`;
* `components_joinAll` (1), `splitAtDepth_join` (2), `joinAndGetDepth_relative/_absolute` (3),
  `entry_root_relative` (4);
* the quirks, by `decide` on witnesses.
-/
namespace Wax.Path
open Wax

/-! ### `Comp` equality test -/

theorem comp_beq (a b : Comp) : (a == b) = decide (a = b) := by
  cases a <;> cases b <;> simp [BEq.beq, instBEqComp.beq]
  rename_i s t
  have : (s == t) = decide (s = t) := by
    by_cases h : s = t <;> simp [h]
  exact this

/-- the derived `BEq` of `Comp` is lawful (this makes `c ∈ components p` decidable) -/
instance : LawfulBEq Comp where
  eq_of_beq := by intro a b h; simpa [comp_beq] using h
  rfl := by intro a; simp [comp_beq]

theorem comp_bne (a b : Comp) : (a != b) = true ↔ a ≠ b := by
  simp [bne, comp_beq]

theorem isPrefixOf_append (xs ys : List Comp) : isPrefixOf xs (xs ++ ys) = true := by
  induction xs with
  | nil => simp [isPrefixOf]
  | cons x xs ih => simp [isPrefixOf, ih]

/-! ### pieces -/

theorem splitSep_ne_nil (p : Str) : splitSep p ≠ [] := by
  induction p with
  | nil => simp [splitSep]
  | cons c cs ih =>
    simp only [splitSep]
    split
    · simp
    · split <;> simp

/-- the pieces of `a/b` are the pieces of `a` followed by the pieces of `b` -/
theorem splitSep_append_sep (a b : Str) : splitSep (a ++ '/' :: b) = splitSep a ++ splitSep b := by
  induction a with
  | nil => simp [splitSep]
  | cons c cs ih =>
    simp only [List.cons_append, splitSep]
    split
    · simp [ih]
    · rw [ih]
      cases h : splitSep cs with
      | nil => exact absurd h (splitSep_ne_nil cs)
      | cons x xs => simp

theorem splitSep_sepFree {w : Str} (h : SepFree w) : splitSep w = [w] := by
  induction w with
  | nil => simp [splitSep]
  | cons c cs ih =>
    have hc := (sepFree_cons.mp h)
    simp [splitSep, hc.1, ih hc.2]

/-- characters taken up by a list of pieces, each with the separator that ends it -/
def tot : List Str → Nat
  | [] => 0
  | p :: ps => p.length + 1 + tot ps

theorem tot_splitSep (p : Str) : tot (splitSep p) = p.length + 1 := by
  induction p with
  | nil => simp [splitSep, tot]
  | cons c cs ih =>
    simp only [splitSep]
    split
    · simp only [tot, ih, List.length_nil, List.length_cons]; omega
    · cases h : splitSep cs with
      | nil => exact absurd h (splitSep_ne_nil cs)
      | cons x xs =>
        rw [h] at ih
        simp only [tot, List.length_cons] at ih ⊢
        omega

theorem piecesFrom_append (k : Nat) (xs ys : List Str) :
    piecesFrom k (xs ++ ys) = piecesFrom k xs ++ piecesFrom (k + tot xs) ys := by
  induction xs generalizing k with
  | nil => simp [piecesFrom, tot]
  | cons x xs ih =>
    simp only [List.cons_append, piecesFrom, tot, ih]
    congr 3
    omega

theorem piecesFrom_ne_nil {k : Nat} {xs : List Str} (h : xs ≠ []) : piecesFrom k xs ≠ [] := by
  cases xs with
  | nil => exact absurd rfl h
  | cons x xs => simp [piecesFrom]

theorem bodySpans_false_append (xs ys : List (Nat × Str)) :
    bodySpans false (xs ++ ys) = bodySpans false xs ++ bodySpans false ys := by
  induction xs with
  | nil => simp [bodySpans]
  | cons x xs ih =>
    obtain ⟨st, s⟩ := x
    simp only [List.cons_append, bodySpans]
    split <;> simp [ih]

theorem bodySpans_append (f : Bool) {xs : List (Nat × Str)} (ys : List (Nat × Str)) (h : xs ≠ []) :
    bodySpans f (xs ++ ys) = bodySpans f xs ++ bodySpans false ys := by
  cases xs with
  | nil => exact absurd rfl h
  | cons x xs =>
    obtain ⟨st, s⟩ := x
    simp only [List.cons_append, bodySpans]
    split <;> simp [bodySpans_false_append]

/-- move a span `k` characters to the right -/
def shift (k : Nat) (x : Comp × Nat × Nat) : Comp × Nat × Nat := (x.1, x.2.1 + k, x.2.2 + k)

theorem bodySpans_shift (f : Bool) (j k : Nat) (ps : List Str) :
    bodySpans f (piecesFrom (j + k) ps) = (bodySpans f (piecesFrom j ps)).map (shift k) := by
  induction ps generalizing f j with
  | nil => simp [piecesFrom, bodySpans]
  | cons p ps ih =>
    have e : j + k + p.length + 1 = (j + p.length + 1) + k := by omega
    simp only [piecesFrom, bodySpans, e]
    split
    · simp only [List.map_cons, ih, shift]
      congr 3
      omega
    · exact ih ..

theorem bodySpans_no_root (f : Bool) (xs : List (Nat × Str)) :
    ∀ x ∈ bodySpans f xs, x.1 ≠ Comp.root := by
  induction xs generalizing f with
  | nil => simp [bodySpans]
  | cons x xs ih =>
    obtain ⟨st, s⟩ := x
    simp only [bodySpans]
    split
    · rename_i c hc
      intro y hy
      rcases List.mem_cons.mp hy with rfl | hy
      · simp only [pieceComp] at hc
        split at hc
        · cases hc
        · split at hc
          · split at hc <;> cases hc <;> simp
          · split at hc <;> cases hc <;> simp
      · exact ih _ y hy
    · exact ih _

theorem bodySpans_false_no_cur (xs : List (Nat × Str)) :
    ∀ x ∈ bodySpans false xs, x.1 ≠ Comp.cur := by
  induction xs with
  | nil => simp [bodySpans]
  | cons x xs ih =>
    obtain ⟨st, s⟩ := x
    simp only [bodySpans]
    split
    · rename_i c hc
      intro y hy
      rcases List.mem_cons.mp hy with rfl | hy
      · simp only [pieceComp] at hc
        split at hc
        · cases hc
        · split at hc
          · simp at hc
          · split at hc <;> cases hc <;> simp
      · exact ih y hy
    · exact ih

/-- without a `.` component the flag `first` plays no role -/
theorem bodySpans_true_eq_false {xs : List (Nat × Str)}
    (h : ∀ x ∈ bodySpans true xs, x.1 ≠ Comp.cur) : bodySpans true xs = bodySpans false xs := by
  cases xs with
  | nil => rfl
  | cons x xs =>
    obtain ⟨st, s⟩ := x
    by_cases hs : s = ['.']
    · subst hs
      have := h (Comp.cur, st, st + 1) (by simp [bodySpans, pieceComp])
      exact absurd rfl this
    · have e : pieceComp true s = pieceComp false s := by
        simp [pieceComp, hs]
      simp only [bodySpans, e]

/-! ### `compSpans` under `a ++ "/" ++ b` -/

theorem isAbsolute_append {a : Str} (b : Str) (h : a ≠ []) : isAbsolute (a ++ b) = isAbsolute a := by
  cases a with
  | nil => exact absurd rfl h
  | cons c cs => simp [isAbsolute]

theorem compSpans_sep_cons (b : Str) :
    compSpans ('/' :: b) = (Comp.root, 0, 1) :: bodySpans false (piecesFrom 1 (splitSep b)) := by
  simp [compSpans, isAbsolute, splitSep, piecesFrom, bodySpans, pieceComp]

/-- the spans of `a/b`, for a non-empty `a`: those of `a`, then the body of `b` moved behind -/
theorem compSpans_append_sep {a : Str} (b : Str) (h : a ≠ []) :
    compSpans (a ++ '/' :: b)
      = compSpans a ++ bodySpans false (piecesFrom (a.length + 1) (splitSep b)) := by
  have hp : piecesFrom 0 (splitSep a) ≠ [] := piecesFrom_ne_nil (splitSep_ne_nil a)
  simp only [compSpans, isAbsolute_append _ h, splitSep_append_sep, piecesFrom_append,
    tot_splitSep, bodySpans_append _ _ hp, Nat.zero_add]
  split <;> simp

theorem compSpans_relative {r : Str} (hr : isAbsolute r = false) :
    compSpans r = bodySpans true (piecesFrom 0 (splitSep r)) := by
  simp [compSpans, hr]

/-- what `join` puts between a base and a relative path -/
def glue (b : Str) : Str :=
  if b.isEmpty then [] else if b.getLast? == some '/' then [] else ['/']

theorem join_eq {r : Str} (b : Str) (hr : isAbsolute r = false) : join b r = b ++ (glue b ++ r) := by
  simp only [join, hr, glue]
  by_cases h1 : b.isEmpty
  · simp only [List.isEmpty_iff] at h1; simp [h1]
  · by_cases h2 : b.getLast? = some '/' <;> simp [h1, h2]

theorem join_nil (r : Str) : join [] r = r := by
  simp [join]

theorem join_absolute {r : Str} (b : Str) (hr : isAbsolute r = true) : join b r = r := by
  simp [join, hr]

theorem join_length {r : Str} (b : Str) (hr : isAbsolute r = false) :
    (join b r).length = b.length + (glue b).length + r.length := by
  simp [join_eq b hr]; omega

/-- the spans of `join b r` for a relative `r`: those of `b`, then the body of `r` (where a `.`
    is never a component) moved behind `b` and the separator -/
theorem compSpans_join_body {b r : Str} (hr : isAbsolute r = false) (hb : b ≠ []) :
    compSpans (join b r) = compSpans b ++
      (bodySpans false (piecesFrom 0 (splitSep r))).map (shift (b.length + (glue b).length)) := by
  have hsh := fun k => bodySpans_shift false 0 k (splitSep r)
  simp only [Nat.zero_add] at hsh
  rw [join_eq b hr]
  by_cases h2 : b.getLast? = some '/'
  · obtain ⟨b', rfl⟩ := List.getLast?_eq_some_iff.mp h2
    have hg : glue (b' ++ ['/']) = [] := by simp [glue]
    rw [hg]
    by_cases hb' : b' = []
    · subst hb'
      simp only [List.nil_append, List.cons_append, compSpans_sep_cons, splitSep, piecesFrom,
        bodySpans, pieceComp]
      rw [hsh 1]
      simp
    · have e : b' ++ ['/'] ++ ([] ++ r) = b' ++ '/' :: r := by simp
      have e2 : b' ++ ['/'] = b' ++ '/' :: [] := rfl
      rw [e, compSpans_append_sep _ hb', e2, compSpans_append_sep _ hb', hsh (b'.length + 1)]
      simp [splitSep, piecesFrom, bodySpans, pieceComp]
  · have hg : glue b = ['/'] := by
      have : b.isEmpty = false := by simpa using hb
      simp [glue, this, h2]
    rw [hg]
    have e : b ++ (['/'] ++ r) = b ++ '/' :: r := by simp
    rw [e, compSpans_append_sep _ hb, hsh (b.length + 1)]
    simp

theorem shift_zero (xs : List (Comp × Nat × Nat)) : xs.map (shift 0) = xs := by
  induction xs with
  | nil => rfl
  | cons x xs ih => simp [shift, ih]

/-- the `.`-free case, any base: the spans of `r` moved behind the base -/
theorem compSpans_join {r : Str} (b : Str) (hr : isAbsolute r = false)
    (hc : Comp.cur ∉ components r) :
    compSpans (join b r) = compSpans b ++
      (compSpans r).map (shift (b.length + (glue b).length)) := by
  by_cases hb : b = []
  · subst hb
    have : compSpans [] = [] := by simp [compSpans, isAbsolute, splitSep, piecesFrom, bodySpans, pieceComp]
    simp [join_nil, glue, shift_zero, this]
  · rw [compSpans_join_body hr hb, compSpans_relative hr, bodySpans_true_eq_false]
    intro x hx hx1
    apply hc
    simp only [components, compSpans_relative hr]
    exact List.mem_map.mpr ⟨x, hx, hx1⟩

/-! ### trimming: `Components::as_path` -/

/-- the path up to the end of its last component (`"r//"`, `"r/."` give `"r"`; `"//"` gives `"/"`) -/
def trim (p : Str) : Str := p.take (trimEnd p)

theorem compSpans_nil : compSpans [] = [] := by
  simp [compSpans, isAbsolute, splitSep, piecesFrom, bodySpans, pieceComp]

theorem lastSep (p : Str) : SepFree p ∨ ∃ a w, p = a ++ '/' :: w ∧ SepFree w := by
  induction p with
  | nil => exact Or.inl sepFree_nil
  | cons c cs ih =>
    rcases ih with h | ⟨a, w, rfl, hw⟩
    · by_cases hc : c = '/'
      · subst hc; exact Or.inr ⟨[], cs, rfl, h⟩
      · exact Or.inl (sepFree_cons.mpr ⟨hc, h⟩)
    · exact Or.inr ⟨c :: a, w, rfl, hw⟩

theorem isAbsolute_sepFree {p : Str} (h : SepFree p) : isAbsolute p = false := by
  cases p with
  | nil => rfl
  | cons c cs => simp [isAbsolute, (sepFree_cons.mp h).1]

theorem compSpans_sepFree {p : Str} (h : SepFree p) :
    compSpans p = match pieceComp true p with
      | some c => [(c, 0, p.length)]
      | none => [] := by
  rw [compSpans_relative (isAbsolute_sepFree h), splitSep_sepFree h]
  simp only [piecesFrom, bodySpans]
  cases pieceComp true p <;> simp

theorem bodySpans_single (f : Bool) (k : Nat) (w : Str) :
    bodySpans f [(k, w)] = match pieceComp f w with
      | some c => [(c, k, k + w.length)]
      | none => [] := by
  simp only [bodySpans]
  cases pieceComp f w <;> simp

theorem trimEnd_of_last {p : Str} {xs : List (Comp × Nat × Nat)} {c : Comp} {st e : Nat}
    (h : compSpans p = xs ++ [(c, st, e)]) : trimEnd p = e := by
  simp [trimEnd, h]

theorem trimEnd_congr {p q : Str} (h : compSpans p = compSpans q) : trimEnd p = trimEnd q := by
  simp [trimEnd, h]

theorem trim_full {p : Str} (h : trimEnd p = p.length) : trim p = p := by
  simp [trim, h]

/-- the trimmed path is a prefix of the path and has the same components, at the same places -/
theorem trim_spec (p : Str) : trimEnd p ≤ p.length ∧ compSpans (trim p) = compSpans p := by
  induction hn : p.length using Nat.strongRecOn generalizing p with
  | ind n ih =>
    subst hn
    rcases lastSep p with h | ⟨a, w, rfl, hw⟩
    · have hcs := compSpans_sepFree h
      cases hpc : pieceComp true p with
      | none =>
        rw [hpc] at hcs
        have ht : trimEnd p = 0 := by simp [trimEnd, hcs]
        simp [trim, ht, hcs, compSpans_nil]
      | some c =>
        rw [hpc] at hcs
        have ht : trimEnd p = p.length := trimEnd_of_last (xs := []) hcs
        simp [trim_full ht, ht]
    · have hsw : splitSep w = [w] := splitSep_sepFree hw
      by_cases ha : a = []
      · subst ha
        have hcs := compSpans_sep_cons w
        rw [hsw] at hcs
        simp only [piecesFrom, bodySpans_single] at hcs
        simp only [List.nil_append] at hcs ⊢
        cases hpc : pieceComp false w with
        | none =>
          rw [hpc] at hcs
          have ht : trimEnd ('/' :: w) = 1 := trimEnd_of_last (xs := []) hcs
          have : compSpans ['/'] = [(Comp.root, 0, 1)] := by
            simp [compSpans_sep_cons, splitSep, piecesFrom, bodySpans, pieceComp]
          simp [trim, ht, hcs, this]
        | some c =>
          rw [hpc] at hcs
          have ht : trimEnd ('/' :: w) = ('/' :: w).length := by
            rw [trimEnd_of_last (xs := [(Comp.root, 0, 1)]) hcs]; simp; omega
          simp [trim_full ht, ht]
      · have hcs := compSpans_append_sep w ha
        rw [hsw] at hcs
        simp only [piecesFrom, bodySpans_single] at hcs
        cases hpc : pieceComp false w with
        | none =>
          rw [hpc] at hcs
          simp only [List.append_nil] at hcs
          have ht := trimEnd_congr hcs
          have ⟨iha, ihb⟩ := ih a.length (by simp) a rfl
          refine ⟨by rw [ht]; simp only [List.length_append]; omega, ?_⟩
          rw [hcs, ← ihb]
          simp only [trim, ht]
          rw [List.take_append_of_le_length iha]
        | some c =>
          rw [hpc] at hcs
          have ht : trimEnd (a ++ '/' :: w) = (a ++ '/' :: w).length := by
            rw [trimEnd_of_last hcs]; simp; omega
          simp [trim_full ht, ht]

theorem trimEnd_le (p : Str) : trimEnd p ≤ p.length := (trim_spec p).1
theorem compSpans_trim (p : Str) : compSpans (trim p) = compSpans p := (trim_spec p).2
theorem components_trim (p : Str) : components (trim p) = components p := by
  simp [components, compSpans_trim]

theorem trim_idem (p : Str) : trim (trim p) = trim p := by
  have h1 : trimEnd (trim p) = trimEnd p := trimEnd_congr (compSpans_trim p)
  unfold trim at *
  rw [h1, List.take_take, Nat.min_self]

/-! ### `ancestors`, `takeComps`, `dropComps` on a path with a known base -/

theorem ancestors_getElem {p : Str} {d : Nat} (hd : 0 < d)
    (h : d ≤ (components p).length - (if isAbsolute p then 1 else 0)) :
    (ancestors p)[d]? = some (takeComps p ((components p).length - d)) := by
  obtain ⟨d', rfl⟩ : ∃ d', d = d' + 1 := ⟨d - 1, by omega⟩
  simp only [ancestors, List.getElem?_cons_succ, List.getElem?_map]
  rw [List.getElem?_reverse (by simp only [List.length_range]; omega)]
  rw [List.getElem?_range (by simp only [List.length_range]; omega)]
  simp only [List.length_range, Option.map_some]
  congr 2
  omega

theorem ancestors_zero (p : Str) : (ancestors p)[0]? = some p := by
  simp [ancestors]

theorem compSpans_length_absolute {b : Str} (h : isAbsolute b = true) :
    1 ≤ (compSpans b).length := by
  simp [compSpans, h]

/-- the ancestor covering exactly the components of the base is the trimmed base -/
theorem takeComps_base {p b y : Str} {X : List (Comp × Nat × Nat)} (hp : p = b ++ y)
    (hs : compSpans p = compSpans b ++ X) : takeComps p (compSpans b).length = trim b := by
  cases hk : (compSpans b).length with
  | zero =>
    have h0 : compSpans b = [] := List.length_eq_zero_iff.mp hk
    simp [takeComps, trim, trimEnd, h0]
  | succ k =>
    have h1 : (compSpans p)[k]? = (compSpans b).getLast? := by
      rw [hs, List.getElem?_append_left (by omega), List.getLast?_eq_getElem?, hk]
      simp
    have hle := trimEnd_le b
    simp only [takeComps, h1, trim]
    unfold trimEnd at hle ⊢
    cases hl : (compSpans b).getLast? with
    | none =>
      have := List.getLast?_eq_none_iff.mp hl
      rw [this] at hk; simp at hk
    | some x =>
      obtain ⟨c, st, e⟩ := x
      rw [hl] at hle
      simp only at hle ⊢
      rw [hp, List.take_append_of_le_length hle]

theorem dropComps_base {p : Str} {xs X : List (Comp × Nat × Nat)} {c : Comp} {st e : Nat}
    (hs : compSpans p = xs ++ (c, st, e) :: X) :
    dropComps p xs.length = (p.drop st).take (trimEnd p - st) := by
  simp [dropComps, hs]

theorem stripPrefix_of_components {p a : Str} {ys : List Comp}
    (h : components p = components a ++ ys) :
    stripPrefix p a = some (dropComps p (components a).length) := by
  simp [stripPrefix, h, isPrefixOf_append]

theorem components_length (p : Str) : (components p).length = (compSpans p).length := by
  simp [components]

/-- a non-empty relative path starts with a component -/
theorem compSpans_head_relative {r : Str} (hr : isAbsolute r = false) (hne : r ≠ []) :
    ∃ c e rest, compSpans r = (c, 0, e) :: rest := by
  cases r with
  | nil => exact absurd rfl hne
  | cons ch cs =>
    have hch : (ch == '/') = false := by simpa [isAbsolute] using hr
    have hcs := compSpans_relative hr
    cases hsp : splitSep cs with
    | nil => exact absurd hsp (splitSep_ne_nil cs)
    | cons x xs =>
      have hsplit : splitSep (ch :: cs) = (ch :: x) :: xs := by simp [splitSep, hch, hsp]
      rw [hsplit] at hcs
      simp only [piecesFrom, bodySpans] at hcs
      cases hpc : pieceComp true (ch :: x) with
      | none =>
        simp only [pieceComp, List.isEmpty_cons, Bool.false_eq_true, if_false, if_true] at hpc
        split at hpc
        · cases hpc
        · split at hpc <;> cases hpc
      | some c =>
        rw [hpc] at hcs
        exact ⟨c, _, _, hcs⟩

/-- `split_at_depth` of a join at the number of components of the relative operand: the trimmed
    base and the trimmed operand -/
theorem splitAtDepth_join_trim {r : Str} (b : Str) (hr : isAbsolute r = false) (hne : r ≠ [])
    (hc : Comp.cur ∉ components r) :
    splitAtDepth (join b r) (components r).length = (trim b, trim r) := by
  obtain ⟨c, e, rest, hhead⟩ := compSpans_head_relative hr hne
  have hs := compSpans_join b hr hc
  have hq := join_eq b hr
  have hcomp : components (join b r) = components b ++ components r := by
    simp only [components, hs, List.map_append, List.map_map]
    congr 1
  have hpos : 0 < (components r).length := by simp [components, hhead]
  have habs : (if isAbsolute (join b r) then 1 else 0) ≤ (components b).length := by
    split
    · rename_i h
      by_cases hb : b = []
      · subst hb; rw [join_nil, hr] at h; cases h
      · rw [hq, isAbsolute_append _ hb] at h
        rw [components_length]; exact compSpans_length_absolute h
    · omega
  have hanc : (ancestors (join b r))[(components r).length]? = some (trim b) := by
    rw [ancestors_getElem hpos (by rw [hcomp, List.length_append]; omega), hcomp,
      List.length_append, Nat.add_sub_cancel, components_length, takeComps_base hq hs]
  have hstrip : stripPrefix (join b r) (trim b) = some (trim r) := by
    have h1 : components (join b r) = components (trim b) ++ components r := by
      rw [components_trim, hcomp]
    rw [stripPrefix_of_components h1, components_trim, components_length]
    have hs' := hs
    rw [hhead] at hs'
    simp only [List.map_cons, shift] at hs'
    rw [dropComps_base hs']
    have hlast : trimEnd (join b r) = trimEnd r + (b.length + (glue b).length) := by
      simp only [trimEnd, hs, List.getLast?_append, List.getLast?_map]
      cases hl : (compSpans r).getLast? with
      | none => rw [List.getLast?_eq_none_iff.mp hl] at hhead; cases hhead
      | some x => simp [shift]
    rw [hlast, Nat.zero_add, Nat.add_sub_cancel, hq, ← List.append_assoc,
      List.drop_left' (by simp)]
    rfl
  simp [splitAtDepth, hanc, hstrip]

/-! ### names, `joinAll` -/

/-- a name walkdir can report below the root: not empty, no separator, not `.` or `..` -/
def nameOk (n : Str) : Bool := !n.isEmpty && n.all (· != '/') && n != ['.'] && n != ['.', '.']

theorem nameOk_iff {n : Str} :
    nameOk n = true ↔ n ≠ [] ∧ SepFree n ∧ n ≠ ['.'] ∧ n ≠ ['.', '.'] := by
  simp only [nameOk, Bool.and_eq_true, Bool.not_eq_true', List.isEmpty_eq_false_iff, bne_iff_ne,
    List.all_eq_true, SepFree, ne_eq, and_assoc]

theorem pieceComp_name {n : Str} (h : nameOk n = true) (f : Bool) :
    pieceComp f n = some (.normal n) := by
  obtain ⟨h1, _, h3, h4⟩ := nameOk_iff.mp h
  simp [pieceComp, h1, h3, h4]

theorem compSpans_name {n : Str} (h : nameOk n = true) :
    compSpans n = [(.normal n, 0, n.length)] := by
  rw [compSpans_sepFree (nameOk_iff.mp h).2.1, pieceComp_name h]

theorem components_name {n : Str} (h : nameOk n = true) : components n = [.normal n] := by
  simp [components, compSpans_name h]

theorem isAbsolute_name {n : Str} (h : nameOk n = true) : isAbsolute n = false :=
  isAbsolute_sepFree (nameOk_iff.mp h).2.1

theorem cur_notin_name {n : Str} (h : nameOk n = true) : Comp.cur ∉ components n := by
  simp [components_name h]

/-- `components (join b r) = components b ++ components r` for a relative `r` without `.` -/
theorem components_join {r : Str} (b : Str) (hr : isAbsolute r = false)
    (hc : Comp.cur ∉ components r) : components (join b r) = components b ++ components r := by
  simp only [components, compSpans_join b hr hc, List.map_append, List.map_map]
  congr 1

/-- in general a leading `.` of the operand is lost when the base is not empty -/
theorem components_join_filter {b r : Str} (hr : isAbsolute r = false) (hb : b ≠ []) :
    components (join b r) = components b ++ (components r).filter (· != .cur) := by
  have h1 : components (join b r)
      = components b ++ (bodySpans false (piecesFrom 0 (splitSep r))).map (·.1) := by
    simp only [components, compSpans_join_body hr hb, List.map_append, List.map_map]
    congr 1
  rw [h1]
  congr 1
  simp only [components, compSpans_relative hr]
  cases hsp : piecesFrom 0 (splitSep r) with
  | nil => rfl
  | cons x xs =>
    obtain ⟨st, w⟩ := x
    have hf : ∀ ys : List (Comp × Nat × Nat), (∀ y ∈ ys, y.1 ≠ Comp.cur) →
        (ys.map (·.1)).filter (· != Comp.cur) = ys.map (·.1) := by
      intro ys hys
      rw [List.filter_eq_self]
      intro c hc
      obtain ⟨y, hy, rfl⟩ := List.mem_map.mp hc
      exact (comp_bne _ _).mpr (hys y hy)
    have hrest := hf _ (bodySpans_false_no_cur xs)
    by_cases hw : w = ['.']
    · subst hw
      simp only [bodySpans, pieceComp]
      simp [hrest]
    · have e : pieceComp true w = pieceComp false w := by simp [pieceComp, hw]
      have h2 : bodySpans true ((st, w) :: xs) = bodySpans false ((st, w) :: xs) := by
        simp only [bodySpans, e]
      rw [h2, hf _ (bodySpans_false_no_cur _)]

theorem joinAll_append (b : Str) (xs ys : List Str) :
    joinAll b (xs ++ ys) = joinAll (joinAll b xs) ys := by
  induction xs generalizing b with
  | nil => rfl
  | cons x xs ih => simp [joinAll, ih]

theorem joinAll_snoc (b : Str) (xs : List Str) (n : Str) :
    joinAll b (xs ++ [n]) = join (joinAll b xs) n := by
  simp [joinAll_append, joinAll]

/-- (1) the components of the path walkdir reports: those of the root, then the names -/
theorem components_joinAll (base : Str) {names : List Str} (hok : ∀ n ∈ names, nameOk n = true) :
    components (joinAll base names) = components base ++ names.map .normal := by
  induction names generalizing base with
  | nil => simp [joinAll]
  | cons n ns ih =>
    have hn := hok n (List.mem_cons_self ..)
    rw [joinAll, ih _ (fun m hm => hok m (List.mem_cons_of_mem _ hm)),
      components_join base (isAbsolute_name hn) (cur_notin_name hn), components_name hn]
    simp

theorem glue_append (x : Str) {r : Str} (h : r ≠ []) : glue (x ++ r) = glue r := by
  obtain ⟨c, hc⟩ : ∃ c, r.getLast? = some c := by
    cases hl : r.getLast? with
    | none => exact absurd (List.getLast?_eq_none_iff.mp hl) h
    | some c => exact ⟨c, rfl⟩
  have h1 : (x ++ r).getLast? = r.getLast? := by simp [List.getLast?_append, hc]
  have h2 : (x ++ r).isEmpty = false := by simp [h]
  have h3 : r.isEmpty = false := by simp [h]
  simp [glue, h1, h2, h3]

theorem isAbsolute_join_rel {b r : Str} (hb : isAbsolute b = false) (hr : isAbsolute r = false) :
    isAbsolute (join b r) = false := by
  rw [join_eq b hr]
  by_cases h : b = []
  · subst h; simpa [glue] using hr
  · rw [isAbsolute_append _ h]; exact hb

theorem join_ne_nil {r : Str} (b : Str) (h : r ≠ []) : join b r ≠ [] := by
  by_cases hr : isAbsolute r = true
  · rwa [join_absolute b hr]
  · rw [join_eq b (by simpa using hr)]; simp [h]

/-- `join` is associative when the middle operand is not empty and the last one is relative -/
theorem join_assoc (a : Str) {r1 r2 : Str} (h1 : r1 ≠ []) (h2 : isAbsolute r2 = false) :
    join (join a r1) r2 = join a (join r1 r2) := by
  by_cases hr : isAbsolute r1 = true
  · have : isAbsolute (join r1 r2) = true := by
      rw [join_eq r1 h2, isAbsolute_append _ h1]; exact hr
    rw [join_absolute a hr, join_absolute a this]
  · have hr : isAbsolute r1 = false := by simpa using hr
    rw [join_eq _ h2, join_eq a hr, join_eq a (isAbsolute_join_rel hr h2), join_eq r1 h2]
    have : glue (a ++ (glue a ++ r1)) = glue r1 := by
      rw [← List.append_assoc]; exact glue_append _ h1
    rw [this]
    simp

theorem joinAll_join (a : Str) {r : Str} {names : List Str} (hr : r ≠ [])
    (hok : ∀ n ∈ names, nameOk n = true) :
    joinAll (join a r) names = join a (joinAll r names) := by
  induction names generalizing r with
  | nil => rfl
  | cons n ns ih =>
    have hn := hok n (List.mem_cons_self ..)
    have hn0 := (nameOk_iff.mp hn).1
    rw [joinAll, join_assoc a hr (isAbsolute_name hn),
      ih (join_ne_nil r hn0) (fun m hm => hok m (List.mem_cons_of_mem _ hm)), joinAll]

theorem isAbsolute_joinAll {r : Str} {names : List Str} (hr : isAbsolute r = false)
    (hok : ∀ n ∈ names, nameOk n = true) : isAbsolute (joinAll r names) = false := by
  induction names generalizing r with
  | nil => exact hr
  | cons n ns ih =>
    have hn := hok n (List.mem_cons_self ..)
    exact ih (isAbsolute_join_rel hr (isAbsolute_name hn))
      (fun m hm => hok m (List.mem_cons_of_mem _ hm))

theorem joinAll_ne_nil {r : Str} {names : List Str} (h : r ≠ [] ∨ names ≠ [])
    (hok : ∀ n ∈ names, nameOk n = true) : joinAll r names ≠ [] := by
  induction names generalizing r with
  | nil => rcases h with h | h; exact h; exact absurd rfl h
  | cons n ns ih =>
    have hn := hok n (List.mem_cons_self ..)
    exact ih (Or.inl (join_ne_nil r (nameOk_iff.mp hn).1))
      (fun m hm => hok m (List.mem_cons_of_mem _ hm))

/-- a path ending with a name is not changed by trimming -/
theorem trim_join_name (b : Str) {n : Str} (hn : nameOk n = true) : trim (join b n) = join b n := by
  apply trim_full
  have hs := compSpans_join b (isAbsolute_name hn) (cur_notin_name hn)
  rw [compSpans_name hn] at hs
  rw [trimEnd_of_last hs, join_length b (isAbsolute_name hn)]
  simp only; omega

theorem trim_joinAll (b : Str) {names : List Str} (hne : names ≠ [])
    (hok : ∀ n ∈ names, nameOk n = true) : trim (joinAll b names) = joinAll b names := by
  rw [← List.dropLast_concat_getLast hne, joinAll_snoc]
  exact trim_join_name _ (hok _ (List.getLast_mem hne))

/-! ### (2) `split_at_depth` on the path of an entry -/

theorem components_nil : components [] = [] := by simp [components, compSpans_nil]

theorem isPrefixOf_self (xs : List Comp) : isPrefixOf xs xs = true := by
  simpa using isPrefixOf_append xs []

/-- at depth 0 the path itself (not trimmed) and the empty path, whatever the path -/
theorem splitAtDepth_zero (p : Str) : splitAtDepth p 0 = (p, []) := by
  simp [splitAtDepth, ancestors_zero, stripPrefix, isPrefixOf_self, dropComps, components]

/-- the names below a directory, as one relative path -/
theorem joinAll_eq_join (b : Str) {ys : List Str} (hne : ys ≠ [])
    (hok : ∀ n ∈ ys, nameOk n = true) : joinAll b ys = join b (joinAll [] ys) := by
  cases ys with
  | nil => exact absurd rfl hne
  | cons y ys =>
    have hy := hok y (List.mem_cons_self ..)
    rw [joinAll, joinAll, join_nil,
      joinAll_join b (nameOk_iff.mp hy).1 (fun m hm => hok m (List.mem_cons_of_mem _ hm))]

theorem isAbsolute_nil : isAbsolute [] = false := rfl

theorem splitAtDepth_joinAll_append (base : Str) {xs ys : List Str} (hne : ys ≠ [])
    (hy : ∀ n ∈ ys, nameOk n = true) :
    splitAtDepth (joinAll base (xs ++ ys)) ys.length
      = (trim (joinAll base xs), joinAll [] ys) := by
  have hr : isAbsolute (joinAll [] ys) = false := isAbsolute_joinAll isAbsolute_nil hy
  have hcomp : components (joinAll [] ys) = ys.map .normal := by
    rw [components_joinAll [] hy, components_nil, List.nil_append]
  have hc : Comp.cur ∉ components (joinAll [] ys) := by simp [hcomp]
  have hlen : ys.length = (components (joinAll [] ys)).length := by simp [hcomp]
  rw [joinAll_append, joinAll_eq_join _ hne hy, hlen,
    splitAtDepth_join_trim _ hr (joinAll_ne_nil (Or.inr hne) hy) hc, trim_joinAll _ hne hy]

/-- (2) `split_at_depth` of `joinAll base names` at `0 < d ≤ names.length`: the ancestor is the
    base joined with all but the last `d` names -- trimmed, which matters only for `d = names.length`,
    where it removes trailing separators (and `.`) of the base; the descendant is the last `d`
    names joined -/
theorem splitAtDepth_join (base : Str) {names : List Str} (hok : ∀ n ∈ names, nameOk n = true)
    {d : Nat} (hpos : 0 < d) (hd : d ≤ names.length) :
    splitAtDepth (joinAll base names) d
      = (trim (joinAll base (names.take (names.length - d))),
         joinAll [] (names.drop (names.length - d))) := by
  have hlen : (names.drop (names.length - d)).length = d := by simp; omega
  have hne : names.drop (names.length - d) ≠ [] := by
    intro h; rw [h] at hlen; simp at hlen; omega
  have := splitAtDepth_joinAll_append base (xs := names.take (names.length - d)) hne
    (fun n hn => hok n (List.mem_of_mem_drop hn))
  rwa [List.take_append_drop, hlen] at this

/-- below the root of the walk nothing is trimmed -/
theorem splitAtDepth_join_inner (base : Str) {names : List Str}
    (hok : ∀ n ∈ names, nameOk n = true) {d : Nat} (hpos : 0 < d) (hd : d < names.length) :
    splitAtDepth (joinAll base names) d
      = (joinAll base (names.take (names.length - d)),
         joinAll [] (names.drop (names.length - d))) := by
  rw [splitAtDepth_join base hok hpos (Nat.le_of_lt hd), trim_joinAll]
  · intro h
    have := congrArg List.length h
    simp at this; omega
  · exact fun n hn => hok n (List.mem_of_mem_take hn)

/-- at the full depth: the trimmed base and the names -/
theorem splitAtDepth_join_root (base : Str) {names : List Str}
    (hok : ∀ n ∈ names, nameOk n = true) (hne : names ≠ []) :
    splitAtDepth (joinAll base names) names.length = (trim base, joinAll [] names) := by
  have hpos : 0 < names.length := List.length_pos_iff.mpr hne
  rw [splitAtDepth_join base hok hpos (Nat.le_refl _)]
  simp [joinAll]

/-- (2), as stated for a base that trimming leaves alone (`"r"`, `"/tmp/x"`, `"."`, `"a/.."`, `""`,
    `"/"`, but not `"r/"`, `"r/."`): every `d ≤ names.length` -/
theorem splitAtDepth_join_exact (base : Str) {names : List Str}
    (hok : ∀ n ∈ names, nameOk n = true) (hb : trim base = base) {d : Nat}
    (hd : d ≤ names.length) :
    splitAtDepth (joinAll base names) d
      = (joinAll base (names.take (names.length - d)),
         joinAll [] (names.drop (names.length - d))) := by
  by_cases h0 : d = 0
  · subst h0; simp [splitAtDepth_zero, joinAll]
  · rw [splitAtDepth_join base hok (by omega) hd]
    by_cases hl : d = names.length
    · subst hl; simp [joinAll, hb]
    · rw [trim_joinAll]
      · intro h
        have := congrArg List.length h
        simp at this; omega
      · exact fun n hn => hok n (List.mem_of_mem_take hn)

/-- (2) against `Wax/Proofs/Entry.lean`: on components the string-level function IS the list-level
    `splitAtDepthC`, for every `d ≤ names.length` and every base -/
theorem splitAtDepth_join_components (base : Str) {names : List Str}
    (hok : ∀ n ∈ names, nameOk n = true) {d : Nat} (hd : d ≤ names.length) :
    (components (splitAtDepth (joinAll base names) d).1,
      components (splitAtDepth (joinAll base names) d).2)
      = splitAtDepthC (components (joinAll base names)) d := by
  by_cases h0 : d = 0
  · subst h0; simp [splitAtDepth_zero, splitAtDepthC, components_nil]
  · rw [splitAtDepth_join base hok (by omega) hd]
    have h1 : ∀ n ∈ names.take (names.length - d), nameOk n = true :=
      fun n hn => hok n (List.mem_of_mem_take hn)
    have h2 : ∀ n ∈ names.drop (names.length - d), nameOk n = true :=
      fun n hn => hok n (List.mem_of_mem_drop hn)
    simp only [components_trim, components_joinAll _ h1, components_joinAll _ h2,
      components_joinAll _ hok, components_nil, List.nil_append, splitAtDepthC,
      List.length_append, List.length_map]
    have e : (components base).length + names.length - d
        = (components base).length + (names.length - d) := by omega
    rw [e, List.take_append, List.drop_append]
    simp [List.map_take, List.map_drop, List.take_of_length_le]

/-! ### (3) `join_and_get_depth` -/

/-- (3) a relative prefix without a `.` component: the pivot is its number of components -/
theorem joinAndGetDepth_relative (b : Str) {p : Str} (hr : isAbsolute p = false)
    (hc : Comp.cur ∉ components p) :
    joinAndGetDepth b p = (join b p, (components p).length) := by
  simp [joinAndGetDepth, hr, components_join b hr hc]

/-- (3) as stated: the components of the prefix are the normal components `ps` -/
theorem joinAndGetDepth_relative_normal (b : Str) {p : Str} {ps : List Str}
    (hr : isAbsolute p = false) (hps : components p = ps.map .normal) :
    joinAndGetDepth b p = (join b p, ps.length) := by
  rw [joinAndGetDepth_relative b hr (by simp [hps]), hps, List.length_map]

/-- any relative prefix, a non-empty base: a leading `.` of the prefix does not count -/
theorem joinAndGetDepth_relative_any {b p : Str} (hr : isAbsolute p = false) (hb : b ≠ []) :
    joinAndGetDepth b p = (join b p, ((components p).filter (· != .cur)).length) := by
  simp [joinAndGetDepth, hr, components_join_filter hr hb]

/-- (3) the recorded finding K-ENTRY-ROOTED-DEPTH: for an absolute prefix the base is dropped and
    the pivot is one MORE than the number of components of the root of the walk -/
theorem joinAndGetDepth_absolute (b : Str) {p : Str} (ha : isAbsolute p = true) :
    joinAndGetDepth b p = (p, (components p).length + 1) := by
  simp [joinAndGetDepth, ha, join_absolute b ha]

/-! ### beyond the last ancestor (what happens for K-ENTRY-ROOTED-DEPTH) -/

theorem ancestors_length (p : Str) :
    (ancestors p).length = 1 + ((components p).length - (if isAbsolute p then 1 else 0)) := by
  simp [ancestors]; omega

theorem first_span_start {p : Str} {c : Comp} {st e : Nat} {rest : List (Comp × Nat × Nat)}
    (h : compSpans p = (c, st, e) :: rest) : st = 0 := by
  by_cases ha : isAbsolute p = true
  · simp only [compSpans, ha, if_true, List.cons.injEq, Prod.mk.injEq] at h
    exact h.1.2.1.symm
  · have ha : isAbsolute p = false := by simpa using ha
    have hne : p ≠ [] := by
      intro hp; rw [hp, compSpans_nil] at h; cases h
    obtain ⟨c', e', rest', h'⟩ := compSpans_head_relative ha hne
    rw [h'] at h
    simp only [List.cons.injEq, Prod.mk.injEq] at h
    exact h.1.2.1.symm

/-- `strip_prefix("")` only trims -/
theorem dropComps_zero (p : Str) : dropComps p 0 = trim p := by
  cases h : compSpans p with
  | nil => simp [dropComps, h, trim, trimEnd]
  | cons x xs =>
    obtain ⟨c, st, e⟩ := x
    have := first_span_start h
    subst this
    simp [dropComps, h, trim]

/-- a depth beyond the last ancestor (`nth` fails, `unwrap_or("")`): an empty root segment, and
    the whole (trimmed) path as relative segment -/
theorem splitAtDepth_beyond {p : Str} {d : Nat}
    (h : (components p).length - (if isAbsolute p then 1 else 0) < d) :
    splitAtDepth p d = ([], trim p) := by
  have : (ancestors p)[d]? = none := by
    rw [List.getElem?_eq_none_iff, ancestors_length]; omega
  simp [splitAtDepth, this, stripPrefix, components_nil, isPrefixOf, dropComps_zero]

theorem isAbsolute_joinAll_abs {r : Str} {names : List Str} (hr : isAbsolute r = true)
    (hok : ∀ n ∈ names, nameOk n = true) : isAbsolute (joinAll r names) = true := by
  induction names generalizing r with
  | nil => exact hr
  | cons n ns ih =>
    have hn := hok n (List.mem_cons_self ..)
    have hne : r ≠ [] := by intro h; rw [h] at hr; cases hr
    refine ih ?_ (fun m hm => hok m (List.mem_cons_of_mem _ hm))
    rw [join_eq r (isAbsolute_name hn), isAbsolute_append _ hne]; exact hr

/-- K-ENTRY-ROOTED-DEPTH on strings: for an ABSOLUTE invariant prefix the walk is rooted at the
    prefix, the pivot is `(components pre).length + 1`, and for every entry `root_relative_paths`
    has an empty root segment and the whole entry path as relative segment, with ONE COMPONENT
    LESS than the depth the entry reports -/
theorem entry_rooted_off_by_one (base : Str) {pre : Str} {names : List Str}
    (ha : isAbsolute pre = true) (hok : ∀ n ∈ names, nameOk n = true) :
    let root := (joinAndGetDepth base pre).1
    let pivot := (joinAndGetDepth base pre).2
    root = pre
    ∧ splitAtDepth (joinAll root names) (names.length + pivot) = ([], trim (joinAll pre names))
    ∧ (components (trim (joinAll pre names))).length + 1 = names.length + pivot := by
  simp only [joinAndGetDepth_absolute base ha]
  have hcomp := components_joinAll pre hok
  refine ⟨trivial, ?_, ?_⟩
  · apply splitAtDepth_beyond
    rw [hcomp, isAbsolute_joinAll_abs ha hok]
    simp; omega
  · rw [components_trim, hcomp]; simp; omega

/-! ### (4) C14 for relative prefixes, on strings -/

/-- (4) the walk is rooted at `join base pre` (`pre` the invariant prefix of the glob: relative,
    not empty, no `.` component) with the pivot `join_and_get_depth` computes; for the entry with
    the names `names` below that root (walkdir depth `names.length`), `root_relative_paths` =
    `split_at_depth (names.length + pivot)` gives
    * as root segment the base (trimmed: without trailing separators),
    * as relative segment the prefix joined with the names (trimmed, which matters only when
      there are no names and the prefix ends with a separator),
    * whose components are those of the prefix, then the names,
    * and their number is the depth the entry reports, `names.length + pivot`. -/
theorem entry_root_relative (base : Str) {pre : Str} {names : List Str}
    (hr : isAbsolute pre = false) (hne : pre ≠ []) (hc : Comp.cur ∉ components pre)
    (hok : ∀ n ∈ names, nameOk n = true) :
    let root := (joinAndGetDepth base pre).1
    let pivot := (joinAndGetDepth base pre).2
    let rel := trim (joinAll pre names)
    splitAtDepth (joinAll root names) (names.length + pivot) = (trim base, rel)
    ∧ components rel = components pre ++ names.map .normal
    ∧ (components rel).length = names.length + pivot := by
  have hcomp : components (joinAll pre names) = components pre ++ names.map .normal :=
    components_joinAll pre hok
  have hr' : isAbsolute (joinAll pre names) = false := isAbsolute_joinAll hr hok
  have hc' : Comp.cur ∉ components (joinAll pre names) := by
    rw [hcomp]; simp; exact hc
  have hlen : names.length + (components pre).length = (components (joinAll pre names)).length := by
    rw [hcomp]; simp; omega
  simp only [joinAndGetDepth_relative base hr hc]
  refine ⟨?_, ?_, ?_⟩
  · rw [joinAll_join base hne hok, hlen,
      splitAtDepth_join_trim base hr' (joinAll_ne_nil (Or.inl hne) hok) hc']
  · rw [components_trim, hcomp]
  · rw [components_trim, ← hlen]

/-- (4) as stated: the components of the prefix are the normal components `ps`; the relative
    segment spells `ps ++ names` -/
theorem entry_root_relative_normal (base : Str) {pre : Str} {ps names : List Str}
    (hr : isAbsolute pre = false) (hne : pre ≠ []) (hps : components pre = ps.map .normal)
    (hok : ∀ n ∈ names, nameOk n = true) :
    joinAndGetDepth base pre = (join base pre, ps.length)
    ∧ splitAtDepth (joinAll (join base pre) names) (names.length + ps.length)
        = (trim base, trim (joinAll pre names))
    ∧ components (trim (joinAll pre names)) = (ps ++ names).map .normal
    ∧ (components (trim (joinAll pre names))).length = names.length + ps.length := by
  have hc : Comp.cur ∉ components pre := by simp [hps]
  have h := entry_root_relative base hr hne hc hok
  have hj := joinAndGetDepth_relative_normal base hr hps
  simp only [hj] at h
  refine ⟨hj, h.1, ?_, h.2.2⟩
  rw [h.2.1, hps, List.map_append]

/-- with names below the root the relative segment is not changed by the trimming -/
theorem entry_rel_untrimmed (pre : Str) {names : List Str} (hne : names ≠ [])
    (hok : ∀ n ∈ names, nameOk n = true) : trim (joinAll pre names) = joinAll pre names :=
  trim_joinAll pre hne hok

/-- (4) against `Wax/Proofs/Entry.lean`: the two segments are, on components, `splitAtDepthC` of
    the components of the entry path at `depth + pivot`; the root part is `root_is_base` -/
theorem entry_root_relative_components (base : Str) {pre : Str} {names : List Str}
    (hr : isAbsolute pre = false) (hne : pre ≠ []) (hc : Comp.cur ∉ components pre)
    (hok : ∀ n ∈ names, nameOk n = true) :
    let path := joinAll (join base pre) names
    let depth := names.length + (joinAndGetDepth base pre).2
    components path = components base ++ components pre ++ names.map .normal
    ∧ (components (splitAtDepth path depth).1, components (splitAtDepth path depth).2)
        = splitAtDepthC (components path) depth
    ∧ components (splitAtDepth path depth).1 = components base := by
  have h := entry_root_relative base hr hne hc hok
  simp only [joinAndGetDepth_relative base hr hc] at h ⊢
  have hp : components (joinAll (join base pre) names)
      = components base ++ components pre ++ names.map .normal := by
    rw [components_joinAll _ hok, components_join base hr hc]
  have hroot := root_is_base (components base) (components pre) (names.map Comp.normal)
  rw [List.length_map] at hroot
  refine ⟨hp, ?_, ?_⟩
  · rw [h.1, hp]
    simp only [components_trim, h.2.1]
    have := join_split_roundtrip (components base ++ components pre ++ names.map Comp.normal)
      (names.length + (components pre).length)
    rw [hroot] at this
    rw [Prod.ext_iff]
    refine ⟨hroot.symm, ?_⟩
    exact (List.append_cancel_left (this.trans (List.append_assoc ..))).symm
  · rw [h.1, components_trim]

end Wax.Path

namespace Wax.Walk
open Wax Wax.Path

/-! ### the same on the walk model: `anchor` and `Pipeline.relativeFor` -/

theorem anchor_empty (κ : Casing) (t : Tok) (base : Str)
    (h : (invariantTextPrefix κ t).2 = []) : anchor κ t base = (base, 0) := by
  simp [anchor, h]

/-- `Glob::anchor` for a relative invariant prefix: the root of the walk is `join base pre`, the
    pivot the number of components of `pre` -/
theorem anchor_relative (κ : Casing) (t : Tok) (base : Str)
    (hne : (invariantTextPrefix κ t).2 ≠ [])
    (hr : isAbsolute (invariantTextPrefix κ t).2 = false)
    (hc : Comp.cur ∉ components (invariantTextPrefix κ t).2) :
    anchor κ t base
      = (join base (invariantTextPrefix κ t).2, (components (invariantTextPrefix κ t).2).length) := by
  have : (invariantTextPrefix κ t).2.isEmpty = false := by simpa using hne
  simp only [anchor, this]
  exact joinAndGetDepth_relative base hr hc

/-- K-ENTRY-ROOTED-DEPTH at the anchor: a rooted invariant prefix replaces the base, and the pivot
    is one more than the number of components of the root of the walk -/
theorem anchor_absolute (κ : Casing) (t : Tok) (base : Str)
    (ha : isAbsolute (invariantTextPrefix κ t).2 = true) :
    anchor κ t base
      = ((invariantTextPrefix κ t).2, (components (invariantTextPrefix κ t).2).length + 1) := by
  have : (invariantTextPrefix κ t).2.isEmpty = false := by
    cases h : (invariantTextPrefix κ t).2 with
    | nil => rw [h] at ha; cases ha
    | cons c cs => rfl
  simp only [anchor, this]
  exact joinAndGetDepth_absolute base ha

/-- C14 for a filtrate of a glob walk with a relative invariant prefix: the root segment is the
    directory given to `walk` (trimmed), the relative segment is the prefix joined with the names
    of the entry, and it has as many components as the depth the entry reports -/
theorem relativeFor_filtrate (π : Pipeline) (g : GlobProgram) (κ : Casing) (t : Tok) (base : Str)
    (e : Entry) (hg : π.glob = some g) (ha : anchor κ t base = (π.root, g.pivot))
    (hne : (invariantTextPrefix κ t).2 ≠ [])
    (hr : isAbsolute (invariantTextPrefix κ t).2 = false)
    (hc : Comp.cur ∉ components (invariantTextPrefix κ t).2)
    (hok : ∀ n ∈ e.names, nameOk n = true) :
    π.relativeFor e .filtrate = (trim base, trim (joinAll (invariantTextPrefix κ t).2 e.names))
    ∧ components (π.relativeFor e .filtrate).2
        = components (invariantTextPrefix κ t).2 ++ e.names.map .normal
    ∧ (components (π.relativeFor e .filtrate).2).length = e.depth + g.pivot := by
  rw [anchor_relative κ t base hne hr hc] at ha
  have h1 : π.root = join base (invariantTextPrefix κ t).2 := (Prod.ext_iff.mp ha).1.symm
  have h2 : g.pivot = (components (invariantTextPrefix κ t).2).length := (Prod.ext_iff.mp ha).2.symm
  have h := entry_root_relative base hr hne hc hok
  simp only [joinAndGetDepth_relative base hr hc] at h
  have hrel : π.relativeFor e .filtrate
      = (trim base, trim (joinAll (invariantTextPrefix κ t).2 e.names)) := by
    simp only [Pipeline.relativeFor, Pipeline.path, Pipeline.pivot, hg, h1, h2, Entry.depth,
      if_true]
    exact h.1
  refine ⟨hrel, ?_, ?_⟩
  · rw [hrel]; exact h.2.1
  · rw [hrel, h2]; exact h.2.2

/-- a glob without invariant prefix, or `PathExt::walk`: pivot 0, the root segment is the (trimmed)
    root of the walk and the relative segment the names of the entry -/
theorem relativeFor_no_pivot (π : Pipeline) (e : Entry) (s : Sepn) (hp : π.pivot = 0)
    (hne : e.names ≠ []) (hok : ∀ n ∈ e.names, nameOk n = true) :
    π.relativeFor e s = (trim π.root, joinAll [] e.names) := by
  simp only [Pipeline.relativeFor, Pipeline.path, hp, Entry.depth]
  have : e.names.length + (if s = Sepn.filtrate then 0 else 0) = e.names.length := by
    split <;> rfl
  rw [this]
  exact splitAtDepth_join_root π.root hok hne

/-- what a combinator sees of an entry that is residue already (the pivot is lost, finding
    K-NOT-RESIDUE-PIVOT): the root segment is the ROOT OF THE WALK, prefix included, and the relative
    segment the names alone -/
theorem relativeFor_residue (π : Pipeline) (e : Entry) (s : Sepn) (hs : s ≠ .filtrate)
    (hne : e.names ≠ []) (hok : ∀ n ∈ e.names, nameOk n = true) :
    π.relativeFor e s = (trim π.root, joinAll [] e.names) := by
  simp only [Pipeline.relativeFor, Pipeline.path, hs, if_false, Entry.depth, Nat.add_zero]
  exact splitAtDepth_join_root π.root hok hne

end Wax.Walk

/-! ### the hypotheses are satisfiable, and what happens without them -/
namespace Wax.Path.Examples
open Wax Wax.Path Wax.Walk

/-- a string literal as a `Str` (reduces in the kernel) -/
abbrev S (x : String) : Str := x.toList

/-! #### instances (the theorems are not vacuous) -/

example : ∀ n ∈ [S "n1", S "n2", S "n3"], nameOk n = true := by decide

/-- (1) on a base with trailing separators -/
example : components (joinAll (S "r//") [S "n1", S "n2"])
    = [.normal (S "r"), .normal (S "n1"), .normal (S "n2")] :=
  (components_joinAll (S "r//") (names := [S "n1", S "n2"]) (by decide)).trans (by decide)

/-- (2) inside: nothing is trimmed -/
example : splitAtDepth (joinAll (S "r//") [S "n1", S "n2", S "n3"]) 2 = (S "r//n1", S "n2/n3") :=
  (splitAtDepth_join_inner (S "r//") (names := [S "n1", S "n2", S "n3"]) (by decide) (d := 2)
    (by decide) (by decide)).trans (by decide)

/-- (2) at the full depth: the base is trimmed -/
example : splitAtDepth (joinAll (S "r//") [S "n1", S "n2", S "n3"]) 3 = (S "r", S "n1/n2/n3") :=
  (splitAtDepth_join_root (S "r//") (names := [S "n1", S "n2", S "n3"]) (by decide)
    (by decide)).trans (by decide)

/-- (2) exact: bases that trimming leaves alone -/
example : ∀ b ∈ [S "r", S "/tmp/x", S ".", S "a/..", S "", S "/", S ".."], trim b = b := by decide
example : splitAtDepth (joinAll (S "/tmp/x") [S "n1", S "n2"]) 2 = (S "/tmp/x", S "n1/n2") :=
  (splitAtDepth_join_exact (S "/tmp/x") (names := [S "n1", S "n2"]) (by decide) (by decide)
    (d := 2) (by decide)).trans (by decide)

/-- (3) a prefix as `invariant_text_prefix` produces it (ending with its separator) -/
example : isAbsolute (S "a/b/") = false ∧ components (S "a/b/") = [S "a", S "b"].map .normal := by
  decide
example : joinAndGetDepth (S "r") (S "a/b/") = (S "r/a/b/", 2) :=
  (joinAndGetDepth_relative_normal (S "r") (p := S "a/b/") (ps := [S "a", S "b"]) (by decide)
    (by decide)).trans (by decide)

/-- (3) `..` in the prefix is fine -/
example : joinAndGetDepth (S "r/") (S "../b/") = (S "r/../b/", 2) :=
  (joinAndGetDepth_relative (S "r/") (p := S "../b/") (by decide) (by decide)).trans (by decide)

example : joinAndGetDepth (S "r") (S "/tmp") = (S "/tmp", 3) :=
  (joinAndGetDepth_absolute (S "r") (p := S "/tmp") (by decide)).trans (by decide)

/-- (4) -/
example : splitAtDepth (joinAll (join (S "r/") (S "a/b/")) [S "n1", S "n2"]) (2 + 2)
    = (S "r", S "a/b/n1/n2") := by
  have h := (entry_root_relative_normal (S "r/") (pre := S "a/b/") (ps := [S "a", S "b"])
    (names := [S "n1", S "n2"]) (by decide) (by decide) (by decide) (by decide)).2.1
  exact h.trans (by decide)

/-- (4) with no names the trailing separator of the prefix is trimmed from the relative segment -/
example : splitAtDepth (join (S "r") (S "a/b/")) 2 = (S "r", S "a/b") := by
  have h := (entry_root_relative_normal (S "r") (pre := S "a/b/") (ps := [S "a", S "b"])
    (names := []) (by decide) (by decide) (by decide) (by decide)).2.1
  exact h.trans (by decide)

def κ0 : Casing := ⟨fun _ => false⟩
/-- `a/b/*` -/
def t0 : Tok := .cat ⟨0, 5⟩
  [.lit ⟨0, 1⟩ ['a'] false, .sep ⟨1, 1⟩, .lit ⟨2, 1⟩ ['b'] false, .sep ⟨3, 1⟩, .zom ⟨4, 1⟩ false]
def π0 : Pipeline := ⟨⟨fun a b => a == b, true⟩, S "r/a/b/", some ⟨.never, [], 2⟩, []⟩

example : invariantTextPrefix κ0 t0 = (4, S "a/b/") := by decide

/-- the walk-level statement on `a/b/*` walked from `r`: all hypotheses hold -/
example : π0.relativeFor ⟨[S "n1"], .f⟩ .filtrate = (S "r", S "a/b/n1") := by
  have h := (relativeFor_filtrate π0 ⟨.never, [], 2⟩ κ0 t0 (S "r") ⟨[S "n1"], .f⟩ rfl (by decide)
    (by decide) (by decide) (by decide) (by decide)).1
  exact h.trans (by decide)

/-- K-NOT-RESIDUE-PIVOT: the same entry as residue -/
example : π0.relativeFor ⟨[S "n1"], .f⟩ .node = (S "r/a/b", S "n1") :=
  (relativeFor_residue π0 ⟨[S "n1"], .f⟩ .node (by decide) (by decide) (by decide)).trans
    (by decide)

/-- K-ENTRY-ROOTED-DEPTH: `/tmp/*`, the entry `/tmp/n1` reports depth 1 + 3 = 4 and its relative
    segment `/tmp/n1` has 3 components -/
example : splitAtDepth (joinAll (S "/tmp") [S "n1"]) (1 + 3) = ([], S "/tmp/n1")
    ∧ (components (S "/tmp/n1")).length = 3 := by
  have h := (entry_rooted_off_by_one (S "r") (pre := S "/tmp") (names := [S "n1"]) (by decide)
    (by decide)).2.1
  exact ⟨h.trans (by decide), by decide⟩

/-! #### what fails without the hypotheses (std::path quirks; all by evaluation) -/

/-- a name `.` is no component: (1) fails, and the split at the "depth" 2 takes the base too -/
theorem quirk_name_dot :
    components (joinAll (S "r") [S ".", S "n"]) = [.normal (S "r"), .normal (S "n")]
    ∧ splitAtDepth (joinAll (S "r") [S ".", S "n"]) 2 = (S "", S "r/./n") := by decide

/-- a name `..` is a component, but not a normal one ((2) happens to hold) -/
theorem quirk_name_dotdot :
    components (joinAll (S "r") [S "..", S "n"]) = [.normal (S "r"), .parent, .normal (S "n")]
    ∧ splitAtDepth (joinAll (S "r") [S "..", S "n"]) 2 = (S "r", S "../n") := by decide

/-- an empty name only adds a separator -/
theorem quirk_name_empty :
    joinAll (S "r") [S ""] = S "r/" ∧ components (S "r/") = [.normal (S "r")]
    ∧ splitAtDepth (joinAll (S "r") [S ""]) 1 = (S "", S "r") := by decide

/-- a name with a separator is two components; an absolute name replaces the path -/
theorem quirk_name_sep :
    splitAtDepth (joinAll (S "r") [S "a/b"]) 1 = (S "r/a", S "b")
    ∧ joinAll (S "r") [S "/b"] = S "/b" := by decide

/-- (2) in its exact form is FALSE for a base that trimming changes: at the full depth the root
    segment is `"r"`, not `"r//"` (`"r/."` and `"./"` alike) -- while at depth 0 (the root entry
    of the walk) the root segment is the untrimmed base -/
theorem quirk_base_trailing :
    splitAtDepth (joinAll (S "r//") [S "n"]) 1 = (S "r", S "n")
    ∧ splitAtDepth (joinAll (S "r//") [S "n"]) 1
        ≠ (joinAll (S "r//") ([S "n"].take 0), joinAll [] ([S "n"].drop 0))
    ∧ splitAtDepth (joinAll (S "r/.") [S "n"]) 1 = (S "r", S "n")
    ∧ splitAtDepth (joinAll (S "./") [S "n"]) 1 = (S ".", S "n")
    ∧ splitAtDepth (joinAll (S "//") [S "n"]) 1 = (S "/", S "n")
    ∧ splitAtDepth (S "r//") 0 = (S "r//", S "") := by decide

/-- bases one might suspect and that are fine: empty, `.`, ending in `..` -/
theorem quirk_base_fine :
    splitAtDepth (joinAll (S "") [S "n1", S "n2"]) 2 = (S "", S "n1/n2")
    ∧ splitAtDepth (joinAll (S ".") [S "n1", S "n2"]) 2 = (S ".", S "n1/n2")
    ∧ splitAtDepth (joinAll (S "a/..") [S "n1", S "n2"]) 2 = (S "a/..", S "n1/n2")
    ∧ splitAtDepth (joinAll (S "a/..") [S "n1", S "n2"]) 3 = (S "a", S "../n1/n2") := by decide

/-- `join` with an empty operand appends a separator -/
theorem quirk_join_empty : join (S "r") (S "") = S "r/" ∧ join (S "r/") (S "") = S "r/" := by
  decide

/-- (3) is FALSE for a prefix with a leading `.`: below a non-empty base the `.` is no component
    of the joined path, so the pivot is 1, not 2 -- but below the empty base it is 2.  Either way
    the pivot is the right one for C14 -/
theorem quirk_prefix_cur :
    (components (S "./x")).length = 2
    ∧ joinAndGetDepth (S "r") (S "./x") = (S "r/./x", 1)
    ∧ joinAndGetDepth (S "") (S "./x") = (S "./x", 2)
    ∧ splitAtDepth (joinAll (S "r/./x") [S "n"]) (1 + 1) = (S "r", S "x/n")
    ∧ splitAtDepth (joinAll (S "./x") [S "n"]) (1 + 2) = (S "", S "./x/n") := by decide

/-- the negation of (3) without its hypothesis -/
theorem joinAndGetDepth_relative_needs_no_cur :
    ¬ ∀ b p : Str, isAbsolute p = false →
        joinAndGetDepth b p = (join b p, (components p).length) := by
  intro h
  exact absurd (h (S "r") (S "./x") (by decide)) (by decide)

/-- the negation of (2) in its exact form without `trim base = base` -/
theorem splitAtDepth_join_exact_needs_trimmed :
    ¬ ∀ (base : Str) (names : List Str) (d : Nat), (∀ n ∈ names, nameOk n = true) →
        d ≤ names.length →
        splitAtDepth (joinAll base names) d
          = (joinAll base (names.take (names.length - d)),
             joinAll [] (names.drop (names.length - d))) := by
  intro h
  exact absurd (h (S "r/") [S "n"] 1 (by decide) (by decide)) (by decide)

/-- the negation of (1) without the hypothesis on names -/
theorem components_joinAll_needs_names :
    ¬ ∀ (base : Str) (names : List Str),
        components (joinAll base names) = components base ++ names.map .normal := by
  intro h
  exact absurd (h (S "r") [S "."]) (by decide)

/-- `Path::ancestors` counts components, not separators: interior `.` and repeated separators
    are skipped in one step -/
theorem quirk_ancestors :
    ancestors (S "a/./b/.") = [S "a/./b/.", S "a", S ""]
    ∧ ancestors (S "/x//y/") = [S "/x//y/", S "/x", S "/"] := by decide

end Wax.Path.Examples
