import Wax.Nest
import Wax.Rule
import Wax.Proofs.ParseShape
import Wax.Proofs.EncodeSpec
/-! C05: the nesting depth of the emitted regular expression is linear in the height of the token
tree, so shallow trees cannot hit regex-syntax's `nest_limit` (the "failed to compile glob" panic).

* `nest_bound` : `patternNest t ≤ 3 * t.height + 5` for every token tree;
* `nest_bound_cat` : `patternNest (.cat sp ts) ≤ max 7 (3 * height + 2) ≤ 3 * height + 4` when the
  root is a concatenation, which is what the parser produces;
* the bound `3 * t.height + 4` for *every* tree is false (`nest_bound_plus4_false`): a bare class
  at the root has height 0 and nesting 5;
* the families `repN` / `altN` show that the slope 3 cannot be improved.
-/
set_option linter.unusedSimpArgs false
set_option linter.unusedVariables false
namespace Wax

/-! ### lists of numbers -/

theorem maxL_append : ∀ (a b : List Nat), maxL (a ++ b) = max (maxL a) (maxL b)
  | [], b => by simp [maxL]
  | x :: a, b => by simp only [List.cons_append, maxL, maxL_append a b]; omega

/-! ### the nesting of an element of a concatenation, nested concatenations flattened -/

/-- what `r` contributes to the concatenation it sits in -/
def fl (r : Re) : Nat := maxL (Re.flat [r])

def Re.isCat : Re → Bool | .cat _ => true | _ => false

theorem flat_nil : Re.flat [] = [] := by simp [Re.flat]

theorem flat_cons (r : Re) (rs : List Re) :
    maxL (Re.flat (r :: rs)) = max (fl r) (maxL (Re.flat rs)) := by
  cases r <;> simp [fl, Re.flat, maxL, maxL_append]

theorem fl_cat (l : List Re) : fl (.cat l) = maxL (Re.flat l) := by
  simp [fl, Re.flat, maxL]

theorem fl_of_not_cat (r : Re) (h : r.isCat = false) : fl r = r.nest := by
  cases r with
  | cat l => simp [Re.isCat] at h
  | _ => simp [fl, Re.flat, maxL]

theorem nestCat_le (l : List Re) : Re.nestCat l ≤ 1 + maxL (Re.flat l) := by
  unfold Re.nestCat
  split
  · omega
  · rename_i h; rw [h]; simp [maxL]
  · omega

theorem nestAlt_le (l : List Re) : Re.nestAlt l ≤ 1 + maxL (Re.nestAlts l) := by
  unfold Re.nestAlt
  split
  · omega
  · rename_i h; rw [h]; simp [maxL]
  · omega

/-- a one-element concatenation adds no level, whatever the element is -/
theorem nestCat_single (x : Re) : Re.nestCat [x] = x.nest := by
  cases x with
  | cat l =>
    rw [Re.nest]
    unfold Re.nestCat
    simp [Re.flat]
  | _ => simp [Re.nestCat, Re.flat]

theorem nest_G (c : Bool) (r : Re) : (G c r).nest = 1 + r.nest := by
  cases c <;> simp [G, Re.nest]

theorem isCat_G (c : Bool) (r : Re) : (G c r).isCat = false := by
  cases c <;> rfl

/-! ### tree wildcards -/

theorem nest_siteIntermediate (c : Bool) : (siteIntermediate c).nest = 6 := by
  cases c <;>
    simp [siteIntermediate, G, anyStar, Re.nest, Re.nestAlt, Re.nestAlts, Re.nestCat, Re.flat, maxL,
      CharPred.nest]
theorem nest_siteFirstRooted (c : Bool) : (siteFirstRooted c).nest = 4 := by
  cases c <;>
    simp [siteFirstRooted, G, anyStar, Re.nest, Re.nestAlt, Re.nestAlts, Re.nestCat, Re.flat, maxL,
      CharPred.nest]
theorem nest_siteFirstUnrooted (c : Bool) : (siteFirstUnrooted c).nest = 5 := by
  cases c <;>
    simp [siteFirstUnrooted, G, anyStar, Re.nest, Re.nestAlt, Re.nestAlts, Re.nestCat, Re.flat, maxL,
      CharPred.nest]
theorem nest_siteLast (c : Bool) : (siteLast c).nest = 5 := by
  cases c <;>
    simp [siteLast, G, anyStar, Re.nest, Re.nestAlt, Re.nestAlts, Re.nestCat, Re.flat, maxL,
      CharPred.nest]
theorem nest_siteOnly (c : Bool) : (siteOnly c).nest = 2 := by
  cases c <;> simp [siteOnly, G, anyStar, Re.nest, CharPred.nest]
theorem nest_siteOnlyRooted (c : Bool) : (siteOnlyRooted c).nest = 3 := by
  cases c <;>
    simp [siteOnlyRooted, G, anyStar, Re.nest, Re.nestCat, Re.flat, maxL, CharPred.nest]

theorem encodeTree_cases (c : Bool) (sup : Option Pos) (p : Pos) (r : Bool) :
    encodeTree c sup p r = siteIntermediate c ∨ encodeTree c sup p r = siteFirstRooted c ∨
    encodeTree c sup p r = siteFirstUnrooted c ∨ encodeTree c sup p r = siteLast c ∨
    encodeTree c sup p r = siteOnly c ∨ encodeTree c sup p r = siteOnlyRooted c := by
  unfold encodeTree
  cases p <;> simp only <;> (repeat' split) <;> simp

theorem encodeTree_only (c : Bool) (sup : Option Pos) (r : Bool) :
    encodeTree c sup .only r = siteOnly c ∨ encodeTree c sup .only r = siteOnlyRooted c := by
  unfold encodeTree
  simp only
  split <;> simp

theorem isCat_encodeTree (c : Bool) (sup : Option Pos) (p : Pos) (r : Bool) :
    (encodeTree c sup p r).isCat = false := by
  rcases encodeTree_cases c sup p r with h | h | h | h | h | h <;> rw [h] <;> cases c <;> rfl

theorem nest_encodeTree_le (c : Bool) (sup : Option Pos) (p : Pos) (r : Bool) :
    (encodeTree c sup p r).nest ≤ 6 := by
  rcases encodeTree_cases c sup p r with h | h | h | h | h | h <;> rw [h] <;>
    simp [nest_siteIntermediate, nest_siteFirstRooted, nest_siteFirstUnrooted, nest_siteLast,
      nest_siteOnly, nest_siteOnlyRooted]

theorem nest_encodeTree_only_le (c : Bool) (sup : Option Pos) (r : Bool) :
    (encodeTree c sup .only r).nest ≤ 3 := by
  rcases encodeTree_only c sup r with h | h <;> rw [h] <;>
    simp [nest_siteOnly, nest_siteOnlyRooted]

/-! ### leaves -/

theorem nest_lit_le (s : Str) (ci : Bool) : (Re.lit s ci).nest ≤ 2 := by
  simp only [Re.nest]; split <;> omega

theorem nest_cls_le (c neg : Bool) (items : List Arch) :
    (G c (if classValid items then .chr (.cls neg items) else .never)).nest ≤ 4 := by
  rw [nest_G]
  split
  · cases neg <;> simp [Re.nest, CharPred.nest]
  · simp [Re.nest]

/-! ### the body of a repetition / a branch of an alternation -/

/- `concRe`, `encodeTok_rep`, `encodeBranches_cons` are in `Proofs/EncodeSpec.lean` -/

/-- the grouping concatenation of a sub-glob nests exactly as the sub-glob encoded alone -/
theorem nest_concRe (sup : Option Pos) (b : Tok) :
    (concRe sup b).nest = (encodeTok false sup .only b).nest := by
  cases b <;> first
    | rfl
    | (simp only [concRe]; rw [Re.nest, nestCat_single])

/-! ### the bound -/

mutual
  /-- an encoded token contributes at most `max 6 (3h + 4)` to its concatenation, and nests at
      most `3h + 4` itself unless it is a tree wildcard with neighbours (then 6) -/
  theorem tok_bound : ∀ (t : Tok) (c : Bool) (sup : Option Pos) (p : Pos),
      fl (encodeTok c sup p t) ≤ max 6 (3 * t.height + 4) ∧
      ((t.isTreeT = false ∨ p = .only) → (encodeTok c sup p t).nest ≤ 3 * t.height + 4)
    | .lit sp s ci, c, sup, p => by
      have h := nest_lit_le s ci
      have e : fl (encodeTok c sup p (.lit sp s ci)) = (Re.lit s ci).nest := fl_of_not_cat _ rfl
      rw [e]; simp only [encodeTok]
      exact ⟨by omega, fun _ => by omega⟩
    | .sep sp, c, sup, p => by
      have e : fl (encodeTok c sup p (.sep sp)) = (Re.chr .sepc).nest := fl_of_not_cat _ rfl
      rw [e]; simp only [encodeTok, Re.nest, CharPred.nest]
      exact ⟨by omega, fun _ => by omega⟩
    | .cls sp neg items, c, sup, p => by
      have h := nest_cls_le c neg items
      have e : fl (encodeTok c sup p (.cls sp neg items)) =
          (G c (if classValid items then .chr (.cls neg items) else .never)).nest :=
        fl_of_not_cat _ (isCat_G _ _)
      rw [e]; simp only [encodeTok]
      exact ⟨by omega, fun _ => by omega⟩
    | .one sp, c, sup, p => by
      have e : fl (encodeTok c sup p (.one sp)) = (G c (.chr .nsep)).nest :=
        fl_of_not_cat _ (isCat_G _ _)
      rw [e]; simp only [encodeTok, nest_G, Re.nest, CharPred.nest]
      exact ⟨by omega, fun _ => by omega⟩
    | .zom sp false, c, sup, p => by
      have e : fl (encodeTok c sup p (.zom sp false)) = (G c (.star (.chr .nsep))).nest :=
        fl_of_not_cat _ (isCat_G _ _)
      rw [e]; simp only [encodeTok, nest_G, Re.nest, CharPred.nest]
      exact ⟨by omega, fun _ => by omega⟩
    | .zom sp true, c, sup, p => by
      have e : fl (encodeTok c sup p (.zom sp true)) = (G c (.lazyStar (.chr .nsep))).nest :=
        fl_of_not_cat _ (isCat_G _ _)
      rw [e]; simp only [encodeTok, nest_G, Re.nest, CharPred.nest]
      exact ⟨by omega, fun _ => by omega⟩
    | .tree sp r, c, sup, p => by
      have e : fl (encodeTok c sup p (.tree sp r)) = (encodeTree c sup p r).nest :=
        fl_of_not_cat _ (isCat_encodeTree c sup p r)
      rw [e]; simp only [encodeTok]
      have h := nest_encodeTree_le c sup p r
      refine ⟨by omega, fun hp => ?_⟩
      rcases hp with hp | hp
      · simp [Tok.isTreeT] at hp
      · subst hp
        have := nest_encodeTree_only_le c sup r
        omega
    | .alt sp bs, c, sup, p => by
      have hb := branches_bound bs (supOr sup p)
      have hn : (encodeTok c sup p (.alt sp bs)).nest ≤ 3 * (Tok.alt sp bs).height + 4 := by
        simp only [encodeTok, nest_G, Re.nest, Tok.height]
        have := nestAlt_le (encodeBranches (supOr sup p) bs)
        omega
      have e : fl (encodeTok c sup p (.alt sp bs)) = (encodeTok c sup p (.alt sp bs)).nest :=
        fl_of_not_cat _ (isCat_G _ _)
      rw [e]
      exact ⟨by omega, fun _ => hn⟩
    | .rep sp b lo hi, c, sup, p => by
      have hb := (tok_bound b false (supOr sup p) .only).2 (Or.inr rfl)
      have hn : (encodeTok c sup p (.rep sp b lo hi)).nest ≤ 3 * (Tok.rep sp b lo hi).height + 4 := by
        rw [encodeTok_rep]
        simp only [nest_G, Re.nest, Tok.height, nest_concRe]
        omega
      have e : fl (encodeTok c sup p (.rep sp b lo hi)) = (encodeTok c sup p (.rep sp b lo hi)).nest := by
        rw [encodeTok_rep]; exact fl_of_not_cat _ (isCat_G _ _)
      rw [e]
      exact ⟨by omega, fun _ => hn⟩
    | .cat sp ts, c, sup, p => by
      have hl := list_bound ts c sup 0 ts.length
      simp only [encodeTok, fl_cat, Re.nest, Tok.height]
      have := nestCat_le (encodeList c sup ts 0 ts.length)
      exact ⟨by omega, fun _ => by omega⟩
  /-- the elements of an encoded concatenation -/
  theorem list_bound : ∀ (ts : List Tok) (c : Bool) (sup : Option Pos) (i n : Nat),
      maxL (Re.flat (encodeList c sup ts i n)) ≤ max 6 (3 * heightL ts + 4)
    | [], c, sup, i, n => by simp [encodeList, flat_nil, maxL]
    | t :: ts, c, sup, i, n => by
      have h1 := (tok_bound t c sup (posOf i n)).1
      have h2 := list_bound ts c sup (i + 1) n
      simp only [encodeList, flat_cons, heightL]
      omega
  /-- the alternatives of an encoded alternation -/
  theorem branches_bound : ∀ (bs : List Tok) (sup : Option Pos),
      maxL (Re.nestAlts (encodeBranches sup bs)) ≤ 3 * heightL bs + 5
    | [], sup => by simp [encodeBranches, Re.nestAlts, maxL]
    | b :: bs, sup => by
      have h1 := (tok_bound b false sup .only).2 (Or.inr rfl)
      have h2 := branches_bound bs sup
      rw [encodeBranches_cons]
      simp only [Re.nestAlts, maxL, Re.nest, nest_concRe, heightL]
      omega
end

/-! ### the whole pattern -/

theorem patternNest_cat (sp : Span) (ts : List Tok) :
    patternNest (.cat sp ts) = 1 + maxL (Re.flat (encodeList true none ts 0 ts.length)) := by
  simp [patternNest, encodeTop]

theorem patternNest_other (t : Tok) (h : isCatT t = false) :
    patternNest t = 1 + fl (encodeTok true none .only t) := by
  cases t with
  | cat sp ts => simp [isCatT] at h
  | _ => simp [patternNest, encodeTop, fl]

theorem fl_encode_not_cat (t : Tok) (hc : isCatT t = false) (c : Bool) (sup : Option Pos) (p : Pos) :
    fl (encodeTok c sup p t) = (encodeTok c sup p t).nest := by
  cases t with
  | cat sp ts => simp [isCatT] at hc
  | rep sp b lo hi => rw [encodeTok_rep]; exact fl_of_not_cat _ (isCat_G _ _)
  | tree sp r => exact fl_of_not_cat _ (isCat_encodeTree _ _ _ _)
  | lit sp s ci => exact fl_of_not_cat _ rfl
  | sep sp => exact fl_of_not_cat _ rfl
  | zom sp l => cases l <;> exact fl_of_not_cat _ (isCat_G _ _)
  | _ => exact fl_of_not_cat _ (isCat_G _ _)

/-- **concatenation at the root** (every parsed expression): `max 7 (3h + 2)` -/
theorem nest_bound_cat_sharp (sp : Span) (ts : List Tok) :
    patternNest (.cat sp ts) ≤ max 7 (3 * (Tok.cat sp ts).height + 2) := by
  have := list_bound ts true none 0 ts.length
  rw [patternNest_cat]; simp only [Tok.height]; omega

/-- **concatenation at the root**, in the form asked for -/
theorem nest_bound_cat (sp : Span) (ts : List Tok) :
    patternNest (.cat sp ts) ≤ 3 * (Tok.cat sp ts).height + 4 := by
  have := nest_bound_cat_sharp sp ts
  simp only [Tok.height] at this ⊢; omega

/-- **every token tree**: the nesting of the emitted expression is at most `3 * height + 5` -/
theorem nest_bound (t : Tok) : patternNest t ≤ 3 * t.height + 5 := by
  by_cases h : isCatT t = true
  · cases t with
    | cat sp ts => have := nest_bound_cat sp ts; omega
    | _ => simp [isCatT] at h
  · have hc : isCatT t = false := by simpa using h
    rw [patternNest_other t hc, fl_encode_not_cat t hc]
    have := (tok_bound t true none .only).2 (Or.inr rfl)
    omega

/-- `3 * height + 4` does NOT hold for every token tree: a bare class at the root -/
theorem nest_bound_plus4_false :
    ¬ ∀ t : Tok, patternNest t ≤ 3 * t.height + 4 := by
  intro h
  have := h (.cls ⟨0, 0⟩ false [.chr 'a'])
  simp [patternNest, encodeTop, encodeTok, G, classValid, Re.nest, CharPred.nest, Re.flat, maxL,
    Tok.height] at this

/-! ### no panic -/

/-- **C05**: a token tree of height at most 81 cannot hit the nesting limit -/
theorem no_nest_panic (t : Tok) (h : t.height ≤ 81) : nestPanics t = false := by
  have := nest_bound t
  unfold nestPanics nestLimit; exact decide_eq_false (by omega)

/-- ... and at most 82 when the root is a concatenation -/
theorem no_nest_panic_cat (sp : Span) (ts : List Tok) (h : (Tok.cat sp ts).height ≤ 82) :
    nestPanics (.cat sp ts) = false := by
  have := nest_bound_cat_sharp sp ts
  unfold nestPanics nestLimit; exact decide_eq_false (by omega)

theorem parse_root (e : Str) (t : Tok) (h : parse e = .ok t) :
    t = .lit ⟨0, 0⟩ [] false ∨ ∃ sp ts, t = .cat sp ts := by
  unfold parse at h
  split at h
  · injection h with h; exact Or.inl h.symm
  · simp only at h
    split at h
    · cases h
    · split at h
      · cases h
      · split at h
        · injection h with h; exact Or.inr ⟨_, _, h.symm⟩
        · cases h

/-- **C05 for expressions**: whatever the parser produces, of height at most 82, does not panic
    in the regex compiler for nesting -/
theorem no_nest_panic_parse (e : Str) (t : Tok) (hp : parse e = .ok t) (h : t.height ≤ 82) :
    nestPanics t = false := by
  rcases parse_root e t hp with rfl | ⟨sp, ts, rfl⟩
  · exact no_nest_panic _ (by simp [Tok.height])
  · exact no_nest_panic_cat sp ts h

/-! ### the families that show the slope is right -/

/-- `n` repetitions around `t` -/
def repN : Nat → Tok → Tok
  | 0, t => t
  | n + 1, t => .rep ⟨0, 0⟩ (repN n t) 1 none

/-- `n` single-branch alternations around `t` -/
def altN : Nat → Tok → Tok
  | 0, t => t
  | n + 1, t => .alt ⟨0, 0⟩ [altN n t]

theorem height_repN (t : Tok) : ∀ n, (repN n t).height = n + t.height
  | 0 => by simp [repN]
  | n + 1 => by simp only [repN, Tok.height, height_repN t n]; omega

theorem height_altN (t : Tok) : ∀ n, (altN n t).height = n + t.height
  | 0 => by simp [altN]
  | n + 1 => by
    simp only [altN, Tok.height, heightL, height_altN t n]; omega

theorem isCatT_repN (t : Tok) (h : isCatT t = false) : ∀ n, isCatT (repN n t) = false
  | 0 => h
  | _ + 1 => rfl

theorem isCatT_altN (t : Tok) (h : isCatT t = false) : ∀ n, isCatT (altN n t) = false
  | 0 => h
  | _ + 1 => rfl

/-- every repetition adds exactly three levels: capture/group, the repetition operator, the group
    around its body -/
theorem nest_repN (t : Tok) (k : Nat) (ht : ∀ c sup p, (encodeTok c sup p t).nest = k) :
    ∀ n c sup p, (encodeTok c sup p (repN n t)).nest = 3 * n + k
  | 0, c, sup, p => by simpa [repN] using ht c sup p
  | n + 1, c, sup, p => by
    simp only [repN]
    rw [encodeTok_rep]
    simp only [nest_G, Re.nest, nest_concRe, nest_repN t k ht n]
    omega

/-- every single-branch alternation adds exactly two: capture/group and the group of its branch -/
theorem nest_altN (t : Tok) (k : Nat) (ht : ∀ c sup p, (encodeTok c sup p t).nest = k) :
    ∀ n c sup p, (encodeTok c sup p (altN n t)).nest = 2 * n + k
  | 0, c, sup, p => by simpa [altN] using ht c sup p
  | n + 1, c, sup, p => by
    simp only [altN, encodeTok]
    rw [encodeBranches_cons]
    simp only [nest_G, Re.nest, Re.nestAlt, Re.nestAlts, encodeBranches, nest_concRe,
      nest_altN t k ht n]
    omega

def litA : Tok := .lit ⟨0, 0⟩ ['a'] false
def clsA : Tok := .cls ⟨0, 0⟩ false [.chr 'a']

theorem nest_litA (c : Bool) (sup : Option Pos) (p : Pos) : (encodeTok c sup p litA).nest = 1 := by
  simp [litA, encodeTok, Re.nest]

theorem nest_clsA (c : Bool) (sup : Option Pos) (p : Pos) : (encodeTok c sup p clsA).nest = 4 := by
  simp [clsA, encodeTok, nest_G, classValid, Re.nest, CharPred.nest]

/-- `n` nested repetitions around a one-character literal (`<<<a>>>`, bodies not wrapped): `3n + 2` -/
theorem patternNest_repN_lit (n : Nat) : patternNest (repN n litA) = 3 * n + 2 := by
  rw [patternNest_other _ (isCatT_repN _ rfl n), fl_encode_not_cat _ (isCatT_repN _ rfl n),
    nest_repN litA 1 nest_litA]
  omega

/-- `n` nested single-branch alternations around a one-character literal: `2n + 2` -/
theorem patternNest_altN_lit (n : Nat) : patternNest (altN n litA) = 2 * n + 2 := by
  rw [patternNest_other _ (isCatT_altN _ rfl n), fl_encode_not_cat _ (isCatT_altN _ rfl n),
    nest_altN litA 1 nest_litA]
  omega

/-- `nest_bound` is attained at every height: `n` repetitions around a class -/
theorem patternNest_repN_cls (n : Nat) :
    patternNest (repN n clsA) = 3 * (repN n clsA).height + 5 := by
  rw [patternNest_other _ (isCatT_repN _ rfl n), fl_encode_not_cat _ (isCatT_repN _ rfl n),
    nest_repN clsA 4 nest_clsA, height_repN]
  simp [clsA, Tok.height]; omega

/-- `nest_bound_cat_sharp` is attained at every height `≥ 2`: the same under a root concatenation -/
theorem patternNest_cat_repN_cls (n : Nat) :
    patternNest (.cat ⟨0, 0⟩ [repN n clsA]) = 3 * (Tok.cat ⟨0, 0⟩ [repN n clsA]).height + 2 := by
  rw [patternNest_cat]
  simp only [encodeList, flat_cons, flat_nil, maxL, Tok.height, heightL, height_repN,
    fl_encode_not_cat _ (isCatT_repN clsA rfl n), nest_repN clsA 4 nest_clsA]
  simp [clsA, Tok.height]; omega

/-- ... and at height 1 by a tree wildcard between two literals (`a/**/b`): 7 -/
theorem patternNest_tree_middle :
    patternNest (.cat ⟨0, 0⟩ [litA, .tree ⟨0, 0⟩ false, litA]) = 7 ∧
    (Tok.cat ⟨0, 0⟩ [litA, .tree ⟨0, 0⟩ false, litA]).height = 1 := by
  refine ⟨?_, by simp [Tok.height, heightL, litA]⟩
  rw [patternNest_cat]
  have h1 : fl (Re.lit ['a'] false) = 1 := by simp [fl, Re.flat, maxL, Re.nest]
  have h2 : fl (siteIntermediate true) = 6 := by
    rw [fl_of_not_cat _ rfl, nest_siteIntermediate]
  simp only [encodeList, flat_cons, flat_nil, maxL, posOf, litA, encodeTok, encodeTree]
  simp [h1, h2]

/-- the height limit of `no_nest_panic` cannot be raised to 82 for bare roots: 82 repetitions
    around a class have height 82 and panic -/
theorem nest_panic_at_82 : (repN 82 clsA).height = 82 ∧ nestPanics (repN 82 clsA) = true := by
  refine ⟨by rw [height_repN]; rfl, ?_⟩
  have h := patternNest_repN_cls 82
  rw [height_repN] at h
  have : clsA.height = 0 := rfl
  unfold nestPanics nestLimit; exact decide_eq_true (by omega)

/-- and the limit 82 of `no_nest_panic_cat` cannot be raised to 83 -/
theorem nest_panic_cat_at_83 :
    (Tok.cat ⟨0, 0⟩ [repN 82 clsA]).height = 83 ∧ nestPanics (.cat ⟨0, 0⟩ [repN 82 clsA]) = true := by
  have h := patternNest_cat_repN_cls 82
  have hh : (Tok.cat ⟨0, 0⟩ [repN 82 clsA]).height = 83 := by
    simp only [Tok.height, heightL, height_repN]; rfl
  refine ⟨hh, ?_⟩
  rw [hh] at h
  unfold nestPanics nestLimit; exact decide_eq_true (by omega)

/-! small instances, spelled out -/

example : patternNest (.rep ⟨0, 0⟩ (.rep ⟨0, 0⟩ litA 1 none) 1 none) = 3 * 2 + 2 :=
  patternNest_repN_lit 2
example : patternNest (.alt ⟨0, 0⟩ [.alt ⟨0, 0⟩ [.alt ⟨0, 0⟩ [litA]]]) = 2 * 3 + 2 :=
  patternNest_altN_lit 3
-- the hypothesis of `no_nest_panic_parse` is satisfiable, and its conclusion is not trivial
example : (Tok.cat ⟨0, 0⟩ [repN 2 clsA]).height ≤ 82 ∧ patternNest (.cat ⟨0, 0⟩ [repN 2 clsA]) = 11 := by
  refine ⟨by simp only [Tok.height, heightL, height_repN]; decide, ?_⟩
  have := patternNest_cat_repN_cls 2
  simp only [Tok.height, heightL, height_repN] at this
  have h0 : clsA.height = 0 := rfl
  omega

end Wax
