import Wax.RuleS
/-!
C06, rule R1 on the fragment "one level of alternation, no repetition": if the checker accepts,
then whichever branch is chosen in every alternation, no two component boundaries (separators or
tree wildcards) are adjacent in the resulting token sequence.
-/
set_option linter.unusedSimpArgs false
namespace Wax

def isLeafT (t : Tok) : Bool := !t.isBranchT

def choices : Tok → List (List Tok)
  | .alt _ bs => bs.map Tok.concatenation
  | t => [[t]]

/-- every flat expansion of a token list (alternations one level deep) -/
def expandL : List Tok → List (List Tok)
  | [] => [[]]
  | t :: ts => (choices t).flatMap fun c => (expandL ts).map fun r => c ++ r

def headB : List Tok → Bool | t :: _ => t.isBoundaryT | [] => false
def lastB : List Tok → Bool
  | [] => false
  | [t] => t.isBoundaryT
  | _ :: t :: ts => lastB (t :: ts)

theorem noAdj_append : ∀ (c r : List Tok), noAdjBoundary c = true → noAdjBoundary r = true →
    (lastB c = true → headB r = false) → noAdjBoundary (c ++ r) = true
  | [], r, _, hr, _ => by simpa using hr
  | [a], [], _, _, _ => by simp [noAdjBoundary]
  | [a], b :: r, _, hr, h => by
    simp only [List.cons_append, List.nil_append, noAdjBoundary, Bool.and_eq_true, Bool.not_eq_true',
      Bool.and_eq_false_iff]
    refine ⟨?_, hr⟩
    by_cases ha : a.isBoundaryT = true
    · right; simpa [headB] using h (by simpa [lastB] using ha)
    · left; simpa using ha
  | a :: b :: c, r, hc, hr, h => by
    simp only [noAdjBoundary, Bool.and_eq_true] at hc
    simp only [List.cons_append, noAdjBoundary, Bool.and_eq_true]
    exact ⟨hc.1, by simpa using noAdj_append (b :: c) r hc.2 hr (by simpa [lastB] using h)⟩

/-- a branch: a concatenation token over a non-empty list of leaves -/
def LeafBranch (b : Tok) : Prop := ∃ sp cs, b = .cat sp cs ∧ cs ≠ [] ∧ ∀ x ∈ cs, isLeafT x = true

def Depth1 (ts : List Tok) : Prop :=
  ∀ t ∈ ts, isLeafT t = true ∨ ∃ sp bs, t = .alt sp bs ∧ ∀ b ∈ bs, LeafBranch b

theorem anyStart_leaf {t : Tok} (h : isLeafT t = true) : anyStart Tok.isBoundaryT t = t.isBoundaryT := by
  cases t <;> simp_all [isLeafT, Tok.isBranchT, anyStart]

theorem anyStart_branch {sp : Span} {s : Tok} {cs : List Tok} (hs : isLeafT s = true) :
    anyStart Tok.isBoundaryT (.cat sp (s :: cs)) = s.isBoundaryT := by
  simp [anyStart, anyStartF, Tok.isBoundaryT, anyStart_leaf hs]

theorem lastOf_lastB : ∀ (x : Tok) (xs : List Tok), lastB (x :: xs) = (lastOf x xs).isBoundaryT
  | _, [] => rfl
  | _, y :: ys => by simp [lastB, lastOf, lastOf_lastB y ys]

theorem boundary_cases {t : Tok} (h : t.isBoundaryT = true) : t.isSepT = true ∨ t.isTreeT = true := by
  cases t <;> simp_all [Tok.isBoundaryT, Tok.isSepT, Tok.isTreeT]

/-- what the checker has established about one branch made of leaves -/
theorem branch_facts (outer : Outer) (spb : Span) (s : Tok) (cs : List Tok)
    (ht : termsOk (fun ts => checkBranchOk ts outer && checkAlternationOk ts outer)
      (.cat spb (s :: cs)) = true)
    (hb : okBody outer (.cat spb (s :: cs)) = true) :
    noAdjBoundary (s :: cs) = true ∧
    (headB (s :: cs) = true → endsWith Tok.isBoundaryT outer.left = false) ∧
    (lastB (s :: cs) = true → startsWith Tok.isBoundaryT outer.right = false) := by
  simp only [okBody, Bool.and_eq_true] at hb
  refine ⟨hb.1, ?_, ?_⟩
  · intro hh
    simp only [headB] at hh
    cases cs with
    | nil =>
      simp only [termsOk, Tok.concatenation, terminals, checkBranchOk, Terms.start, Terms.end_,
        Bool.and_eq_true, Bool.not_eq_true', Bool.and_eq_false_iff] at ht
      rcases boundary_cases hh with h | h
      · rcases ht.1.1.1.1.1.1.1 with h' | h'
        · rw [h] at h'; cases h'
        · exact h'
      · have := ht.1.1.1.1.1.2
        simp [h] at this
    | cons x xs =>
      simp only [termsOk, Tok.concatenation, terminals, checkBranchOk, Terms.start, Terms.end_,
        Bool.and_eq_true, Bool.not_eq_true', Bool.and_eq_false_iff] at ht
      rcases boundary_cases hh with h | h
      · rcases ht.1.1.1.1.1.1.1 with h' | h'
        · rw [h] at h'; cases h'
        · exact h'
      · have := ht.1.1.1.1.2
        simpa [h] using this
  · intro hl
    cases cs with
    | nil =>
      simp only [lastB] at hl
      simp only [termsOk, Tok.concatenation, terminals, checkBranchOk, Terms.start, Terms.end_,
        Bool.and_eq_true, Bool.not_eq_true', Bool.and_eq_false_iff] at ht
      rcases boundary_cases hl with h | h
      · rcases ht.1.1.1.1.1.1.2 with h' | h'
        · rw [h] at h'; cases h'
        · exact h'
      · have := ht.1.1.1.1.1.2
        simp [h] at this
    | cons x xs =>
      rw [lastOf_lastB] at hl
      simp only [lastOf] at hl
      simp only [termsOk, Tok.concatenation, terminals, checkBranchOk, Terms.start, Terms.end_,
        Bool.and_eq_true, Bool.not_eq_true', Bool.and_eq_false_iff] at ht
      rcases boundary_cases hl with h | h
      · rcases ht.1.1.1.1.1.1.2 with h' | h'
        · rw [h] at h'; cases h'
        · exact h'
      · have := ht.1.1.1.2
        simpa [h] using this

theorem okSeq_leaf {a : Tok} (h : isLeafT a = true) (inh : Outer) (prev : Option Tok) (rest : List Tok) :
    okSeq inh prev (a :: rest) = okSeq inh (some a) rest := by
  cases a <;> simp_all [isLeafT, Tok.isBranchT, okSeq]

theorem choices_leaf {a : Tok} (h : isLeafT a = true) : choices a = [[a]] := by
  cases a <;> simp_all [isLeafT, Tok.isBranchT, choices]

theorem anyEnd_leaf {t : Tok} (h : isLeafT t = true) : anyEnd Tok.isBoundaryT t = t.isBoundaryT := by
  cases t <;> simp_all [isLeafT, Tok.isBranchT, anyEnd]

theorem okBranchesR_mem : ∀ (bs : List Tok) (outer : Outer), okBranchesR outer bs = true → ∀ b ∈ bs,
    termsOk (fun ts => checkBranchOk ts outer && checkAlternationOk ts outer) b = true ∧
      okBody outer b = true
  | [], _, _, _, hb => by cases hb
  | b0 :: bs, outer, h, b, hb => by
    simp only [okBranchesR, Bool.and_eq_true] at h
    cases hb with
    | head => exact ⟨h.1.1, h.1.2⟩
    | tail _ hm => exact okBranchesR_mem bs outer h.2 b hm

theorem anyStartB_false : ∀ (bs : List Tok), (∀ b ∈ bs, anyStart Tok.isBoundaryT b = false) →
    anyStartB Tok.isBoundaryT bs = false
  | [], _ => rfl
  | b :: bs, h => by
    simp [anyStartB, h b (by simp), anyStartB_false bs (fun x hx => h x (by simp [hx]))]

theorem anyStartB_mem : ∀ (bs : List Tok), anyStartB Tok.isBoundaryT bs = false → ∀ b ∈ bs,
    anyStart Tok.isBoundaryT b = false
  | [], _, _, hb => by cases hb
  | b0 :: bs, h, b, hb => by
    simp only [anyStartB, Bool.or_eq_false_iff] at h
    cases hb with
    | head => exact h.1
    | tail _ hm => exact anyStartB_mem bs h.2 b hm

theorem noAdj_tail {a : Tok} {rest : List Tok} (h : noAdjBoundary (a :: rest) = true) :
    noAdjBoundary rest = true := by
  cases rest with
  | nil => rfl
  | cons b r => simp only [noAdjBoundary, Bool.and_eq_true] at h; exact h.2

/-- **C06, rule R1, one level of alternation**: whichever branches are chosen, no two component
boundaries end up adjacent -/
theorem expand_noAdj : ∀ (ts : List Tok) (inh : Outer) (prev : Option Tok) (pb : Bool),
    Depth1 ts → noAdjBoundary ts = true → okSeq inh prev ts = true →
    (pb = true → ∀ a rest, ts = a :: rest → anyStart Tok.isBoundaryT a = false) →
    ∀ l ∈ expandL ts, noAdjBoundary l = true ∧ (pb = true → headB l = false)
  | [], _, _, _, _, _, _, _, l, hl => by
    simp only [expandL, List.mem_singleton] at hl; subst hl
    exact ⟨rfl, fun _ => rfl⟩
  | a :: rest, inh, prev, pb, hd, hn, hok, hseam, l, hl => by
    have hdr : Depth1 rest := fun t ht => hd t (List.mem_cons_of_mem _ ht)
    have hnr := noAdj_tail hn
    rcases hd a (by simp) with hleaf | ⟨sp, bs, rfl, hbs⟩
    · -- a leaf
      rw [okSeq_leaf hleaf] at hok
      simp only [expandL, choices_leaf hleaf, List.flatMap_cons, List.flatMap_nil, List.append_nil,
        List.mem_map, List.singleton_append] at hl
      obtain ⟨r, hr, rfl⟩ := hl
      have hseam' : a.isBoundaryT = true → ∀ b rest', rest = b :: rest' →
          anyStart Tok.isBoundaryT b = false := by
        intro hab b rest' e
        subst e
        rcases hd b (by simp) with hbl | ⟨spb, bsb, rfl, hbsb⟩
        · rw [anyStart_leaf hbl]
          simp only [noAdjBoundary, Bool.and_eq_true, Bool.not_eq_true', Bool.and_eq_false_iff] at hn
          rcases hn.1 with h | h
          · rw [hab] at h; cases h
          · exact h
        · simp only [okSeq, Bool.and_eq_true] at hok
          simp only [anyStart, Tok.isBoundaryT, Bool.false_or]
          apply anyStartB_false
          intro b hb
          obtain ⟨spc, cs, rfl, hne, hcl⟩ := hbsb b hb
          cases cs with
          | nil => exact absurd rfl hne
          | cons s cs' =>
            obtain ⟨ht, hbody⟩ := okBranchesR_mem bsb _ hok.1 _ hb
            obtain ⟨_, hhead, _⟩ := branch_facts _ spc s cs' ht hbody
            rw [anyStart_branch (hcl s (by simp))]
            by_cases hsb : s.isBoundaryT = true
            · have := hhead (by simpa [headB] using hsb)
              simp [Outer.or, endsWith, anyEnd_leaf hleaf, hab] at this
            · simpa using hsb
      obtain ⟨ih1, ih2⟩ := expand_noAdj rest inh (some a) a.isBoundaryT hdr hnr hok hseam' r hr
      refine ⟨?_, ?_⟩
      · cases r with
        | nil => rfl
        | cons b' r' =>
          simp only [noAdjBoundary, Bool.and_eq_true, Bool.not_eq_true', Bool.and_eq_false_iff]
          refine ⟨?_, ih1⟩
          by_cases hab : a.isBoundaryT = true
          · right; simpa [headB] using ih2 hab
          · left; simpa using hab
      · intro hpb
        have := hseam hpb a rest rfl
        rw [anyStart_leaf hleaf] at this
        simpa [headB] using this
    · -- an alternation whose branches are lists of leaves
      simp only [okSeq, Bool.and_eq_true] at hok
      simp only [expandL, choices, List.mem_flatMap, List.mem_map] at hl
      obtain ⟨c, ⟨b, hb, rfl⟩, r, hr, rfl⟩ := hl
      obtain ⟨spc, cs, rfl, hne, hcl⟩ := hbs b hb
      cases cs with
      | nil => exact absurd rfl hne
      | cons s cs' =>
        obtain ⟨ht, hbody⟩ := okBranchesR_mem bs _ hok.1 _ hb
        obtain ⟨hnc, _, hlast⟩ := branch_facts _ spc s cs' ht hbody
        have hseam' : lastB (s :: cs') = true → ∀ b2 rest', rest = b2 :: rest' →
            anyStart Tok.isBoundaryT b2 = false := by
          intro hlb b2 rest' e
          subst e
          have := hlast hlb
          simpa [Outer.or, startsWith] using this
        obtain ⟨ih1, ih2⟩ :=
          expand_noAdj rest inh (some (.alt ⟨0, 0⟩ bs)) (lastB (s :: cs')) hdr hnr hok.2 hseam' r hr
        simp only [Tok.concatenation]
        refine ⟨noAdj_append _ _ hnc ih1 ih2, ?_⟩
        intro hpb
        have h1 := hseam hpb _ rest rfl
        simp only [anyStart, Tok.isBoundaryT, Bool.false_or] at h1
        have h2 := anyStartB_mem bs h1 _ hb
        rw [anyStart_branch (hcl s (by simp))] at h2
        simpa [headB] using h2

/-- for a whole pattern: `checkS` accepts a concatenation with alternations one level deep and no
repetition ⟹ every flat expansion is free of adjacent component boundaries -/
theorem checkS_noAdj_depth1 (sp : Span) (ts : List Tok) (hd : Depth1 ts)
    (h : checkS (.cat sp ts) = true) : ∀ l ∈ expandL ts, noAdjBoundary l = true := by
  simp only [checkS, okBody, Bool.and_eq_true] at h
  intro l hl
  exact (expand_noAdj ts ⟨none, none⟩ none false hd h.1 h.2 (by intro h; cases h) l hl).1

-- non-vacuity: `a{/b,c}d` is accepted (and is in the fragment); `a{b/,c}/` is rejected, because
-- choosing the first branch would put two separators next to each other
example : checkS (.cat ⟨0, 0⟩ [.lit ⟨0, 0⟩ ['a'] false,
    .alt ⟨0, 0⟩ [.cat ⟨0, 0⟩ [.sep ⟨0, 0⟩, .lit ⟨0, 0⟩ ['b'] false], .cat ⟨0, 0⟩ [.lit ⟨0, 0⟩ ['c'] false]],
    .lit ⟨0, 0⟩ ['d'] false]) = true := by decide
example : checkS (.cat ⟨0, 0⟩ [.lit ⟨0, 0⟩ ['a'] false,
    .alt ⟨0, 0⟩ [.cat ⟨0, 0⟩ [.lit ⟨0, 0⟩ ['b'] false, .sep ⟨0, 0⟩], .cat ⟨0, 0⟩ [.lit ⟨0, 0⟩ ['c'] false]],
    .sep ⟨0, 0⟩]) = false := by decide

end Wax
