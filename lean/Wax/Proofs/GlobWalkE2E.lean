import Wax.Proofs.GlobBounded
import Wax.Proofs.PartitionAll
import Wax.Cmd.Walk
/-!
C02 + C08 + C14 END TO END: `Glob::walk(base)` from the base directory and the FULL glob, through
`partition` (the invariant text prefix), `Glob::anchor` (`join`, `join_and_get_depth`: root and
pivot), the walkdir machine over a recorded tree, the `GlobWalker` closure with the component
programs of `WalkProgram::compile`, and the complete program matched against
`root_relative_paths` (depth + pivot components) — as the model computes it and as the driver runs
it for a `W g` request.

The pieces existed (`glob_walk_bounded_exact_compiled` for a root and a pivot GIVEN, with the path
arithmetic `entryFaithfulP` as a decidable hypothesis on every path of the tree;
`entry_root_relative` for the strings; `partition_lang_all_partial` for the languages); an audit
noted that they had never been composed through `anchor`.  Here they are:

1. path arithmetic: `prefixSpells` (the decidable hypothesis on the prefix text), `anchor_spells`
   (root and pivot that `anchor` computes), `splitAtDepth_anchor` (`root_relative_paths` of every
   entry path below that root, as STRINGS), `anchor_faithful` (`entryFaithfulP` is DERIVED);
2. `glob_walk_bounds_exact_beneath`: `glob_walk_bounds_exact` without `rootExempt` — read as "what
   lies beneath the base", the exemption of the root entry disappears;
3. `Cmd.globWalkPipeline`, `Cmd.walkRootView`, `Cmd.render` and `cmdWith_glob`: the driver's
   `cmdWith` is literally `render` of the items of that pipeline over that root view;
4. **`glob_walk_e2e_partial`** (headline), `glob_walk_e2e_mem` (membership in terms of
   `Spec.Matches`, no entry twice), `glob_walk_e2e_unbounded`; degenerate cases
   `glob_walk_e2e_no_prefix`, `glob_walk_e2e_file`;
5. through `partition` (C08, under `partOk`): `matches_base_iff_postfix`,
   **`glob_walk_e2e_postfix_partial`** (the walk of the full glob from the base finds what the
   postfix matches below `join base prefix`), **`glob_walk_e2e_invariant_partial`** (invariant
   text only: at most the one path);
6. `walkRootView_goodNames`, **`glob_walk_e2e_driver`**: for EVERY recorded tree with reportable
   names and the root view the driver resolves in it;
7. instances for `drvSem` / `drvCasing` on parsed globs (`a/b/{x,y}*/**` from `r` over a tree four
   levels deep, `a/b/**`, `a/b`, `{x,y}*/**`, `*`), every hypothesis discharged.

What was learned (all kernel-checked below):
* the component programs are compiled from the FULL glob (`walkPrograms t`, as in the crate:
  `WalkProgram::compile(self.tree)`), not from the postfix: the candidate path of the closure
  starts with the prefix names, which is why the pivot must be exactly their number;
* the root segment of `root_relative_paths` is the base WITHOUT trailing separators (`trim base`),
  not the base as given (`root_segment_is_trimmed`);
* the base itself is never yielded by a glob with a component program, even when the glob matches
  the empty path; stated as "beneath the base" no exemption hypothesis is left;
* when the prefix text ends with a separator (`a/b/`, cut behind a separator) the root of the
  walk is never matched; when it does not (`a/b`, cut before `/**`) it is matched exactly when
  the postfix is the bare tree wildcard (`glob_walk_e2e_postfix_partial`, second clause).
-/
set_option linter.unusedSimpArgs false
set_option linter.unusedVariables false

namespace Wax.Walk
open Wax Wax.Path
open Wax.WalkTree (relOf relOf_append PathOk hasBad)

/-! ## 1. path arithmetic: the prefix text, `join`, `split_at_depth` -/

theorem nameOk_of_goodName {n : Str} (h : goodName n = true) : nameOk n = true := by
  have hs := goodName_sepFree h
  simp only [goodName, Bool.and_eq_true, Bool.not_eq_true', bne_iff_ne, ne_eq,
    List.isEmpty_eq_false_iff] at h
  exact nameOk_iff.mpr ⟨h.1.1.1, hs, h.1.2, h.2⟩

theorem nameOk_of_goodNames {q : List Str} (h : goodNames q = true) : ∀ n ∈ q, nameOk n = true :=
  fun n hn => nameOk_of_goodName (List.all_eq_true.mp h n hn)

theorem goodName_ne_nil {n : Str} (h : goodName n = true) : n ≠ [] := (nameOk_iff.mp (nameOk_of_goodName h)).1

/-- the last character of a relative path spelled from good names is not a separator -/
theorem relOf_getLast_ne_sep : ∀ {q : List Str}, q ≠ [] → goodNames q = true →
    (relOf q).getLast? ≠ some '/' ∧ relOf q ≠ []
  | [], h, _ => absurd rfl h
  | [n], _, hq => by
    obtain ⟨hn, _⟩ := goodNames_cons.mp hq
    have hne := goodName_ne_nil hn
    have hs := goodName_sepFree hn
    refine ⟨?_, hne⟩
    intro hl
    exact hs '/' (List.mem_of_getLast? hl) rfl
  | n :: n2 :: ns, _, hq => by
    obtain ⟨hn, hq'⟩ := goodNames_cons.mp hq
    have ih := relOf_getLast_ne_sep (q := n2 :: ns) (by simp) hq'
    have e : relOf (n :: n2 :: ns) = n ++ '/' :: relOf (n2 :: ns) := by simp [relOf]
    rw [e]
    refine ⟨?_, by simp⟩
    have : (n ++ '/' :: relOf (n2 :: ns)).getLast? = (relOf (n2 :: ns)).getLast? := by
      obtain ⟨c, hc⟩ : ∃ c, (relOf (n2 :: ns)).getLast? = some c := by
        cases hl : (relOf (n2 :: ns)).getLast? with
        | none => exact absurd (List.getLast?_eq_none_iff.mp hl) ih.2
        | some c => exact ⟨c, rfl⟩
      have e2 : n ++ '/' :: relOf (n2 :: ns) = (n ++ ['/']) ++ relOf (n2 :: ns) := by simp
      rw [e2, List.getLast?_append, hc]; rfl
    rw [this]; exact ih.1

/-- joining one more name -/
theorem join_relOf_name {p : List Str} {n : Str} (hp : p ≠ []) (hgp : goodNames p = true)
    (hn : goodName n = true) : join (relOf p) n = relOf (p ++ [n]) := by
  obtain ⟨h1, h2⟩ := relOf_getLast_ne_sep hp hgp
  have ha := isAbsolute_name (nameOk_of_goodName hn)
  have he : (relOf p).isEmpty = false := by simpa using h2
  rw [relOf_append hp (by simp)]
  simp only [join, ha, he, Bool.false_eq_true, if_false, relOf]
  have : ((relOf p).getLast? == some '/') = false := by simpa using h1
  simp [this]

theorem join_relOf_sep_name {p : List Str} {n : Str} (hp : p ≠ []) (hgp : goodNames p = true)
    (hn : goodName n = true) : join (relOf p ++ ['/']) n = relOf (p ++ [n]) := by
  have ha := isAbsolute_name (nameOk_of_goodName hn)
  rw [relOf_append hp (by simp)]
  simp [join, ha, relOf]

/-- the names below a directory, joined one by one as walkdir does, spell the relative path -/
theorem joinAll_relOf : ∀ {q p : List Str}, p ≠ [] → goodNames p = true → goodNames q = true →
    joinAll (relOf p) q = relOf (p ++ q)
  | [], p, _, _, _ => by simp [joinAll]
  | n :: q, p, hp, hgp, hgq => by
    obtain ⟨hn, hq⟩ := goodNames_cons.mp hgq
    rw [joinAll, join_relOf_name hp hgp hn,
      joinAll_relOf (by simp) (goodNames_append.mpr ⟨hgp, by simpa [goodNames] using hn⟩) hq]
    simp

theorem joinAll_nil_relOf {q : List Str} (hgq : goodNames q = true) : joinAll [] q = relOf q := by
  cases q with
  | nil => rfl
  | cons n q =>
    obtain ⟨hn, hq⟩ := goodNames_cons.mp hgq
    rw [joinAll, join_nil]
    have := joinAll_relOf (p := [n]) (q := q) (by simp) (by simpa [goodNames] using hn) hq
    simpa [relOf] using this

theorem joinAll_relOf_sep {q p : List Str} (hp : p ≠ []) (hgp : goodNames p = true)
    (hgq : goodNames q = true) (hq : q ≠ []) : joinAll (relOf p ++ ['/']) q = relOf (p ++ q) := by
  cases q with
  | nil => exact absurd rfl hq
  | cons n q =>
    obtain ⟨hn, hq'⟩ := goodNames_cons.mp hgq
    rw [joinAll, join_relOf_sep_name hp hgp hn,
      joinAll_relOf (by simp) (goodNames_append.mpr ⟨hgp, by simpa [goodNames] using hn⟩) hq']
    simp

/-- a relative path spelled from good names is left alone by `Components::as_path` -/
theorem trim_relOf {q : List Str} (hgq : goodNames q = true) : trim (relOf q) = relOf q := by
  cases q with
  | nil => simp [relOf, trim]
  | cons n q =>
    rw [← joinAll_nil_relOf hgq]
    exact trim_joinAll [] (by simp) (nameOk_of_goodNames hgq)

theorem compSpans_trailing_sep {a : Str} (h : a ≠ []) : compSpans (a ++ ['/']) = compSpans a := by
  have := compSpans_append_sep [] h
  simpa [splitSep, piecesFrom, bodySpans, pieceComp] using this

/-- a trailing separator is trimmed -/
theorem trim_trailing_sep {a : Str} (h : a ≠ []) : trim (a ++ ['/']) = trim a := by
  have hc := compSpans_trailing_sep h
  unfold trim
  rw [trimEnd_congr hc, List.take_append_of_le_length (trimEnd_le a)]


/-! ### the invariant prefix as text and as names -/

/-- **the prefix hypothesis** (decidable): the invariant prefix text `P` of the glob spells the
    names `pre` canonically — it is relative (the glob is unrooted: K-ENTRY-ROOTED-DEPTH), its
    components are the names `pre`, none of them empty, `.` or `..` (K-WALK-DOT-PREFIX), separated
    by single separators, with or without a final separator (`a/b/` is what `invariant_text_prefix`
    returns when it cuts behind a separator, `a/b` when it cuts before a tree wildcard or the glob
    is all text).  The empty prefix spells no names. -/
def prefixSpells (P : Str) (pre : List Str) : Bool :=
  goodNames pre && (P == relOf pre || (!pre.isEmpty && P == relOf pre ++ ['/']))

theorem prefixSpells_nil_iff {P : Str} {pre : List Str} (h : prefixSpells P pre = true) :
    P = [] ↔ pre = [] := by
  simp only [prefixSpells, Bool.and_eq_true, Bool.or_eq_true, beq_iff_eq, Bool.not_eq_true',
    List.isEmpty_eq_false_iff] at h
  obtain ⟨hg, h | ⟨hne, h⟩⟩ := h
  · subst h
    constructor
    · intro h0
      cases pre with
      | nil => rfl
      | cons n q => exact absurd h0 (relOf_getLast_ne_sep (by simp) hg).2
    · rintro rfl; rfl
  · subst h
    constructor
    · intro h0; simp at h0
    · intro h0; exact absurd h0 hne

/-- what the path functions make of a canonical prefix -/
theorem prefixSpells_facts {P : Str} {pre : List Str} (h : prefixSpells P pre = true) :
    isAbsolute P = false ∧ components P = pre.map Comp.normal ∧ trim P = relOf pre ∧
    ∀ names, goodNames names = true → names ≠ [] → joinAll P names = relOf (pre ++ names) := by
  simp only [prefixSpells, Bool.and_eq_true, Bool.or_eq_true, beq_iff_eq, Bool.not_eq_true',
    List.isEmpty_eq_false_iff] at h
  obtain ⟨hg, h | ⟨hne, h⟩⟩ := h
  · subst h
    refine ⟨isAbsolute_relOf_good hg, components_relOf_good hg, trim_relOf hg, ?_⟩
    intro names hn hne
    cases pre with
    | nil => simpa [relOf] using joinAll_nil_relOf hn
    | cons n q => exact joinAll_relOf (by simp) hg hn
  · subst h
    have hne' := (relOf_getLast_ne_sep hne hg).2
    refine ⟨?_, ?_, ?_, ?_⟩
    · rw [isAbsolute_append _ hne']; exact isAbsolute_relOf_good hg
    · simp only [components, compSpans_trailing_sep hne']
      exact components_relOf_good hg
    · rw [trim_trailing_sep hne', trim_relOf hg]
    · intro names hn hnn
      exact joinAll_relOf_sep hne hg hn hnn

/-- **`Glob::anchor` through the path arithmetic**: for a canonical relative prefix text, the root
    of the walk is `join base P` (the base itself for the empty prefix), the pivot is the number
    of names of the prefix, and for every list of names walkdir can report below that root,
    `root_relative_paths` of the entry path at `depth + pivot` is
    `(base without trailing separators, prefix names ++ names joined by '/')`. -/
theorem anchor_spells (κ : Casing) (t : Tok) (base : Str) (pre : List Str)
    (hP : prefixSpells (invariantTextPrefix κ t).2 pre = true) :
    anchor κ t base =
      (if (invariantTextPrefix κ t).2 = [] then base else join base (invariantTextPrefix κ t).2,
        pre.length) := by
  obtain ⟨hr, hc, _, _⟩ := prefixSpells_facts hP
  by_cases h0 : (invariantTextPrefix κ t).2 = []
  · have hp0 : pre = [] := (prefixSpells_nil_iff hP).mp h0
    rw [anchor_empty κ t base h0, if_pos h0, hp0]; rfl
  · rw [anchor_relative κ t base h0 hr (by rw [hc]; simp), if_neg h0, hc, List.length_map]

theorem splitAtDepth_anchor (base P : Str) (pre names : List Str)
    (hP : prefixSpells P pre = true) (hn : goodNames names = true) :
    splitAtDepth (joinAll (if P = [] then base else join base P) names)
        (names.length + pre.length) =
      (if P = [] ∧ names = [] then base else trim base, relOf (pre ++ names)) := by
  obtain ⟨hr, hc, htr, hj⟩ := prefixSpells_facts hP
  have hok := nameOk_of_goodNames hn
  by_cases h0 : P = []
  · have hp0 : pre = [] := (prefixSpells_nil_iff hP).mp h0
    subst hp0
    simp only [h0, if_true, true_and, List.length_nil, Nat.add_zero, List.nil_append]
    by_cases hnn : names = []
    · subst hnn; simp [splitAtDepth_zero, joinAll, relOf]
    · rw [splitAtDepth_join_root base hok hnn, if_neg hnn, joinAll_nil_relOf hn]
  · simp only [h0, if_false, false_and]
    have h := (entry_root_relative_normal base (pre := P) (ps := pre) (names := names) hr h0 hc hok).2.1
    rw [h]
    congr 1
    by_cases hnn : names = []
    · subst hnn; simpa [joinAll] using htr
    · rw [hj names hn hnn]
      exact trim_relOf (goodNames_append.mpr
        ⟨by simp only [prefixSpells, Bool.and_eq_true] at hP; exact hP.1, hn⟩)

/-- the decidable hypothesis `entryFaithfulP` of the walk theorems, DERIVED for the root that
    `Glob::anchor` computes -/
theorem anchor_faithful (base P : Str) (pre names : List Str)
    (hP : prefixSpells P pre = true) (hn : goodNames names = true) :
    entryFaithfulP (if P = [] then base else join base P) pre names = true := by
  have hgp : goodNames pre = true := by
    simp only [prefixSpells, Bool.and_eq_true] at hP; exact hP.1
  simp only [entryFaithfulP, Bool.and_eq_true, beq_iff_eq]
  exact ⟨goodNames_append.mpr ⟨hgp, hn⟩, by rw [splitAtDepth_anchor base P pre names hP hn]⟩


/-! ## 2. the base itself: an entry with no name at all

`glob_walk_bounds_exact` needs `rootExempt` (the root entry of a walk without invariant prefix is
node residue whenever there is a component program, `root_not_yielded`).  Read as C02 reads — the
walk yields what lies *beneath the base* — the exemption disappears: the entry whose path
relative to the base is empty (no prefix name, no name below the root) is the base itself. -/

/-- the closure keeps a faithful entry iff it lies beneath the base and the complete program
    matches its relative path; the base itself is never kept when there is a component program -/
theorem glob_filtrate_iff_beneath (σ : Sem) (g : GlobProgram) (hs : ProgramsSound σ g)
    (hcomp : g.components ≠ [])
    (root : Str) (pre : List Str) (hpiv : g.pivot = pre.length) (e : Entry)
    (hf : entryFaithfulP root pre e.names = true) :
    ((globPipeline σ root g).decide e).1 = .filtrate ↔
      (pre ++ e.names ≠ [] ∧ g.complete.matchB σ (relOf (pre ++ e.names)) = true) := by
  rw [globPipeline_filtrate]
  by_cases hne : pre ++ e.names = []
  · have hv := globVerdict_of_faithfulP σ g root pre e.names hpiv hf
    rw [hv, hne, relVerdict_nil]
    simp [hcomp]
  · have hy := (globVerdict_yield_iff σ g hs root pre e.names hpiv hne hf).1
    rw [hy, globVerdict_of_faithfulP σ g root pre e.names hpiv hf]
    simp [hne]

/-- `glob_walk_bounds_exact` without `rootExempt`, for a glob with a component program -/
theorem glob_walk_bounds_exact_beneath (σ : Sem) (g : GlobProgram) (hs : ProgramsSound σ g)
    (hcomp : g.components ≠ [])
    (pre : List Str) (hpiv : g.pivot = pre.length)
    (mn : Nat) (mx : Option Nat) (root : Str) (rv : RootView)
    (hf0 : entryFaithfulP root pre [] = true)
    (hfaith : allPathsLB (entryFaithfulP root pre) [] (toWTList rv.children) = true) :
    let π := globPipeline σ root g
    π.filtrateEntries (π.items mn mx rv) =
      (okEntries (walkItems 0 none never rv)).filter (fun e =>
        !(pre ++ e.names).isEmpty && g.complete.matchB σ (relOf (pre ++ e.names)) &&
          Walk.within mn mx e.depth) := by
  intro π
  unfold Pipeline.filtrateEntries Pipeline.items
  rw [okEntries_bounded, filter_swap]
  have hFK : (okEntries (walkItems 0 none (silenced mn π.cancels) rv)).filter
        (fun e => Decidable.decide ((π.decide e).1 = .filtrate)) =
      ((okEntries (walkItems 0 none (silenced mn π.cancels) rv)).filter
        (fun e => g.complete.matchB σ (relOf (pre ++ e.names)))).filter
        (fun e => !(pre ++ e.names).isEmpty) := by
    rw [List.filter_filter]
    apply List.filter_congr
    intro e he
    have hf := walk_ok_good (entryFaithfulP root pre) 0 none _ rv hf0 hfaith e he
    rw [Bool.eq_iff_iff, decide_eq_true_eq, glob_filtrate_iff_beneath σ g hs hcomp root pre hpiv e hf]
    simp
  rw [hFK, glob_silenced_same_matches σ g hs root pre hpiv _ rv hf0 hfaith, List.filter_filter,
    List.filter_filter]
  apply List.filter_congr
  intro e _
  cases (pre ++ e.names).isEmpty <;> cases g.complete.matchB σ (relOf (pre ++ e.names)) <;>
    cases Walk.within mn mx e.depth <;> rfl

end Wax.Walk

/-! ## 3. what the driver builds for `W g <base> <expr> …` -/

namespace Wax.Cmd
open Wax Wax.Path Wax.Walk

/-- the pipeline `cmdWith` builds for a glob walk (`W g …`): root and pivot from `Glob::anchor`
    (the invariant text prefix of `partition`, `join`, `join_and_get_depth`), the complete program
    of the FULL glob, the component programs of `WalkProgram::compile`, the layers of the request
    (`cmdWith_glob`: `cmdWith` is literally this) -/
def globWalkPipeline (σ : Sem) (κ : Casing) (base : Str) (t : Tok) (layers : List Layer) : Pipeline :=
  { σ := σ, root := (anchor κ t base).1,
    glob := some ⟨encodeTop t, walkPrograms t, (anchor κ t base).2⟩, layers := layers }

/-- what walkdir makes of the root of the walk in the recorded tree, as `cmdWith` computes it -/
def walkRootView (walkRoot : Str) (follow : Bool) (rootPath : Str) (recorded : List RNode) :
    Option RootView :=
  let absolute : Option Str :=
    if isAbsolute walkRoot then some walkRoot
    else if walkRoot.isEmpty then none
    else some (rootPath ++ '/' :: walkRoot)
  match absolute.bind (resolve rootPath recorded) with
  | none => some (.err false)
  | some (node, final) => rootView follow final node

/-- the answer line of `cmdWith` for the items of a walk -/
def render (stats : Bool) (π : Pipeline) (layers : List Layer) (items : List Item) : String :=
  let nfilters := (layers.filter (fun l => match l with | .filter _ => true | _ => false)).length
  let log := joinOr ";" (items.filterMap (showLog π))
  let logs := if nfilters == 0 then "-" else "|".intercalate (List.replicate nfilters log)
  let cancelled := (items.filter (fun i => match i with
    | .ok e => e.isDir && π.cancels e
    | _ => false)).length
  s!"items={joinOr ";" (items.filterMap (showItem π))} logs={logs}" ++
    (if stats then s!" cancelled={cancelled}" else "")

end Wax.Cmd

namespace Wax
open Wax.Path Wax.Walk Wax.Cmd

/-- **the tie to the driver**: for a `W g` request whose expression builds (`Glob::new`), whose
    depth bounds are accepted and whose stack parses, the answer of `cmdWith` — what the
    correspondence test compares with the crate — is `render` of the items of
    `globWalkPipeline drvSem drvCasing base t layers` with the bounds `b.atPivot pivot` over the
    root view of the recorded tree; the printed `ok:` items are the filtrate entries
    (`showItem_isSome`, `okEntries_yielded`) with `root_relative_paths` and `depth + pivot` -/
theorem cmdWith_glob (stats : Bool) (mode baseH exprH linkS minS maxS stackS rootH recS : String)
    (t : Tok) (b : DepthBehavior) (layers : List Layer)
    (hm : (mode == "g") = true) (ht : build (unhex exprH) = some t)
    (hb : behaviourOf minS maxS = some b) (hl : parseStack stackS = some layers) :
    cmdWith stats [mode, baseH, exprH, linkS, minS, maxS, stackS, rootH, recS] =
      (let π := globWalkPipeline drvSem drvCasing (unhex baseH) t layers
       match walkRootView π.root (linkS == "t") (unhex rootH) (parseRec recS) with
       | none => "unsupported"
       | some rv => render stats π layers (π.items (b.atPivot π.pivot).1 (b.atPivot π.pivot).2 rv)) := by
  simp only [cmdWith, hm, ht, hb, hl, if_true, Option.map_some, Option.isNone_some, Bool.and_false,
    Bool.false_eq_true, if_false]
  rfl

end Wax

namespace Wax.Walk
open Wax Wax.Path Wax.Cmd
open Wax.WalkTree (relOf relOf_append PathOk hasBad joinSep)

/-- without layers it is the pipeline of the walk theorems, with what `anchor` computes -/
theorem globWalkPipeline_nil (σ : Sem) (κ : Casing) (base : Str) (t : Tok) :
    globWalkPipeline σ κ base t [] =
      globPipeline σ (anchor κ t base).1 (compiledProgram t (anchor κ t base).2) := rfl


/-! ## 4. the walk end to end -/

/-- the entries of the whole recorded tree at the root of the walk, in walkdir's order: the walk
    without depth bounds that never skips a directory -/
def unpruned (rv : RootView) : List Entry := okEntries (walkItems 0 none never rv)

theorem compiled_components_ne_nil (sp : Span) (comps : List (List Tok × Span)) (cl tail : List Tok)
    (hcomps : ∀ c ∈ comps, compOk c.1 = true) (hcl : compOk cl = true) (ht : TailOk tail)
    (pivot : Nat) :
    (compiledProgram (.cat sp (joinSep comps (cl ++ tail))) pivot).components ≠ [] := by
  simp only [compiledProgram, walkPrograms_joinSep sp comps cl tail hcomps hcl ht]
  simp

/-- everything the end-to-end theorems need of the anchor, in one place -/
theorem e2e_setup (σ : Sem) (κ : Casing) (t : Tok) (base : Str) (pre : List Str)
    (hP : prefixSpells (partition κ t).1 pre = true) (rv : RootView)
    (hnames : allPathsLB goodNames [] (toWTList rv.children) = true) :
    let root := if (partition κ t).1 = [] then base else join base (partition κ t).1
    globWalkPipeline σ κ base t [] = globPipeline σ root (compiledProgram t pre.length) ∧
    entryFaithfulP root pre [] = true ∧
    allPathsLB (entryFaithfulP root pre) [] (toWTList rv.children) = true := by
  intro root
  have hPeq : (partition κ t).1 = (invariantTextPrefix κ t).2 := partition_fst κ t
  have hanchor := anchor_spells κ t base pre (hPeq ▸ hP)
  refine ⟨?_, anchor_faithful base _ pre [] hP rfl, ?_⟩
  · rw [globWalkPipeline_nil, hanchor, ← hPeq]
  · exact allPathsLB_mono goodNames _ (fun q hq => anchor_faithful base _ pre q hP hq) _ [] hnames

/--
**C02 + C08 + C14 END TO END (`glob_walk_e2e_partial`)**: `Glob::walk(base)` as the model computes
it and as the driver runs it (`Cmd.globWalkPipeline`, `cmdWith_glob`), composed through
`Glob::anchor`.

Hypotheses:
* `hσ`, `hdot`: the comparison of characters does not confuse the separator; `(?s)`;
* the compiled fragment of `glob_walk_bounded_exact_compiled`: `t = c₁/…/cₖ/c[/**…]` (`k ≥ 0`) with
  boundary-free components inside `F01`;
* `hP` (`prefixSpells`, decidable): the invariant text prefix `P` — the first component of
  `partition`, the text `anchor` joins to the base — is relative (the glob is unrooted,
  K-ENTRY-ROOTED-DEPTH) and spells the names `pre` canonically (no `.` / `..` / empty component,
  K-WALK-DOT-PREFIX);
* `hwf`, `hreach`: the depth behaviour is representable and its maximum reaches the pivot
  (`reach_needed`); for `DepthBehavior.unbounded` both are trivial (`glob_walk_e2e_unbounded`);
* `hnames` (decidable): the names in the recorded tree are names walkdir can report (not empty, no
  separator, not `.` or `..`).  NO hypothesis on the base, and none on the path arithmetic
  (`entryFaithfulP` is derived: `anchor_faithful`).

Conclusion, with `π` the pipeline of the driver and `yielded` the entries the consumer receives:
1. the walk starts at `join base P` (at `base` when the prefix is empty) with pivot `pre.length`;
2. the complete program accepts exactly the documented language of the FULL glob;
3. `yielded` is — same entries, same order, same file types — the list of the entries `e` of the
   unpruned traversal of the tree at `join base P` that lie beneath the base (`pre ++ e.names ≠ []`:
   the base itself is not beneath the base) such that the full glob matches the path of the entry
   RELATIVE TO THE BASE (the prefix names, then the names walkdir reports, joined by `/`) and the
   behaviour admits its depth from the base;
4. each yielded entry has the path `join base P` joined with its names, `root_relative_paths` =
   (`base` without trailing separators, that relative path), whose components are the names, all
   `Normal`, and `GlobEntry::depth` (walkdir depth + pivot) is their number.

FULL statement (not proved, and false as it stands for the listed findings): the same for every
`t` with `build e = some t`, every `base`, every `b`, with `pre := normals (components P)` and
without `hP`, `hreach`, `hnames`.  Partial in exactly this sense: the glob is in the compiled
fragment (`hcomps`, `hcl`, `ht`, `hF`: what `programsSound_compiled` covers; a glob whose first
component holds a tree wildcard or a separator inside a branch is outside); `hP` excludes rooted
prefixes (K-ENTRY-ROOTED-DEPTH: the pivot is one too many, `entry_rooted_off_by_one`), `.`/`..`
components (K-WALK-DOT-PREFIX) and non-canonical prefix text; `hreach` cannot be dropped
(`reach_needed`); `hnames` holds for every tree walkdir can report (`walkRootView_goodNames`).
`partOk` is not needed here: it enters when the statement is transported to the POSTFIX
(`glob_walk_e2e_postfix_partial`).
-/
theorem glob_walk_e2e_partial (σ : Sem) (hσ : SepIsolated σ) (hdot : σ.dotall = true) (κ : Casing)
    (sp : Span) (comps : List (List Tok × Span)) (cl tail : List Tok)
    (hcomps : ∀ c ∈ comps, compOk c.1 = true) (hcl : compOk cl = true) (ht : TailOk tail)
    (hF : F01 (.cat sp (joinSep comps (cl ++ tail))) = true)
    (base : Str) (pre : List Str)
    (hP : prefixSpells (partition κ (.cat sp (joinSep comps (cl ++ tail)))).1 pre = true)
    (b : DepthBehavior) (hwf : b.wf) (hreach : ∀ u, b.upper = some u → pre.length ≤ u)
    (rv : RootView) (hnames : allPathsLB goodNames [] (toWTList rv.children) = true) :
    let t : Tok := .cat sp (joinSep comps (cl ++ tail))
    let P := (partition κ t).1
    let π := globWalkPipeline σ κ base t []
    let yielded := π.filtrateEntries (π.items (b.atPivot π.pivot).1 (b.atPivot π.pivot).2 rv)
    (π.root = (if P = [] then base else join base P) ∧ π.pivot = pre.length) ∧
    (∀ w, (encodeTop t).matchB σ w = true ↔ Spec.Matches σ t w) ∧
    yielded = (unpruned rv).filter (fun e =>
        !(pre ++ e.names).isEmpty && (encodeTop t).matchB σ (relOf (pre ++ e.names)) &&
          decide (b.admits (pre ++ e.names).length)) ∧
    ∀ e ∈ yielded,
      π.path e = joinAll (if P = [] then base else join base P) e.names ∧
      π.relativeFor e .filtrate = (trim base, relOf (pre ++ e.names)) ∧
      components (π.relativeFor e .filtrate).1 = components base ∧
      components (π.relativeFor e .filtrate).2 = (pre ++ e.names).map Comp.normal ∧
      e.depth + π.pivot = (components (π.relativeFor e .filtrate).2).length := by
  intro t P π yielded
  obtain ⟨hπ, hf0, hfaith⟩ := e2e_setup σ κ t base pre hP rv hnames
  have hπ' : π = globPipeline σ (if P = [] then base else join base P)
      (compiledProgram t pre.length) := hπ
  have hs := programsSound_compiled σ hσ hdot sp comps cl tail hcomps hcl ht hF pre.length
  have hcomp := compiled_components_ne_nil sp comps cl tail hcomps hcl ht pre.length
  have hpiv : π.pivot = pre.length := by rw [hπ']; rfl
  have hy : yielded = (unpruned rv).filter (fun e =>
        !(pre ++ e.names).isEmpty && (encodeTop t).matchB σ (relOf (pre ++ e.names)) &&
          decide (b.admits (pre ++ e.names).length)) := by
    show π.filtrateEntries (π.items (b.atPivot π.pivot).1 (b.atPivot π.pivot).2 rv) = _
    rw [hpiv, hπ']
    rw [glob_walk_bounds_exact_beneath σ (compiledProgram t pre.length) hs hcomp pre rfl _ _ _ rv
      hf0 hfaith]
    apply List.filter_congr
    intro e _
    rw [within_atPivot b hwf pre.length hreach]
    have hd : e.depth + pre.length = (pre ++ e.names).length := by
      simp only [Entry.depth, List.length_append]; omega
    rw [hd]
    rfl
  refine ⟨⟨by rw [hπ']; rfl, hpiv⟩, fun w => compiled_complete_iff σ hdot t hF 0 w, hy, ?_⟩
  intro e he
  rw [hy] at he
  obtain ⟨hmem, hkeep⟩ := List.mem_filter.mp he
  have hgn : goodNames e.names = true :=
    walk_ok_good goodNames 0 none never rv rfl hnames e hmem
  have hne : pre ++ e.names ≠ [] := by
    simp only [Bool.and_eq_true, Bool.not_eq_true', List.isEmpty_eq_false_iff] at hkeep
    exact hkeep.1.1
  have hsplit := splitAtDepth_anchor base P pre e.names hP hgn
  have hnot : ¬ (P = [] ∧ e.names = []) := by
    rintro ⟨h1, h2⟩
    exact hne (by rw [(prefixSpells_nil_iff hP).mp h1, h2]; rfl)
  rw [if_neg hnot] at hsplit
  have hrel : π.relativeFor e .filtrate = (trim base, relOf (pre ++ e.names)) := by
    rw [hπ']
    simp only [Pipeline.relativeFor, Pipeline.path, Pipeline.pivot, globPipeline, compiledProgram,
      if_true, Entry.depth]
    exact hsplit
  have hgood : goodNames (pre ++ e.names) = true :=
    goodNames_append.mpr ⟨by simp only [prefixSpells, Bool.and_eq_true] at hP; exact hP.1, hgn⟩
  refine ⟨by rw [hπ']; rfl, hrel, ?_, ?_, ?_⟩
  · rw [hrel]; exact components_trim base
  · rw [hrel]; exact components_relOf_good hgood
  · rw [hrel, hpiv]
    simp only [components_relOf_good hgood, List.length_map, List.length_append, Entry.depth]
    omega


/-! ### in terms of the documented language; no entry twice -/

/-- **C02 as a statement about membership**: an entry is yielded iff it is an entry of the tree
    beneath the base whose path relative to the base is in the documented language of the full
    glob (and whose depth is admitted) — no other entry; and none twice when no directory of the
    tree has two children of the same name -/
theorem glob_walk_e2e_mem (σ : Sem) (hσ : SepIsolated σ) (hdot : σ.dotall = true) (κ : Casing)
    (sp : Span) (comps : List (List Tok × Span)) (cl tail : List Tok)
    (hcomps : ∀ c ∈ comps, compOk c.1 = true) (hcl : compOk cl = true) (ht : TailOk tail)
    (hF : F01 (.cat sp (joinSep comps (cl ++ tail))) = true)
    (base : Str) (pre : List Str)
    (hP : prefixSpells (partition κ (.cat sp (joinSep comps (cl ++ tail)))).1 pre = true)
    (b : DepthBehavior) (hwf : b.wf) (hreach : ∀ u, b.upper = some u → pre.length ≤ u)
    (rv : RootView) (hnames : allPathsLB goodNames [] (toWTList rv.children) = true) :
    let t : Tok := .cat sp (joinSep comps (cl ++ tail))
    let π := globWalkPipeline σ κ base t []
    let yielded := π.filtrateEntries (π.items (b.atPivot π.pivot).1 (b.atPivot π.pivot).2 rv)
    (∀ e, e ∈ yielded ↔ e ∈ unpruned rv ∧ pre ++ e.names ≠ [] ∧
        Spec.Matches σ t (relOf (pre ++ e.names)) ∧ b.admits (pre ++ e.names).length) ∧
    (rv.distinct = true → yielded.Nodup) := by
  intro t π yielded
  obtain ⟨_, hm, hy, _⟩ := glob_walk_e2e_partial σ hσ hdot κ sp comps cl tail hcomps hcl ht hF base pre
    hP b hwf hreach rv hnames
  have hy' : yielded = _ := hy
  refine ⟨fun e => ?_, fun hd => ?_⟩
  · rw [hy', List.mem_filter]
    simp only [Bool.and_eq_true, Bool.not_eq_true', List.isEmpty_eq_false_iff, decide_eq_true_eq,
      hm, and_assoc]
    exact Iff.rfl
  · rw [hy']
    have : (unpruned rv).Nodup := by
      unfold unpruned
      rw [walkItems_eq_spec]
      exact walkSpec_nodup 0 none never rv hd
    exact this.sublist List.filter_sublist

/-- **the walk without depth bounds** (`WalkBehavior::default`) -/
theorem glob_walk_e2e_unbounded (σ : Sem) (hσ : SepIsolated σ) (hdot : σ.dotall = true) (κ : Casing)
    (sp : Span) (comps : List (List Tok × Span)) (cl tail : List Tok)
    (hcomps : ∀ c ∈ comps, compOk c.1 = true) (hcl : compOk cl = true) (ht : TailOk tail)
    (hF : F01 (.cat sp (joinSep comps (cl ++ tail))) = true)
    (base : Str) (pre : List Str)
    (hP : prefixSpells (partition κ (.cat sp (joinSep comps (cl ++ tail)))).1 pre = true)
    (rv : RootView) (hnames : allPathsLB goodNames [] (toWTList rv.children) = true) :
    let t : Tok := .cat sp (joinSep comps (cl ++ tail))
    let π := globWalkPipeline σ κ base t []
    π.filtrateEntries (π.items 0 none rv) = (unpruned rv).filter (fun e =>
        !(pre ++ e.names).isEmpty && (encodeTop t).matchB σ (relOf (pre ++ e.names))) := by
  intro t π
  have h := (glob_walk_e2e_partial σ hσ hdot κ sp comps cl tail hcomps hcl ht hF base pre
    hP .unbounded trivial (fun u hu => by cases hu) rv hnames).2.2.1
  refine h.trans (List.filter_congr (fun e _ => ?_))
  have : DepthBehavior.unbounded.admits (pre ++ e.names).length := by
    simp [DepthBehavior.admits, DepthBehavior.lower, DepthBehavior.upper]
  rw [show decide (DepthBehavior.unbounded.admits (pre ++ e.names).length) = true from
    decide_eq_true this, Bool.and_true]

/-! ### degenerate cases -/

/-- **no invariant prefix**: the walk starts at the base itself with pivot 0, and yields the
    entries below the base whose path the glob matches -/
theorem glob_walk_e2e_no_prefix (σ : Sem) (hσ : SepIsolated σ) (hdot : σ.dotall = true) (κ : Casing)
    (sp : Span) (comps : List (List Tok × Span)) (cl tail : List Tok)
    (hcomps : ∀ c ∈ comps, compOk c.1 = true) (hcl : compOk cl = true) (ht : TailOk tail)
    (hF : F01 (.cat sp (joinSep comps (cl ++ tail))) = true)
    (base : Str)
    (hP : (partition κ (.cat sp (joinSep comps (cl ++ tail)))).1 = [])
    (b : DepthBehavior) (hwf : b.wf)
    (rv : RootView) (hnames : allPathsLB goodNames [] (toWTList rv.children) = true) :
    let t : Tok := .cat sp (joinSep comps (cl ++ tail))
    let π := globWalkPipeline σ κ base t []
    π.root = base ∧ π.pivot = 0 ∧
    π.filtrateEntries (π.items (b.atPivot 0).1 (b.atPivot 0).2 rv) = (unpruned rv).filter (fun e =>
        !e.names.isEmpty && (encodeTop t).matchB σ (relOf e.names) &&
          decide (b.admits e.names.length)) := by
  intro t π
  have hP' : prefixSpells (partition κ t).1 [] = true := by rw [hP]; rfl
  obtain ⟨⟨hr, hp⟩, _, hy, _⟩ := glob_walk_e2e_partial σ hσ hdot κ sp comps cl tail hcomps hcl ht hF
    base [] hP' b hwf (fun u _ => Nat.zero_le _) rv hnames
  refine ⟨by simpa [hP] using hr, hp, ?_⟩
  rw [hp] at hy
  simp only [List.nil_append] at hy
  exact hy

/-- the entry of the root of a walk -/
def rootEntry : RootView → List Entry
  | .err _ => []
  | .leaf k => [⟨[], k.kind⟩]
  | .dir _ => [⟨[], .d⟩]
  | .link _ => [⟨[], .l⟩]

/-- among the entries of the whole tree only the root entry has no names -/
theorem unpruned_root (rv : RootView) :
    (unpruned rv).filter (fun e => e.names.isEmpty) = rootEntry rv := by
  have below : ∀ cs : List WNode,
      (okEntries (visitListB 0 none never [] cs)).filter (fun e => e.names.isEmpty) = [] := by
    intro cs
    rw [List.filter_eq_nil_iff]
    intro e he
    obtain ⟨_, _, nm, rest, _, hn⟩ := visitListB_names 0 none never cs [] e he
    simp [hn]
  unfold unpruned
  rw [walkItems_eq_spec]
  cases rv with
  | err a => rfl
  | leaf k => rfl
  | dir cs =>
    have hn : never ⟨[], .d⟩ = false := rfl
    simp only [walkSpec, Nat.lt_irrefl, if_false, over, Bool.false_eq_true, okEntries_ok, hn,
      List.filter_cons, List.isEmpty_nil, if_true, below cs, rootEntry]
  | link cs =>
    simp only [walkSpec, Nat.lt_irrefl, if_false, over, Bool.false_eq_true, okEntries_ok,
      List.filter_cons, List.isEmpty_nil, if_true, below cs, rootEntry]

/-- **the prefix names a file** (or a link that is not followed): walkdir reports the root of the
    walk as its only entry, and it is yielded iff the glob matches the prefix itself -/
theorem glob_walk_e2e_file (σ : Sem) (hσ : SepIsolated σ) (hdot : σ.dotall = true) (κ : Casing)
    (sp : Span) (comps : List (List Tok × Span)) (cl tail : List Tok)
    (hcomps : ∀ c ∈ comps, compOk c.1 = true) (hcl : compOk cl = true) (ht : TailOk tail)
    (hF : F01 (.cat sp (joinSep comps (cl ++ tail))) = true)
    (base : Str) (pre : List Str)
    (hP : prefixSpells (partition κ (.cat sp (joinSep comps (cl ++ tail)))).1 pre = true)
    (b : DepthBehavior) (hwf : b.wf) (hreach : ∀ u, b.upper = some u → pre.length ≤ u)
    (k : LeafKind) :
    let t : Tok := .cat sp (joinSep comps (cl ++ tail))
    let π := globWalkPipeline σ κ base t []
    π.filtrateEntries (π.items (b.atPivot π.pivot).1 (b.atPivot π.pivot).2 (.leaf k)) =
      if pre ≠ [] ∧ (encodeTop t).matchB σ (relOf pre) = true ∧ b.admits pre.length
      then [⟨[], k.kind⟩] else [] := by
  intro t π
  have h := (glob_walk_e2e_partial σ hσ hdot κ sp comps cl tail hcomps hcl ht hF base pre
    hP b hwf hreach (.leaf k) rfl).2.2.1
  refine h.trans ?_
  have hu : unpruned (.leaf k) = [⟨[], k.kind⟩] := rfl
  rw [hu]
  simp only [List.filter_cons, List.filter_nil, List.append_nil]
  by_cases h1 : pre = []
  · simp [h1]
  · by_cases h2 : (encodeTop (Tok.cat sp (joinSep comps (cl ++ tail)))).matchB σ (relOf pre) = true
    · by_cases h3 : b.admits pre.length <;> simp [h1, h2, h3, t]
    · simp [h1, h2, t]


/-! ## 5. through `partition`: the same walk in terms of the POSTFIX (C08) -/

theorem relOf_ne_nil {q : List Str} (hne : q ≠ []) (hg : goodNames q = true) : relOf q ≠ [] :=
  (relOf_getLast_ne_sep hne hg).2

theorem endsNonSep_relOf {q : List Str} (hne : q ≠ []) (hg : goodNames q = true) :
    endsNonSep (relOf q) = true := by
  obtain ⟨h1, h2⟩ := relOf_getLast_ne_sep hne hg
  unfold endsNonSep
  cases hl : (relOf q).getLast? with
  | none => exact absurd (List.getLast?_eq_none_iff.mp hl) h2
  | some c =>
    have : c ≠ '/' := by rintro rfl; exact h1 hl
    simpa using this

/-- `Path::join` of the prefix text with a relative path, against the path of an entry below the
    root of the walk: the remainder is the path of the entry relative to that root -/
theorem prefix_join_split {P : Str} {pre names : List Str} (hP : prefixSpells P pre = true)
    (hn : goodNames names = true) (hne : names ≠ []) :
    (∀ r, relOf (pre ++ names) = joinPath P r ↔ r = relOf names) ∧ relOf (pre ++ names) ≠ P := by
  have hrn := relOf_ne_nil hne hn
  simp only [prefixSpells, Bool.and_eq_true, Bool.or_eq_true, beq_iff_eq, Bool.not_eq_true',
    List.isEmpty_eq_false_iff] at hP
  obtain ⟨hg, h | ⟨hpne, h⟩⟩ := hP
  · subst h
    by_cases hp0 : pre = []
    · subst hp0
      simp only [relOf, joinPath_nil, List.nil_append]
      exact ⟨fun r => eq_comm, hrn⟩
    · rw [relOf_append hp0 hne]
      refine ⟨fun r => ?_, ?_⟩
      · rw [joinPath_nonSep (endsNonSep_relOf hp0 hg)]
        constructor
        · intro h
          have := List.append_cancel_left h
          simp only [List.cons.injEq, true_and] at this
          exact this.symm
        · rintro rfl; rfl
      · intro h
        have := congrArg List.length h
        simp at this
  · subst h
    rw [relOf_append hpne hne]
    refine ⟨fun r => ?_, ?_⟩
    · rw [joinPath_sep]
      constructor
      · intro h
        have := List.append_cancel_left h
        simp only [List.cons.injEq, true_and] at this
        exact this.symm
      · rintro rfl; rfl
    · intro h
      have := List.append_cancel_left h
      simp only [List.cons.injEq, true_and] at this
      exact hrn this

/-- ... and the prefix itself (the root of the walk) is not of the joined form -/
theorem prefix_root_not_joined {P : Str} {pre : List Str} (hP : prefixSpells P pre = true)
    (hpne : pre ≠ []) (r : Str) : relOf pre ≠ joinPath P r := by
  simp only [prefixSpells, Bool.and_eq_true, Bool.or_eq_true, beq_iff_eq, Bool.not_eq_true',
    List.isEmpty_eq_false_iff] at hP
  obtain ⟨hg, h | ⟨_, h⟩⟩ := hP
  · subst h
    rw [joinPath_nonSep (endsNonSep_relOf hpne hg)]
    intro h
    have := congrArg List.length h
    simp at this
  · subst h
    rw [joinPath_sep]
    intro h
    have := congrArg List.length h
    simp at this

/-- **C08 on the paths of a walk**: under `partOk`, the full glob matches the path of an entry
    relative to the BASE iff the postfix matches its path relative to the ROOT OF THE WALK (below
    the root); the root of the walk itself is matched only by `P/**` (`bareTree`) -/
theorem matches_base_iff_postfix (σ : Sem) (κ : Casing) (t : Tok)
    (hc : CasingHyp σ κ (cutToks κ t)) (hok : partOk κ t = true)
    (P : Str) (off : Nat) (q : Tok) (hpart : partition κ t = (P, off, some q))
    (pre : List Str) (hP : prefixSpells P pre = true) :
    (∀ names, goodNames names = true → names ≠ [] →
      (Spec.Matches σ t (relOf (pre ++ names)) ↔ Spec.Matches σ q (relOf names))) ∧
    (pre ≠ [] → (Spec.Matches σ t (relOf pre) ↔ (bareTree q = true ∧ P = relOf pre))) := by
  have hl := ((partition_lang_all_partial σ κ t hc hok).1 P off q hpart).1
  constructor
  · intro names hn hne
    obtain ⟨h1, h2⟩ := prefix_join_split hP hn hne
    rw [hl]
    constructor
    · rintro (⟨r, hr, hm⟩ | ⟨_, hw⟩)
      · rw [(h1 r).mp hr] at hm; exact hm
      · exact absurd hw h2
    · intro h
      exact .inl ⟨relOf names, (h1 _).mpr rfl, h⟩
  · intro hpne
    rw [hl]
    constructor
    · rintro (⟨r, hr, _⟩ | ⟨hb, hw⟩)
      · exact absurd hr (prefix_root_not_joined hP hpne r)
      · exact ⟨hb, hw.symm⟩
    · rintro ⟨hb, hw⟩
      exact .inr ⟨hb, hw.symm⟩

/--
**the walk in terms of the postfix (`glob_walk_e2e_postfix_partial`)**: C02 composed with C08
through `anchor`.  With the hypotheses of `glob_walk_e2e_partial` and, in addition, `partOk`
(decidable) and the casing hypothesis of `partition_lang_all_partial`, if `partition` splits the
glob into the prefix text `P` and the postfix `q`:
* an entry BELOW the root of the walk `join base P` is yielded iff it is an entry of the tree
  there and the POSTFIX matches its path relative to that root (and its depth from the base is
  admitted) — `glob.walk(base)` finds what `postfix.walk(base.join(prefix))` is documented to find;
* the root of the walk itself is yielded iff there is a prefix, the postfix is the bare tree
  wildcard (`P/**`) and the prefix text has no final separator;
* the postfix is an unrooted glob that `partition` leaves whole (its own walk has pivot 0).
-/
theorem glob_walk_e2e_postfix_partial (σ : Sem) (hσ : SepIsolated σ) (hdot : σ.dotall = true)
    (κ : Casing)
    (sp : Span) (comps : List (List Tok × Span)) (cl tail : List Tok)
    (hcomps : ∀ c ∈ comps, compOk c.1 = true) (hcl : compOk cl = true) (ht : TailOk tail)
    (hF : F01 (.cat sp (joinSep comps (cl ++ tail))) = true)
    (hc : CasingHyp σ κ (cutToks κ (.cat sp (joinSep comps (cl ++ tail)))))
    (hok : partOk κ (.cat sp (joinSep comps (cl ++ tail))) = true)
    (P : Str) (off : Nat) (q : Tok)
    (hpart : partition κ (.cat sp (joinSep comps (cl ++ tail))) = (P, off, some q))
    (base : Str) (pre : List Str) (hP : prefixSpells P pre = true)
    (b : DepthBehavior) (hwf : b.wf) (hreach : ∀ u, b.upper = some u → pre.length ≤ u)
    (rv : RootView) (hnames : allPathsLB goodNames [] (toWTList rv.children) = true) :
    let t : Tok := .cat sp (joinSep comps (cl ++ tail))
    let π := globWalkPipeline σ κ base t []
    let yielded := π.filtrateEntries (π.items (b.atPivot π.pivot).1 (b.atPivot π.pivot).2 rv)
    (π.root = (if P = [] then base else join base P) ∧ π.pivot = pre.length) ∧
    (∀ e, e.names ≠ [] → (e ∈ yielded ↔ e ∈ unpruned rv ∧ Spec.Matches σ q (relOf e.names) ∧
        b.admits (pre ++ e.names).length)) ∧
    (∀ e, e.names = [] → (e ∈ yielded ↔ e ∈ unpruned rv ∧ pre ≠ [] ∧ bareTree q = true ∧
        P = relOf pre ∧ b.admits pre.length)) ∧
    hasRoot q ≠ .always ∧ partition κ q = ([], 0, some q) := by
  intro t π yielded
  have hP1 : (partition κ t).1 = P := congrArg Prod.fst hpart
  have hP' : prefixSpells (partition κ t).1 pre = true := by rw [hP1]; exact hP
  obtain ⟨hanch, _, _, _⟩ := glob_walk_e2e_partial σ hσ hdot κ sp comps cl tail hcomps hcl ht hF base
    pre hP' b hwf hreach rv hnames
  obtain ⟨hmem, _⟩ := glob_walk_e2e_mem σ hσ hdot κ sp comps cl tail hcomps hcl ht hF base
    pre hP' b hwf hreach rv hnames
  obtain ⟨hbelow, hroot⟩ := matches_base_iff_postfix σ κ t hc hok P off q hpart pre hP
  have hrest := (partition_lang_all_partial σ κ t hc hok).1 P off q hpart
  refine ⟨by rw [← hP1]; exact hanch, ?_, ?_, hrest.2.1, hrest.2.2⟩
  · intro e hne
    rw [hmem e]
    constructor
    · rintro ⟨h1, _, h3, h4⟩
      have hgn : goodNames e.names = true :=
        walk_ok_good goodNames 0 none never rv rfl hnames e h1
      exact ⟨h1, (hbelow e.names hgn hne).mp h3, h4⟩
    · rintro ⟨h1, h3, h4⟩
      have hgn : goodNames e.names = true :=
        walk_ok_good goodNames 0 none never rv rfl hnames e h1
      exact ⟨h1, by simp [hne], (hbelow e.names hgn hne).mpr h3, h4⟩
  · intro e he0
    rw [hmem e, he0, List.append_nil]
    constructor
    · rintro ⟨h1, h2, h3, h4⟩
      obtain ⟨hb, hw⟩ := (hroot h2).mp h3
      exact ⟨h1, h2, hb, hw, h4⟩
    · rintro ⟨h1, h2, hb, hw, h4⟩
      exact ⟨h1, h2, (hroot h2).mpr ⟨hb, hw⟩, h4⟩

theorem rootEntry_length (rv : RootView) : (rootEntry rv).length ≤ 1 := by
  cases rv <;> simp [rootEntry]

/--
**a glob that is invariant text only (`glob_walk_e2e_invariant_partial`)**: `partition` leaves no
postfix; the walk is rooted at the one path the glob can match and yields AT MOST THAT ONE PATH:
the root entry of the walk — if the path exists (`rootEntry`), the prefix text has no final
separator, and the depth is admitted — and nothing below it, whatever the tree holds.
-/
theorem glob_walk_e2e_invariant_partial (σ : Sem) (hσ : SepIsolated σ) (hdot : σ.dotall = true)
    (κ : Casing)
    (sp : Span) (comps : List (List Tok × Span)) (cl tail : List Tok)
    (hcomps : ∀ c ∈ comps, compOk c.1 = true) (hcl : compOk cl = true) (ht : TailOk tail)
    (hF : F01 (.cat sp (joinSep comps (cl ++ tail))) = true)
    (hc : CasingHyp σ κ (cutToks κ (.cat sp (joinSep comps (cl ++ tail)))))
    (hok : partOk κ (.cat sp (joinSep comps (cl ++ tail))) = true)
    (P : Str) (off : Nat)
    (hpart : partition κ (.cat sp (joinSep comps (cl ++ tail))) = (P, off, none))
    (base : Str) (pre : List Str) (hP : prefixSpells P pre = true)
    (b : DepthBehavior) (hwf : b.wf) (hreach : ∀ u, b.upper = some u → pre.length ≤ u)
    (rv : RootView) (hnames : allPathsLB goodNames [] (toWTList rv.children) = true) :
    let t : Tok := .cat sp (joinSep comps (cl ++ tail))
    let π := globWalkPipeline σ κ base t []
    let yielded := π.filtrateEntries (π.items (b.atPivot π.pivot).1 (b.atPivot π.pivot).2 rv)
    yielded = (rootEntry rv).filter (fun _ =>
        !pre.isEmpty && decide (P = relOf pre) && decide (b.admits pre.length)) ∧
    yielded.length ≤ 1 ∧ ∀ e ∈ yielded, e.names = [] := by
  intro t π yielded
  have hP1 : (partition κ t).1 = P := congrArg Prod.fst hpart
  have hP' : prefixSpells (partition κ t).1 pre = true := by rw [hP1]; exact hP
  obtain ⟨_, hm, hy, _⟩ := glob_walk_e2e_partial σ hσ hdot κ sp comps cl tail hcomps hcl ht hF base
    pre hP' b hwf hreach rv hnames
  have hl := (partition_lang_all_partial σ κ t hc hok).2.1 P off hpart
  have hy' : yielded = (rootEntry rv).filter (fun _ =>
      !pre.isEmpty && decide (P = relOf pre) && decide (b.admits pre.length)) := by
    refine (hy.trans ?_)
    rw [← unpruned_root rv, List.filter_filter]
    apply List.filter_congr
    intro e he
    have hgn : goodNames e.names = true :=
      walk_ok_good goodNames 0 none never rv rfl hnames e he
    have hmatch : (encodeTop t).matchB σ (relOf (pre ++ e.names)) = decide (relOf (pre ++ e.names) = P) := by
      rw [Bool.eq_iff_iff, hm, hl, decide_eq_true_eq]
    show (!(pre ++ e.names).isEmpty && (encodeTop t).matchB σ (relOf (pre ++ e.names)) &&
      decide (b.admits (pre ++ e.names).length)) = _
    rw [hmatch]
    by_cases hne : e.names = []
    · rw [hne, List.append_nil]
      simp only [List.isEmpty_nil, Bool.and_true]
      congr 2
      rw [Bool.eq_iff_iff, decide_eq_true_eq, decide_eq_true_eq]
      exact eq_comm
    · have h2 := (prefix_join_split hP hgn hne).2
      have h3 : e.names.isEmpty = false := by simpa using hne
      simp [h2, h3]
  refine ⟨hy', ?_, ?_⟩
  · rw [hy']
    exact Nat.le_trans (List.length_filter_le _ _) (rootEntry_length rv)
  · intro e he
    rw [hy'] at he
    have := (List.mem_filter.mp he).1
    cases rv <;> simp [rootEntry] at this <;> simp [this]


/-! ### the driver's comparison of characters -/

theorem foldKey_sep (c : Char) : foldKey c = 47 ↔ c.toNat = 47 := by
  unfold foldKey
  simp only [Bool.and_eq_true, decide_eq_true_eq, beq_iff_eq, bne_iff_ne, Bool.or_eq_true]
  split
  · omega
  · split
    · omega
    · split
      · omega
      · split
        · omega
        · split
          · omega
          · split
            · omega
            · rfl

/-- the comparison of characters the driver uses folds nothing onto the separator -/
theorem drvSem_sepIsolated : SepIsolated drvSem := by
  intro a b h
  have h' : foldKey a = foldKey b := by simpa [drvSem, drvCeq] using h
  have key : a.toNat = 47 ↔ b.toNat = 47 := by
    rw [← foldKey_sep a, ← foldKey_sep b, h']
  constructor
  · intro ha; subst ha
    exact Char.toNat_inj.mp (key.mp (by decide))
  · intro hb; subst hb
    exact Char.toNat_inj.mp (key.mpr (by decide))

/-! ## 6. every recorded tree: the names walkdir can report -/

mutual
  /-- every name in the recorded tree is a name walkdir can report -/
  def RNode.namesOk : RNode → Bool
    | .file n => goodName n
    | .dir n cs => goodName n && rnodesOk cs
    | .unreadable n => goodName n
    | .linkDangling n => goodName n
    | .linkFile n => goodName n
    | .linkDir n cs => goodName n && rnodesOk cs
    | .linkCycle n => goodName n
    | .linkUnreadable n => goodName n
  def rnodesOk : List RNode → Bool
    | [] => true
    | n :: ns => n.namesOk && rnodesOk ns
end

theorem goodNames_snoc {p : List Str} {n : Str} (hp : goodNames p = true) (hn : goodName n = true) :
    goodNames (p ++ [n]) = true :=
  goodNames_append.mpr ⟨hp, by simpa [goodNames] using hn⟩

mutual
  theorem view_goodNames (follow : Bool) : ∀ (n : RNode) (p : List Str), goodNames p = true →
      n.namesOk = true → allPathsB goodNames p (view follow n).toWT = true
    | .file n, p, hp, h => by
      simp only [RNode.namesOk] at h
      simp only [view, WNode.toWT, allPathsB, goodNames_snoc hp h]
    | .dir n cs, p, hp, h => by
      simp only [RNode.namesOk, Bool.and_eq_true] at h
      simp only [view, WNode.toWT, allPathsB, goodNames_snoc hp h.1, Bool.true_and]
      exact viewList_goodNames follow cs _ (goodNames_snoc hp h.1) h.2
    | .unreadable n, p, hp, h => by
      simp only [RNode.namesOk] at h
      simp [view, WNode.toWT, toWTList, allPathsB, allPathsLB, goodNames_snoc hp h]
    | .linkDangling n, p, hp, h => by
      simp only [RNode.namesOk] at h
      cases follow <;> simp [view, WNode.toWT, allPathsB, goodNames_snoc hp h]
    | .linkFile n, p, hp, h => by
      simp only [RNode.namesOk] at h
      cases follow <;> simp [view, WNode.toWT, allPathsB, goodNames_snoc hp h]
    | .linkDir n cs, p, hp, h => by
      simp only [RNode.namesOk, Bool.and_eq_true] at h
      cases follow with
      | false => simp [view, WNode.toWT, allPathsB, goodNames_snoc hp h.1]
      | true =>
        simp only [view, if_true, WNode.toWT, allPathsB, goodNames_snoc hp h.1, Bool.true_and]
        exact viewList_goodNames true cs _ (goodNames_snoc hp h.1) h.2
    | .linkCycle n, p, hp, h => by
      simp only [RNode.namesOk] at h
      cases follow <;> simp [view, WNode.toWT, allPathsB, goodNames_snoc hp h]
    | .linkUnreadable n, p, hp, h => by
      simp only [RNode.namesOk] at h
      cases follow <;> simp [view, WNode.toWT, allPathsB, goodNames_snoc hp h]
  theorem viewList_goodNames (follow : Bool) : ∀ (ns : List RNode) (p : List Str),
      goodNames p = true → rnodesOk ns = true →
      allPathsLB goodNames p (toWTList (viewList follow ns)) = true
    | [], _, _, _ => rfl
    | n :: ns, p, hp, h => by
      simp only [rnodesOk, Bool.and_eq_true] at h
      simp only [viewList, toWTList, allPathsLB, view_goodNames follow n p hp h.1,
        viewList_goodNames follow ns p hp h.2, Bool.and_self]
end

/-- the children of a recorded node have reportable names -/
def RNode.kidsOk : RNode → Bool
  | .dir _ cs => rnodesOk cs
  | .linkDir _ cs => rnodesOk cs
  | _ => true

theorem RNode.kidsOk_of_namesOk : ∀ (n : RNode), n.namesOk = true → n.kidsOk = true
  | .file _, _ => rfl
  | .dir _ cs, h => by simp only [RNode.namesOk, Bool.and_eq_true] at h; exact h.2
  | .unreadable _, _ => rfl
  | .linkDangling _, _ => rfl
  | .linkFile _, _ => rfl
  | .linkDir _ cs, h => by simp only [RNode.namesOk, Bool.and_eq_true] at h; exact h.2
  | .linkCycle _, _ => rfl
  | .linkUnreadable _, _ => rfl

/-- the root view of a node whose children have reportable names -/
theorem rootView_goodNames (follow final : Bool) (n : RNode) (rv : RootView)
    (h : rootView follow final n = some rv) (hk : n.kidsOk = true) :
    allPathsLB goodNames [] (toWTList rv.children) = true := by
  have hvl : ∀ cs, rnodesOk cs = true →
      allPathsLB goodNames [] (toWTList (viewList follow cs)) = true :=
    fun cs hcs => viewList_goodNames follow cs [] rfl hcs
  cases n with
  | file nm => simp only [rootView, Option.some.injEq] at h; subst h; rfl
  | dir nm cs => simp only [rootView, Option.some.injEq] at h; subst h; exact hvl cs hk
  | unreadable nm => simp only [rootView, Option.some.injEq] at h; subst h; rfl
  | linkDangling nm => simp only [rootView, Option.some.injEq] at h; subst h; rfl
  | linkFile nm => simp only [rootView, Option.some.injEq] at h; subst h; rfl
  | linkDir nm cs =>
    simp only [rootView, Option.some.injEq] at h; subst h
    split <;> exact hvl cs hk
  | linkUnreadable nm =>
    simp only [rootView, Option.some.injEq] at h; subst h
    split
    · rfl
    · split <;> rfl
  | linkCycle nm => simp [rootView] at h

theorem findChild_namesOk : ∀ (cs : List RNode) (nm : Str) (c : RNode), rnodesOk cs = true →
    findChild nm cs = some c → c.namesOk = true
  | [], _, _, _, h => by simp [findChild] at h
  | n :: ns, nm, c, hok, h => by
    simp only [rnodesOk, Bool.and_eq_true] at hok
    simp only [findChild] at h
    split at h
    · simp only [Option.some.injEq] at h; subst h; exact hok.1
    · exact findChild_namesOk ns nm c hok.2 h

theorem children_ok {n : RNode} {cs : List RNode} (hk : n.kidsOk = true)
    (h : n.children? = some cs) : rnodesOk cs = true := by
  cases n <;> simp [RNode.children?] at h <;> subst h <;> exact hk

/-- path resolution stays among nodes whose children have reportable names -/
theorem resolvePieces_kidsOk : ∀ (pieces : List Str) (stack st' : List RNode),
    (∀ n ∈ stack, n.kidsOk = true) → resolvePieces stack pieces = some st' →
    ∀ n ∈ st', n.kidsOk = true
  | [], stack, st', hs, h => by
    simp only [resolvePieces, Option.some.injEq] at h; subst h; exact hs
  | p :: ps, [], st', _, h => by simp [resolvePieces] at h
  | p :: ps, top :: below, st', hs, h => by
    have hbelow : ∀ n ∈ below, n.kidsOk = true := fun n hn => hs n (List.mem_cons_of_mem _ hn)
    simp only [resolvePieces] at h
    split at h
    · split at h
      · exact resolvePieces_kidsOk ps _ st' hs h
      · cases h
    · split at h
      · split at h
        · exact resolvePieces_kidsOk ps _ st' hs h
        · cases h
      · split at h
        · split at h
          · split at h
            · exact resolvePieces_kidsOk ps _ st' hs h
            · exact resolvePieces_kidsOk ps _ st' hbelow h
          · cases h
        · split at h
          · rename_i cs hcs
            split at h
            · rename_i c hc
              refine resolvePieces_kidsOk ps _ st' ?_ h
              intro n hn
              rcases List.mem_cons.mp hn with rfl | hn
              · exact RNode.kidsOk_of_namesOk _
                  (findChild_namesOk cs p _ (children_ok (hs top (List.mem_cons_self ..)) hcs) hc)
              · exact hs n hn
            · cases h
          · cases h

/-- **every recorded tree**: when the names of the recorded tree (and of the directories leading
    to it) are names walkdir can report — decidable — the root view the driver resolves for ANY
    root of a walk satisfies the hypothesis `hnames` of the end-to-end theorems -/
theorem walkRootView_goodNames (walkRoot : Str) (follow : Bool) (rootPath : Str)
    (recorded : List RNode)
    (hrec : rnodesOk (chainBelow recorded (normals (components rootPath))) = true)
    (rv : RootView) (h : walkRootView walkRoot follow rootPath recorded = some rv) :
    allPathsLB goodNames [] (toWTList rv.children) = true := by
  unfold walkRootView at h
  simp only at h
  split at h
  · simp only [Option.some.injEq] at h; subst h; rfl
  · rename_i node final hres
    refine rootView_goodNames follow final node rv h ?_
    -- the node comes from `resolve`
    cases hab : (if isAbsolute walkRoot = true then some walkRoot
        else if walkRoot.isEmpty = true then none else some (rootPath ++ '/' :: walkRoot)) with
    | none => rw [hab] at hres; simp at hres
    | some p =>
      rw [hab] at hres
      simp only [Option.bind_some, resolve] at hres
      split at hres
      · cases hres
      · split at hres
        · rename_i n rest hrp
          simp only [Option.some.injEq, Prod.mk.injEq] at hres
          obtain ⟨rfl, _⟩ := hres
          exact resolvePieces_kidsOk _ _ _ (by
            intro m hm
            simp only [List.mem_singleton] at hm
            subst hm
            exact hrec) hrp n (List.mem_cons_self ..)
        · cases hres


/--
**the end-to-end theorem at the driver** (`glob_walk_e2e_driver`): what `cmdWith` computes for a
request `W g <base> <expr> <link> <min> <max> - <root> <rec>` (`cmdWith_glob`: the answer line is
`render` of these items) — for EVERY recorded tree whose names are names walkdir can report
(`hrec`, decidable) and every root view `rv` the driver resolves in it for the root of the walk:
the conclusion of `glob_walk_e2e_partial` for the driver's tables `drvSem` / `drvCasing`.
-/
theorem glob_walk_e2e_driver
    (sp : Span) (comps : List (List Tok × Span)) (cl tail : List Tok)
    (hcomps : ∀ c ∈ comps, compOk c.1 = true) (hcl : compOk cl = true) (ht : TailOk tail)
    (hF : F01 (.cat sp (joinSep comps (cl ++ tail))) = true)
    (base : Str) (pre : List Str)
    (hP : prefixSpells (partition drvCasing (.cat sp (joinSep comps (cl ++ tail)))).1 pre = true)
    (b : DepthBehavior) (hwf : b.wf) (hreach : ∀ u, b.upper = some u → pre.length ≤ u)
    (follow : Bool) (rootPath : Str) (recorded : List RNode)
    (hrec : rnodesOk (chainBelow recorded (normals (components rootPath))) = true)
    (rv : RootView)
    (hrv : walkRootView (globWalkPipeline drvSem drvCasing base
      (.cat sp (joinSep comps (cl ++ tail))) []).root follow rootPath recorded = some rv) :
    let t : Tok := .cat sp (joinSep comps (cl ++ tail))
    let π := globWalkPipeline drvSem drvCasing base t []
    let yielded := π.filtrateEntries (π.items (b.atPivot π.pivot).1 (b.atPivot π.pivot).2 rv)
    yielded = (unpruned rv).filter (fun e =>
        !(pre ++ e.names).isEmpty && (encodeTop t).matchB drvSem (relOf (pre ++ e.names)) &&
          decide (b.admits (pre ++ e.names).length)) ∧
    (∀ e, e ∈ yielded ↔ e ∈ unpruned rv ∧ pre ++ e.names ≠ [] ∧
        Spec.Matches drvSem t (relOf (pre ++ e.names)) ∧ b.admits (pre ++ e.names).length) ∧
    ∀ e ∈ yielded,
      π.relativeFor e .filtrate = (trim base, relOf (pre ++ e.names)) ∧
      components (π.relativeFor e .filtrate).2 = (pre ++ e.names).map Comp.normal ∧
      e.depth + π.pivot = (components (π.relativeFor e .filtrate).2).length := by
  intro t π yielded
  have hnames := walkRootView_goodNames _ follow rootPath recorded hrec rv hrv
  have h := glob_walk_e2e_partial drvSem drvSem_sepIsolated rfl drvCasing sp comps cl tail hcomps hcl
    ht hF base pre hP b hwf hreach rv hnames
  have hm := glob_walk_e2e_mem drvSem drvSem_sepIsolated rfl drvCasing sp comps cl tail hcomps hcl
    ht hF base pre hP b hwf hreach rv hnames
  exact ⟨h.2.2.1, hm.1, fun e he => ⟨(h.2.2.2 e he).2.1, (h.2.2.2 e he).2.2.2.1,
    (h.2.2.2 e he).2.2.2.2⟩⟩

/-! ## 7. the theorems are not vacuous: the driver's own semantics, parsed globs

All instances are for `drvSem` / `drvCasing` — the tables `cmdWith` runs with — and for globs
that are what the parser and the rules make of an expression. -/

/-! ### `a/b/{x,y}*/**` from the base `r`: a two-component prefix, a branch, a tree wildcard -/

def eComps : List (List Tok × Span) :=
  [([.lit ⟨0, 1⟩ ['a'] false], ⟨1, 1⟩), ([.lit ⟨2, 1⟩ ['b'] false], ⟨3, 1⟩)]
def eLast : List Tok :=
  [.alt ⟨4, 5⟩ [.cat ⟨5, 1⟩ [.lit ⟨5, 1⟩ ['x'] false], .cat ⟨7, 1⟩ [.lit ⟨7, 1⟩ ['y'] false]],
   .zom ⟨9, 1⟩ false]
def eTail : List Tok := [.tree ⟨10, 3⟩ true]
/-- the token tree in the shape `c₁/c₂/c/**` of the compiled fragment -/
def eTok : Tok := .cat ⟨0, 13⟩ (joinSep eComps (eLast ++ eTail))
/-- the postfix `{x,y}*/**` -/
def epost : Tok := .cat ⟨0, 13⟩
    [.alt ⟨0, 5⟩ [.cat ⟨1, 1⟩ [.lit ⟨1, 1⟩ ['x'] false], .cat ⟨3, 1⟩ [.lit ⟨3, 1⟩ ['y'] false]],
     .zom ⟨5, 1⟩ false, .tree ⟨6, 3⟩ true]

/-- it IS what the parser makes of the expression ... -/
theorem eTok_parse : parse "a/b/{x,y}*/**".toList = .ok eTok := by rfl
/-- ... and what `Glob::new` (the driver's `build`) accepts -/
theorem eTok_build : Cmd.build "a/b/{x,y}*/**".toList = some eTok := by
  have h : checkS eTok = true := by decide
  simp only [Cmd.build, eTok_parse, h, if_true]

/-- `partition`: the prefix text `a/b/` (4 tokens, 4 bytes) and the postfix `{x,y}*/**` -/
theorem eTok_partition : partition drvCasing eTok = ("a/b/".toList, 4, some epost) := by rfl
/-- `Glob::anchor` for the base `r`: the walk starts at `r/a/b/`, pivot 2 (computed, not assumed) -/
theorem eTok_anchor : anchor drvCasing eTok "r".toList = ("r/a/b/".toList, 2) := by decide
theorem eTok_partOk : partOk drvCasing eTok = true := by decide
theorem eTok_spells : prefixSpells (partition drvCasing eTok).1 ["a".toList, "b".toList] = true := by
  decide

/-- the recorded tree, four levels below the root of the walk:
    `/t/r/a/b/{xs/{f, d/{g, h/{k -> file}}}, z/{xq}, y1, n, u (unreadable), w (dangling link)}`
    and `/t/r/c` -/
def eRec : List RNode :=
  [.dir "r".toList [.dir "a".toList [.dir "b".toList
    [.dir "xs".toList [.file "f".toList,
        .dir "d".toList [.file "g".toList, .dir "h".toList [.linkFile "k".toList]]],
     .dir "z".toList [.file "xq".toList], .file "y1".toList, .file "n".toList,
     .unreadable "u".toList, .linkDangling "w".toList]],
    .file "c".toList]]

/-- what walkdir (`LinkBehavior::ReadFile`) makes of `/t/r/a/b/` -/
def eRv : RootView :=
  .dir [.dir "xs".toList [.leaf "f".toList .f,
          .dir "d".toList [.leaf "g".toList .f, .dir "h".toList [.leaf "k".toList .l]]],
        .dir "z".toList [.leaf "xq".toList .f], .leaf "y1".toList .f, .leaf "n".toList .f,
        .dir "u".toList [.errHere], .leaf "w".toList .l]

/-- the root view is the one the driver resolves for the root `anchor` computed -/
theorem eRv_resolved :
    walkRootView (globWalkPipeline drvSem drvCasing "r".toList eTok []).root false "/t".toList eRec
      = some eRv := by rfl

/-- the names of the recorded tree (and of `/t`) are names walkdir can report: `hrec` of
    `glob_walk_e2e_driver` / `walkRootView_goodNames` -/
theorem eRec_ok : rnodesOk (chainBelow eRec (normals (components "/t".toList))) = true := by decide

/-- `glob_walk_e2e_driver` on the request `W g r a/b/{x,y}*/** f - - - /t <eRec>` -/
example :
    let π := globWalkPipeline drvSem drvCasing "r".toList eTok []
    π.filtrateEntries (π.items (DepthBehavior.unbounded.atPivot π.pivot).1
        (DepthBehavior.unbounded.atPivot π.pivot).2 eRv) =
      (unpruned eRv).filter (fun e =>
        !(["a".toList, "b".toList] ++ e.names).isEmpty &&
          (encodeTop eTok).matchB drvSem (relOf (["a".toList, "b".toList] ++ e.names)) &&
          decide (DepthBehavior.unbounded.admits (["a".toList, "b".toList] ++ e.names).length)) :=
  (glob_walk_e2e_driver ⟨0, 13⟩ eComps eLast eTail (by decide) (by decide) (Or.inr ⟨_, _, _, rfl⟩)
    (by decide) "r".toList ["a".toList, "b".toList] eTok_spells .unbounded trivial
    (fun u hu => by cases hu) false "/t".toList eRec eRec_ok eRv eRv_resolved).1

/-- `glob_walk_e2e_partial` on `a/b/{x,y}*/**` walked from `r` over that tree: every hypothesis is
    discharged (by evaluation, or by the theorems for `drvSem`), and the conclusion determines the
    filtrate: `a/b/xs` and everything beneath it, and `a/b/y1`; `z`, `n`, `u`, `w` do not match
    (`z` is not even read: `cancels`) -/
example :
    let π := globWalkPipeline drvSem drvCasing "r".toList eTok []
    (π.root = "r/a/b/".toList ∧ π.pivot = 2) ∧ π.cancels ⟨["z".toList], .d⟩ = true ∧
    π.filtrateEntries (π.items (DepthBehavior.unbounded.atPivot π.pivot).1
        (DepthBehavior.unbounded.atPivot π.pivot).2 eRv) =
     [⟨["xs".toList], .d⟩, ⟨["xs".toList, "f".toList], .f⟩, ⟨["xs".toList, "d".toList], .d⟩,
      ⟨["xs".toList, "d".toList, "g".toList], .f⟩, ⟨["xs".toList, "d".toList, "h".toList], .d⟩,
      ⟨["xs".toList, "d".toList, "h".toList, "k".toList], .l⟩, ⟨["y1".toList], .f⟩] := by
  intro π
  have h := glob_walk_e2e_partial drvSem drvSem_sepIsolated rfl drvCasing ⟨0, 13⟩ eComps eLast eTail
    (by decide) (by decide) (Or.inr ⟨_, _, _, rfl⟩) (by decide) "r".toList ["a".toList, "b".toList]
    eTok_spells .unbounded trivial (fun u hu => by cases hu) eRv (by decide)
  exact ⟨⟨h.1.1.trans (by decide), h.1.2⟩, by decide, h.2.2.1.trans (by decide)⟩

/-- the same with depth bounds: depths 3 to 4 from the base `r` (walkdir: 1 to 2 below `r/a/b/`) -/
example :
    let π := globWalkPipeline drvSem drvCasing "r".toList eTok []
    let b := DepthBehavior.minMax 3 1
    b.atPivot π.pivot = (1, some 2) ∧
    π.filtrateEntries (π.items (b.atPivot π.pivot).1 (b.atPivot π.pivot).2 eRv) =
     [⟨["xs".toList], .d⟩, ⟨["xs".toList, "f".toList], .f⟩, ⟨["xs".toList, "d".toList], .d⟩,
      ⟨["y1".toList], .f⟩] := by
  intro π b
  have h := glob_walk_e2e_partial drvSem drvSem_sepIsolated rfl drvCasing ⟨0, 13⟩ eComps eLast eTail
    (by decide) (by decide) (Or.inr ⟨_, _, _, rfl⟩) (by decide) "r".toList ["a".toList, "b".toList]
    eTok_spells b (by show 0 < 3; decide) (fun u hu => by cases hu; decide) eRv (by decide)
  exact ⟨by decide, h.2.2.1.trans (by decide)⟩

/-- C14 for one of the yielded entries, from the theorem: the entry `xs/d/h/k` (a link, walkdir
    depth 4) has the path `r/a/b/xs/d/h/k`, `root_relative_paths` = (`r`, `a/b/xs/d/h/k`), and
    `GlobEntry::depth` 6 = the number of components of the relative path -/
example :
    let π := globWalkPipeline drvSem drvCasing "r".toList eTok []
    let e : Entry := ⟨["xs".toList, "d".toList, "h".toList, "k".toList], .l⟩
    π.path e = "r/a/b/xs/d/h/k".toList ∧
    π.relativeFor e .filtrate = ("r".toList, "a/b/xs/d/h/k".toList) ∧
    e.depth + π.pivot = 6 ∧ (components (π.relativeFor e .filtrate).2).length = 6 := by
  intro π e
  have h := (glob_walk_e2e_partial drvSem drvSem_sepIsolated rfl drvCasing ⟨0, 13⟩ eComps eLast eTail
    (by decide) (by decide) (Or.inr ⟨_, _, _, rfl⟩) (by decide) "r".toList ["a".toList, "b".toList]
    eTok_spells .unbounded trivial (fun u hu => by cases hu) eRv (by decide)).2.2.2 e (by decide)
  obtain ⟨h1, h2, _, _, h5⟩ := h
  exact ⟨h1.trans (by decide), h2.trans (by decide), by decide, h5.symm.trans (by decide)⟩

/-- `glob_walk_e2e_mem`: no entry twice (the tree has no directory with two children of one name) -/
example :
    let π := globWalkPipeline drvSem drvCasing "r/".toList eTok []
    (π.filtrateEntries (π.items (DepthBehavior.unbounded.atPivot π.pivot).1
        (DepthBehavior.unbounded.atPivot π.pivot).2 eRv)).Nodup :=
  (glob_walk_e2e_mem drvSem drvSem_sepIsolated rfl drvCasing ⟨0, 13⟩ eComps eLast eTail
    (by decide) (by decide) (Or.inr ⟨_, _, _, rfl⟩) (by decide) "r/".toList ["a".toList, "b".toList]
    eTok_spells .unbounded trivial (fun u hu => by cases hu) eRv (by decide)).2 (by decide)

/-- `glob_walk_e2e_postfix_partial`: the same walk in terms of the postfix `{x,y}*/**` — `partOk`
    and the casing hypothesis hold; `a/b/z/xq` is not yielded because the POSTFIX does not match
    `z/xq`, `a/b/xs/f` is because it matches `xs/f` -/
example :
    let π := globWalkPipeline drvSem drvCasing "r".toList eTok []
    let yielded := π.filtrateEntries (π.items (DepthBehavior.unbounded.atPivot π.pivot).1
        (DepthBehavior.unbounded.atPivot π.pivot).2 eRv)
    (∀ e, e.names ≠ [] → (e ∈ yielded ↔ e ∈ unpruned eRv ∧ Spec.Matches drvSem epost (relOf e.names) ∧
      DepthBehavior.unbounded.admits (["a".toList, "b".toList] ++ e.names).length)) ∧
    (⟨[], .d⟩ : Entry) ∉ yielded :=  by
  intro π yielded
  have h := glob_walk_e2e_postfix_partial drvSem drvSem_sepIsolated rfl drvCasing ⟨0, 13⟩ eComps eLast
    eTail (by decide) (by decide) (Or.inr ⟨_, _, _, rfl⟩) (by decide) (.inl (by decide)) eTok_partOk
    "a/b/".toList 4 epost eTok_partition "r".toList ["a".toList, "b".toList] (by decide)
    .unbounded trivial (fun u hu => by cases hu) eRv (by decide)
  refine ⟨h.2.1, ?_⟩
  intro hm
  have := ((h.2.2.1 ⟨[], .d⟩ rfl).mp hm).2.2.1
  exact absurd this (by decide)

/-- **the root segment is the base without its trailing separators**, not the base as given: walking
    `a/b/{x,y}*/**` from `r/` (root `r/a/b/`), the entry `a/b/y1` has the root segment `r` -/
theorem root_segment_is_trimmed :
    let π := globWalkPipeline drvSem drvCasing "r/".toList eTok []
    π.root = "r/a/b/".toList ∧
    π.relativeFor ⟨["y1".toList], .f⟩ .filtrate = ("r".toList, "a/b/y1".toList) ∧
    trim "r/".toList = "r".toList := by decide

/-! ### degenerate cases on parsed globs -/

/-- `a/b/**`: the prefix text is `a/b` (cut before the tree wildcard, no final separator) -/
def fTok : Tok := .cat ⟨0, 6⟩ (joinSep [([.lit ⟨0, 1⟩ ['a'] false], ⟨1, 1⟩)]
  ([.lit ⟨2, 1⟩ ['b'] false] ++ [.tree ⟨3, 3⟩ true]))
theorem fTok_parse : parse "a/b/**".toList = .ok fTok := by rfl
theorem fTok_partition :
    partition drvCasing fTok = ("a/b".toList, 4, some (.cat ⟨0, 6⟩ [.tree ⟨0, 2⟩ false])) := by rfl
/-- a base with a trailing separator: the walk starts at `r/a/b` -/
example : anchor drvCasing fTok "r/".toList = ("r/a/b".toList, 2) := by decide

/-- **the prefix names a file** (`glob_walk_e2e_file`): `a/b/**` from `r/` where `r/a/b` is a file:
    the walk yields that one path (the glob matches `a/b`) ... -/
example :
    let π := globWalkPipeline drvSem drvCasing "r/".toList fTok []
    π.filtrateEntries (π.items (DepthBehavior.unbounded.atPivot π.pivot).1
        (DepthBehavior.unbounded.atPivot π.pivot).2 (.leaf .f)) = [⟨[], .f⟩] := by
  intro π
  have h := glob_walk_e2e_file drvSem drvSem_sepIsolated rfl drvCasing ⟨0, 6⟩
    [([.lit ⟨0, 1⟩ ['a'] false], ⟨1, 1⟩)] [.lit ⟨2, 1⟩ ['b'] false] [.tree ⟨3, 3⟩ true]
    (by decide) (by decide) (Or.inr ⟨_, _, _, rfl⟩) (by decide) "r/".toList ["a".toList, "b".toList]
    (by decide) .unbounded trivial (fun u hu => by cases hu) .f
  exact h.trans (by decide)

/-- ... whereas `a/b/{x,y}*/**` from `r` where `r/a/b/` is a file yields nothing -/
example :
    let π := globWalkPipeline drvSem drvCasing "r".toList eTok []
    π.filtrateEntries (π.items (DepthBehavior.unbounded.atPivot π.pivot).1
        (DepthBehavior.unbounded.atPivot π.pivot).2 (.leaf .f)) = [] := by
  intro π
  have h := glob_walk_e2e_file drvSem drvSem_sepIsolated rfl drvCasing ⟨0, 13⟩ eComps eLast eTail
    (by decide) (by decide) (Or.inr ⟨_, _, _, rfl⟩) (by decide) "r".toList ["a".toList, "b".toList]
    eTok_spells .unbounded trivial (fun u hu => by cases hu) .f
  exact h.trans (by decide)

/-- the root of the walk of `a/b/**` is yielded (`bareTree`), by the postfix theorem -/
example :
    let π := globWalkPipeline drvSem drvCasing "r".toList fTok []
    (⟨[], .d⟩ : Entry) ∈ π.filtrateEntries (π.items (DepthBehavior.unbounded.atPivot π.pivot).1
        (DepthBehavior.unbounded.atPivot π.pivot).2 eRv) := by
  intro π
  have h := glob_walk_e2e_postfix_partial drvSem drvSem_sepIsolated rfl drvCasing ⟨0, 6⟩
    [([.lit ⟨0, 1⟩ ['a'] false], ⟨1, 1⟩)] [.lit ⟨2, 1⟩ ['b'] false] [.tree ⟨3, 3⟩ true]
    (by decide) (by decide) (Or.inr ⟨_, _, _, rfl⟩) (by decide) (.inl (by decide)) (by decide)
    "a/b".toList 4 _ fTok_partition "r".toList ["a".toList, "b".toList] (by decide)
    .unbounded trivial (fun u hu => by cases hu) eRv (by decide)
  exact (h.2.2.1 ⟨[], .d⟩ rfl).mpr ⟨by decide, by decide, by decide, by decide, by decide⟩

/-- `a/b`: invariant text only -/
def iTok : Tok := .cat ⟨0, 3⟩ (joinSep [([.lit ⟨0, 1⟩ ['a'] false], ⟨1, 1⟩)]
  ([.lit ⟨2, 1⟩ ['b'] false] ++ []))
theorem iTok_parse : parse "a/b".toList = .ok iTok := by rfl
theorem iTok_partition : partition drvCasing iTok = ("a/b".toList, 3, none) := by rfl

/-- **invariant text only** (`glob_walk_e2e_invariant_partial`): `a/b` from `r` over the tree
    above (at `r/a/b`): the one path, and none of the twelve entries below it -/
example :
    let π := globWalkPipeline drvSem drvCasing "r".toList iTok []
    π.root = "r/a/b".toList ∧ (unpruned eRv).length = 13 ∧
    π.filtrateEntries (π.items (DepthBehavior.unbounded.atPivot π.pivot).1
        (DepthBehavior.unbounded.atPivot π.pivot).2 eRv) = [⟨[], .d⟩] := by
  intro π
  have h := (glob_walk_e2e_invariant_partial drvSem drvSem_sepIsolated rfl drvCasing ⟨0, 3⟩
    [([.lit ⟨0, 1⟩ ['a'] false], ⟨1, 1⟩)] [.lit ⟨2, 1⟩ ['b'] false] []
    (by decide) (by decide) (Or.inl rfl) (by decide) (.inl (by decide)) (by decide)
    "a/b".toList 3 iTok_partition "r".toList ["a".toList, "b".toList] (by decide)
    .unbounded trivial (fun u hu => by cases hu) eRv (by decide)).1
  exact ⟨by decide, by decide, h.trans (by decide)⟩

/-- `{x,y}*/**`: **no invariant prefix** (`glob_walk_e2e_no_prefix`): root = base, pivot 0 (for
    `*`, which matches the empty path, see the last example: the base is not yielded either) -/
def nTok : Tok := .cat ⟨0, 9⟩ (joinSep [] (
  [.alt ⟨0, 5⟩ [.cat ⟨1, 1⟩ [.lit ⟨1, 1⟩ ['x'] false], .cat ⟨3, 1⟩ [.lit ⟨3, 1⟩ ['y'] false]],
   .zom ⟨5, 1⟩ false] ++ [.tree ⟨6, 3⟩ true]))
theorem nTok_parse : parse "{x,y}*/**".toList = .ok nTok := by rfl

example :
    let π := globWalkPipeline drvSem drvCasing "r/a/b".toList nTok []
    π.root = "r/a/b".toList ∧ π.pivot = 0 ∧
    π.filtrateEntries (π.items (DepthBehavior.unbounded.atPivot 0).1
        (DepthBehavior.unbounded.atPivot 0).2 eRv) =
     [⟨["xs".toList], .d⟩, ⟨["xs".toList, "f".toList], .f⟩, ⟨["xs".toList, "d".toList], .d⟩,
      ⟨["xs".toList, "d".toList, "g".toList], .f⟩, ⟨["xs".toList, "d".toList, "h".toList], .d⟩,
      ⟨["xs".toList, "d".toList, "h".toList, "k".toList], .l⟩, ⟨["y1".toList], .f⟩] := by
  intro π
  have h := glob_walk_e2e_no_prefix drvSem drvSem_sepIsolated rfl drvCasing ⟨0, 9⟩ []
    [.alt ⟨0, 5⟩ [.cat ⟨1, 1⟩ [.lit ⟨1, 1⟩ ['x'] false], .cat ⟨3, 1⟩ [.lit ⟨3, 1⟩ ['y'] false]],
      .zom ⟨5, 1⟩ false] [.tree ⟨6, 3⟩ true]
    (by decide) (by decide) (Or.inr ⟨_, _, _, rfl⟩) (by decide) "r/a/b".toList (by decide)
    .unbounded trivial eRv (by decide)
  exact ⟨h.1, h.2.1, h.2.2.trans (by decide)⟩

/-- **the base itself is never yielded** by a glob with a component program, even when the glob
    matches the empty path (`*`): `glob_walk_e2e_partial` says so without an exemption hypothesis
    (compare `root_exempt_needed`) -/
example :
    let t : Tok := .cat ⟨0, 1⟩ (joinSep [] ([.zom ⟨0, 1⟩ false] ++ []))
    let π := globWalkPipeline drvSem drvCasing "r".toList t []
    (encodeTop t).matchB drvSem [] = true ∧
    π.filtrateEntries (π.items (DepthBehavior.unbounded.atPivot π.pivot).1
        (DepthBehavior.unbounded.atPivot π.pivot).2 (.dir [.leaf "q".toList .f])) =
      [⟨["q".toList], .f⟩] := by
  intro t π
  have h := (glob_walk_e2e_partial drvSem drvSem_sepIsolated rfl drvCasing ⟨0, 1⟩ [] [.zom ⟨0, 1⟩ false] []
    (by decide) (by decide) (Or.inl rfl) (by decide) "r".toList [] (by decide)
    .unbounded trivial (fun u hu => by cases hu) (.dir [.leaf "q".toList .f]) (by decide)).2.2.1
  exact ⟨by decide, h.trans (by decide)⟩

/-! ### what the prefix hypothesis excludes (the listed findings), by evaluation -/

/-- K-WALK-DOT-PREFIX: a `.` component in the prefix is not a component of the joined path, so the
    pivot `join_and_get_depth` computes (and the relative path) is off: `prefixSpells` fails -/
example : ∀ pre, prefixSpells "./a/".toList pre = false ∨ pre ≠ [".".toList, "a".toList] := by
  intro pre
  by_cases h : pre = [".".toList, "a".toList]
  · subst h; exact .inl (by decide)
  · exact .inr h

/-- K-ENTRY-ROOTED-DEPTH: a rooted prefix is not spelled by any names -/
example : prefixSpells "/a/".toList ["a".toList] = false ∧ prefixSpells "/".toList [] = false := by
  decide

end Wax.Walk
