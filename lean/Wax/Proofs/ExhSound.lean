import Wax.ExhFold
import Wax.Proofs.Exhaustive
/-!
C09 on the fragment "the last top-level token is a literal, a class, `?` or a tree wildcard": there
the fold's `Always` implies that the pattern ends in a tree wildcard, hence (semantic half) that its
language is closed under descending.  Every known false `Always` has a separator, a zero-or-more
wildcard or a branch as last token, i.e. lies outside this fragment.
-/
set_option linter.unusedSimpArgs false
namespace Wax

def lastTok : List Tok → Option Tok
  | [] => none
  | [t] => some t
  | _ :: t :: ts => lastTok (t :: ts)

theorem exhSuffix_untaken : ∀ (ts : List Tok) (t : Tok), lastTok ts = some t → exhTake t = false →
    exhSuffix ts = .ok ([], false)
  | [], _, h, _ => by simp [lastTok] at h
  | [x], t, h, ht => by
    simp only [lastTok, Option.some.injEq] at h; subst h
    simp [exhSuffix, ht, bind, Except.bind, pure, Except.pure]
  | x :: y :: ts, t, h, ht => by
    simp only [lastTok] at h
    rw [exhSuffix, exhSuffix_untaken (y :: ts) t h ht]
    rfl

/-- a pattern whose last token is not taken by the scan is never exhaustive -/
theorem exh_never_of_untaken (sp : Span) (ts : List Tok) (t : Tok) (h : lastTok ts = some t)
    (ht : exhTake t = false) : isExhaustive (.cat sp ts) = .ok .never := by
  have hne : (ts.length == 0) = false := by cases ts <;> simp_all [lastTok]
  unfold isExhaustive
  rw [exhTok, exhSuffix_untaken ts t h ht]
  simp only [bind, Except.bind, reduceP, pure, Except.pure, exhFinish, List.length_nil, hne]
  rfl

theorem endsList_of_last : ∀ (ts : List Tok) (t : Tok), lastTok ts = some t → endsTok t = true →
    endsList ts = true
  | [], _, h, _ => by simp [lastTok] at h
  | [x], t, h, ht => by
    simp only [lastTok, Option.some.injEq] at h; subst h
    simpa [endsList] using ht
  | x :: y :: ts, t, h, ht => by
    simp only [lastTok] at h
    simp only [endsList]
    exact endsList_of_last (y :: ts) t h ht

def isTreeTok : Tok → Bool | .tree .. => true | _ => false

/-- **C09 on the fragment** (`exhaustive_sound_partial`): if the last top-level token is a tree
wildcard or is not taken by the exhaustiveness scan (a literal, a class, `?`), then an `Always`
verdict implies that with every path the pattern matches it matches everything beneath it. -/
theorem exhaustive_sound_partial (σ : Sem) (sp : Span) (ts : List Tok) (t : Tok)
    (hlast : lastTok ts = some t) (hfrag : isTreeTok t = true ∨ exhTake t = false)
    (hAlways : isExhaustive (.cat sp ts) = .ok .always) (w : Str)
    (hm : Spec.Matches σ (.cat sp ts) w) (x : Str) :
    Spec.Matches σ (.cat sp ts) (w ++ '/' :: x) := by
  rcases hfrag with htree | hunt
  · have he : endsTok t = true := by cases t <;> simp_all [isTreeTok, endsTok]
    exact endsInTree_descClosed σ (.cat sp ts) (endsList_of_last ts t hlast he) w hm x
  · rw [exh_never_of_untaken sp ts t hlast hunt] at hAlways
    cases hAlways

-- the fold does say `Always` for `a/**` (so the theorem is not vacuous) ...
example (sp : Span) : isExhaustive (.cat sp [.lit sp ['a'] false, .tree sp true]) = .ok .always := rfl
-- ... and outside the fragment it says `Always` for `**/*/`, which no canonical descendant matches
example (sp : Span) :
    isExhaustive (.cat sp [.tree sp false, .zom sp false, .sep sp]) = .ok .always := rfl

end Wax
