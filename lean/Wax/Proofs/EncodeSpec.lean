import Wax.Fragment
import Wax.Proofs.Sites
import Wax.Proofs.Compose
/-!
C01: on the fragment `F01` the compiled program accepts exactly the documented language
(`encode_eq_spec_partial`).  The hypothesis `σ.dotall = true` is the repaired encoder's `(?s)`;
for the pinned encoder the same statement holds on new-line-free paths (`DotOk`).
-/
namespace Wax

/-! ### leaves -/

theorem star_nsep_sepFree (σ : Sem) : ∀ {w : Str}, Matches σ (.star (.chr .nsep)) w → SepFree w
  | _, .starNil => sepFree_nil
  | _, .starCons (.chr hp) hv => by
    have := star_nsep_sepFree σ hv
    simp only [List.singleton_append]
    refine sepFree_cons.mpr ⟨?_, this⟩
    simpa [CharPred.holds] using hp

theorem star_nsep_iff (σ : Sem) (w : Str) : Matches σ (.star (.chr .nsep)) w ↔ SepFree w := by
  constructor
  · exact star_nsep_sepFree σ
  · intro h
    induction w with
    | nil => exact .starNil
    | cons c cs ih =>
      obtain ⟨hc, hcs⟩ := sepFree_cons.mp h
      have : Matches σ (.star (.chr .nsep)) ([c] ++ cs) :=
        .starCons (.chr (by simpa [CharPred.holds] using hc)) (ih hcs)
      simpa using this

theorem lazyStar_nsep_iff (σ : Sem) (w : Str) : Matches σ (.lazyStar (.chr .nsep)) w ↔ SepFree w := by
  rw [← star_nsep_iff σ]
  exact ⟨fun h => by cases h; assumption, .lazyStar⟩

theorem matches_chr {σ : Sem} {p : CharPred} {w : Str} :
    Matches σ (.chr p) w ↔ ∃ ch, w = [ch] ∧ p.holds σ ch = true :=
  ⟨fun h => by cases h with | chr hp => exact ⟨_, rfl, hp⟩, fun ⟨_, he, hp⟩ => he ▸ .chr hp⟩

theorem matches_lit {σ : Sem} {s : Str} {ci : Bool} {w : Str} :
    Matches σ (.lit s ci) w ↔ litEq σ ci s w = true :=
  ⟨fun h => by cases h; assumption, .lit⟩

theorem not_matches_never {σ : Sem} {w : Str} : ¬ Matches σ .never w := fun h => by cases h

theorem matches_alt {σ : Sem} {l : List Re} {w : Str} : Matches σ (.alt l) w ↔ ∃ r ∈ l, Matches σ r w :=
  ⟨fun h => by cases h with | alt hr hm => exact ⟨_, hr, hm⟩, fun ⟨_, hr, hm⟩ => .alt hr hm⟩

theorem matches_rep {σ : Sem} {r : Re} {lo : Nat} {hi : Option Nat} {w : Str} :
    Matches σ (.rep r lo hi) w ↔ ∃ n, lo ≤ n ∧ (∀ h, hi = some h → n ≤ h) ∧ Iter σ r n w :=
  ⟨fun h => by cases h with | rep h1 h2 h3 => exact ⟨_, h1, h2, h3⟩, fun ⟨_, h1, h2, h3⟩ => .rep h1 h2 h3⟩

theorem iter_zero {σ : Sem} {r : Re} {w : Str} : Iter σ r 0 w ↔ w = [] :=
  ⟨fun h => by cases h; rfl, fun h => h ▸ .zero⟩

theorem iter_succ {σ : Sem} {r : Re} {n : Nat} {w : Str} :
    Iter σ r (n + 1) w ↔ ∃ u v, w = u ++ v ∧ Matches σ r u ∧ Iter σ r n v :=
  ⟨fun h => by cases h with | succ hu hv => exact ⟨_, _, rfl, hu, hv⟩,
   fun ⟨_, _, he, hu, hv⟩ => he ▸ .succ hu hv⟩

/-! ### the tree wildcard: form chosen by the encoder vs. true context -/

theorem encodeTree_spec (σ : Sem) (hdot : σ.dotall = true) (cap : Bool) (sup : Option Pos) (p : Pos)
    (c : Ctx) (hasRoot : Bool) (hok : treeOk sup p c hasRoot = true) (w : Str) :
    Matches σ (encodeTree cap sup p hasRoot) w ↔ TreeLang c hasRoot w := by
  have hd : DotOk σ w := dotOk_of_dotall hdot w
  obtain ⟨cf, cl⟩ := c
  cases p <;> simp only [treeOk, encodeTree, supMidLast, supFirstMid] at hok ⊢
  · -- first
    split at hok
    · rename_i hs
      simp only [Bool.and_eq_true, Bool.not_eq_eq_eq_not, Bool.not_true] at hok
      obtain ⟨rfl, rfl⟩ := hok
      simp only [hs, ↓reduceIte]
      exact intermediate_eq_spec σ cap hasRoot w hd
    · rename_i hs
      split at hok
      · cases hok
      · rename_i hr
        simp only [Bool.and_eq_true, Bool.not_eq_eq_eq_not, Bool.not_true] at hok
        obtain ⟨rfl, rfl⟩ := hok
        have hr' : hasRoot = false := by simpa using hr
        subst hr'
        simp only [hs, Bool.false_eq_true, ↓reduceIte]
        exact firstUnrooted_eq_spec σ cap w hd
  · -- middle
    simp only [Bool.and_eq_true, Bool.not_eq_eq_eq_not, Bool.not_true] at hok
    obtain ⟨rfl, rfl⟩ := hok
    exact intermediate_eq_spec σ cap hasRoot w hd
  · -- last
    by_cases hs : (sup == some Pos.first || sup == some Pos.middle) = true
    · simp only [hs, ↓reduceIte, Bool.and_eq_true, Bool.not_eq_eq_eq_not, Bool.not_true] at hok ⊢
      obtain ⟨rfl, rfl⟩ := hok
      exact intermediate_eq_spec σ cap hasRoot w hd
    · simp only [hs, Bool.false_eq_true, ↓reduceIte, Bool.and_eq_true, Bool.not_eq_eq_eq_not, Bool.not_true] at hok ⊢
      obtain ⟨rfl, rfl⟩ := hok
      exact last_eq_spec σ cap hasRoot w hd
  · -- only
    simp only [Bool.and_eq_true, Bool.or_eq_true, Bool.not_eq_eq_eq_not, Bool.not_true] at hok
    obtain ⟨⟨rfl, rfl⟩, hr⟩ := hok
    by_cases hs : (hasRoot && (sup.isNone || sup == some Pos.first || sup == some Pos.only)) = true
    · simp only [hs, ↓reduceIte]
      simp only [Bool.and_eq_true] at hs
      obtain ⟨rfl, _⟩ := hs
      exact onlyRooted_eq_spec σ cap w hd
    · simp only [hs, Bool.false_eq_true, ↓reduceIte]
      have hr' : hasRoot = false := by
        rcases hr with h | h
        · exact h
        · cases hasRoot <;> simp_all
      subst hr'
      exact only_eq_spec σ cap w hd

end Wax

namespace Wax

theorem sm_lit {σ : Sem} {c : Ctx} {sp : Span} {s : Str} {ci : Bool} {w : Str} :
    SM σ c (.lit sp s ci) w ↔ litEq σ ci s w = true :=
  ⟨fun h => by cases h; assumption, .lit⟩
theorem sm_sep {σ : Sem} {c : Ctx} {sp : Span} {w : Str} : SM σ c (.sep sp) w ↔ w = ['/'] :=
  ⟨fun h => by cases h; rfl, fun h => h ▸ .sep⟩
theorem sm_cls {σ : Sem} {c : Ctx} {sp : Span} {neg : Bool} {items : List Arch} {w : Str} :
    SM σ c (.cls sp neg items) w ↔ ∃ ch, w = [ch] ∧ classHolds neg items ch = true :=
  ⟨fun h => by cases h with | cls hp => exact ⟨_, rfl, hp⟩, fun ⟨_, he, hp⟩ => he ▸ .cls hp⟩
theorem sm_one {σ : Sem} {c : Ctx} {sp : Span} {w : Str} :
    SM σ c (.one sp) w ↔ ∃ ch, w = [ch] ∧ ch ≠ '/' :=
  ⟨fun h => by cases h with | one hp => exact ⟨_, rfl, hp⟩, fun ⟨_, he, hp⟩ => he ▸ .one hp⟩
theorem sm_zom {σ : Sem} {c : Ctx} {sp : Span} {l : Bool} {w : Str} : SM σ c (.zom sp l) w ↔ SepFree w :=
  ⟨fun h => by cases h; assumption, .zom⟩
theorem sm_tree {σ : Sem} {c : Ctx} {sp : Span} {r : Bool} {w : Str} :
    SM σ c (.tree sp r) w ↔ TreeLang c r w :=
  ⟨fun h => by cases h; assumption, .tree⟩
theorem sm_cat {σ : Sem} {c : Ctx} {sp : Span} {ts : List Tok} {w : Str} :
    SM σ c (.cat sp ts) w ↔ SMs σ c ts w :=
  ⟨fun h => by cases h; assumption, .cat⟩

/-- iterations of one and the same body regex agree with the context-aware iteration of the spec,
    provided the body regex is right in each of the contexts an iteration can be in -/
theorem iter_srep {σ : Sem} {re : Re} {body : List Tok} :
    ∀ (n : Nat) (c : Ctx),
      (∀ u, Matches σ re u ↔ SMs σ c body u) →
      ((2 ≤ n) → (∀ u, Matches σ re u ↔ SMs σ ⟨c.first, false⟩ body u) ∧
        (∀ u, Matches σ re u ↔ SMs σ ⟨false, false⟩ body u) ∧
        (∀ u, Matches σ re u ↔ SMs σ ⟨false, c.last⟩ body u)) →
      ∀ w, Iter σ re n w ↔ SRep σ c body n w := by
  have key : ∀ (n : Nat) (c' : Ctx),
      (∀ u, Matches σ re u ↔ SMs σ c' body u) →
      ((2 ≤ n) → (∀ u, Matches σ re u ↔ SMs σ ⟨c'.first, false⟩ body u) ∧
        (∀ u, Matches σ re u ↔ SMs σ ⟨false, false⟩ body u) ∧
        (∀ u, Matches σ re u ↔ SMs σ ⟨false, c'.last⟩ body u)) →
      ∀ w, Iter σ re n w ↔ SRep σ c' body n w := by
    intro n
    induction n with
    | zero =>
      intro c' _ _ w
      rw [iter_zero]
      exact ⟨fun h => h ▸ .zero, fun h => by cases h; rfl⟩
    | succ n ih =>
      intro c' hc' hm w
      cases n with
      | zero =>
        rw [iter_succ]
        constructor
        · rintro ⟨u, v, rfl, hu, hv⟩
          rw [iter_zero] at hv; subst hv
          simpa using SRep.one ((hc' u).mp hu)
        · intro h
          cases h with
          | one h => exact ⟨w, [], by simp, (hc' w).mpr h, .zero⟩
      | succ n =>
        obtain ⟨hf, hmid, hl⟩ := hm (by omega)
        have ihn := ih ⟨false, c'.last⟩ hl (fun _ => ⟨hmid, hmid, hl⟩)
        rw [iter_succ]
        constructor
        · rintro ⟨u, v, rfl, hu, hv⟩
          exact .more ((hf u).mp hu) ((ihn v).mp hv)
        · intro h
          cases h with
          | more hu hv => exact ⟨_, _, rfl, (hf _).mpr hu, (ihn _).mpr hv⟩
  exact key

/-- the regex of a branch / repetition body, as `encodeBranches` and the `rep` arm build it -/
def concRe (sup : Option Pos) (b : Tok) : Re :=
  match b with
  | .cat _ ts => .cat (encodeList false sup ts 0 ts.length)
  | other => .cat [encodeTok false sup .only other]

def okConc (sup : Option Pos) (c : Ctx) (b : Tok) : Bool :=
  match b with
  | .cat _ ts => okList sup c ts 0 ts.length
  | other => okTok sup .only c other

theorem matches_cat_singleton {σ : Sem} {r : Re} {w : Str} : Matches σ (.cat [r]) w ↔ Matches σ r w := by
  rw [matches_cat, matchesAll_cons]
  constructor
  · rintro ⟨u, v, rfl, hu, hv⟩
    rw [matchesAll_nil] at hv; subst hv; simpa using hu
  · intro h; exact ⟨w, [], by simp, h, .nil⟩

/-- the repetition arm, given that the body regex is right in every context an iteration can be in -/
theorem rep_case {σ : Sem} (cap : Bool) (sup : Option Pos) (c : Ctx) (sp : Span) (body : Tok)
    (lo : Nat) (hi : Option Nat)
    (hconc : ∀ c', okConc sup c' body = true → ∀ u, Matches σ (concRe sup body) u ↔ SMs σ c' body.concatenation u)
    (h1 : okConc sup c body = true)
    (h2 : (!iterates hi || (okConc sup ⟨c.first, false⟩ body && okConc sup ⟨false, false⟩ body &&
      okConc sup ⟨false, c.last⟩ body)) = true) (w : Str) :
    Matches σ (G cap (.rep (.grp (concRe sup body)) lo hi)) w ↔ SM σ c (.rep sp body lo hi) w := by
  rw [matches_G, matches_rep, sm_rep]
  have hg : ∀ c', okConc sup c' body = true → ∀ u, Matches σ (.grp (concRe sup body)) u ↔ SMs σ c' body.concatenation u :=
    fun c' h u => by rw [matches_grp]; exact hconc c' h u
  constructor
  · rintro ⟨n, hlo, hhi, hit⟩
    refine ⟨n, hlo, hhi, (iter_srep n c (hg c h1) ?_ w).mp hit⟩
    intro hn
    have hit' : iterates hi = true := by
      cases hi with
      | none => rfl
      | some h => have := hhi h rfl; simp [iterates]; omega
    simp only [hit', Bool.not_true, Bool.false_or, Bool.and_eq_true] at h2
    exact ⟨hg _ h2.1.1, hg _ h2.1.2, hg _ h2.2⟩
  · rintro ⟨n, hlo, hhi, hit⟩
    refine ⟨n, hlo, hhi, (iter_srep n c (hg c h1) ?_ w).mpr hit⟩
    intro hn
    have hit' : iterates hi = true := by
      cases hi with
      | none => rfl
      | some h => have := hhi h rfl; simp [iterates]; omega
    simp only [hit', Bool.not_true, Bool.false_or, Bool.and_eq_true] at h2
    exact ⟨hg _ h2.1.1, hg _ h2.1.2, hg _ h2.2⟩

theorem okTok_rep (sup : Option Pos) (p : Pos) (c : Ctx) (sp : Span) (body : Tok) (lo : Nat) (hi : Option Nat) :
    okTok sup p c (.rep sp body lo hi) =
      (okConc (supOr sup p) c body && (!iterates hi || (okConc (supOr sup p) ⟨c.first, false⟩ body &&
        okConc (supOr sup p) ⟨false, false⟩ body && okConc (supOr sup p) ⟨false, c.last⟩ body))) := by
  cases body <;> simp [okTok, okConc]

theorem encodeTok_rep (cap : Bool) (sup : Option Pos) (p : Pos) (sp : Span) (body : Tok) (lo : Nat) (hi : Option Nat) :
    encodeTok cap sup p (.rep sp body lo hi) = G cap (.rep (.grp (concRe (supOr sup p) body)) lo hi) := by
  cases body <;> simp [encodeTok, concRe]

theorem okBranches_cons (sup : Option Pos) (c : Ctx) (b : Tok) (bs : List Tok) :
    okBranches sup c (b :: bs) = (okConc sup c b && okBranches sup c bs) := by
  cases b <;> simp [okBranches, okConc]

theorem encodeBranches_cons (sup : Option Pos) (b : Tok) (bs : List Tok) :
    encodeBranches sup (b :: bs) = .grp (concRe sup b) :: encodeBranches sup bs := by
  cases b <;> simp [encodeBranches, concRe]

theorem holds_cls_eq (σ : Sem) (neg : Bool) (items : List Arch) (ch : Char) :
    (CharPred.cls neg items).holds σ ch = classHolds neg items ch := rfl

mutual
  theorem encodeTok_spec (σ : Sem) (hdot : σ.dotall = true) :
      ∀ (t : Tok) (cap : Bool) (sup : Option Pos) (p : Pos) (c : Ctx),
        okTok sup p c t = true → ∀ w, Matches σ (encodeTok cap sup p t) w ↔ SM σ c t w
    | .lit sp s ci, cap, sup, p, c, _, w => by
      simp only [encodeTok]; rw [matches_lit, sm_lit]
    | .sep sp, cap, sup, p, c, _, w => by
      simp only [encodeTok]; rw [matches_sepc, sm_sep]
    | .cls sp neg items, cap, sup, p, c, hok, w => by
      simp only [okTok] at hok
      simp only [encodeTok, hok, ↓reduceIte]
      rw [matches_G, matches_chr, sm_cls]
      simp only [holds_cls_eq]
    | .one sp, cap, sup, p, c, _, w => by
      simp only [encodeTok]; rw [matches_G, matches_chr, sm_one]
      simp [CharPred.holds]
    | .zom sp false, cap, sup, p, c, _, w => by
      simp only [encodeTok]; rw [matches_G, star_nsep_iff, sm_zom]
    | .zom sp true, cap, sup, p, c, _, w => by
      simp only [encodeTok]; rw [matches_G, lazyStar_nsep_iff, sm_zom]
    | .tree sp r, cap, sup, p, c, hok, w => by
      simp only [okTok] at hok
      simp only [encodeTok]; rw [sm_tree]
      exact encodeTree_spec σ hdot cap sup p c r hok w
    | .alt sp bs, cap, sup, p, c, hok, w => by
      simp only [okTok] at hok
      simp only [encodeTok]; rw [matches_G, matches_alt, sm_alt]
      exact encodeBranches_spec σ hdot bs (supOr sup p) c hok w
    | .rep sp body lo hi, cap, sup, p, c, hok, w => by
      have hconc : ∀ c', okConc (supOr sup p) c' body = true →
          ∀ u, Matches σ (concRe (supOr sup p) body) u ↔ SMs σ c' body.concatenation u := by
        intro c' hc' u
        cases body with
        | cat bsp ts =>
          simp only [okConc] at hc'
          simp only [concRe, Tok.concatenation]
          rw [matches_cat]
          have := encodeList_spec σ hdot ts false (supOr sup p) c' 0 ts.length (by simp) hc' u
          simpa using this
        | lit bsp s ci =>
          simp only [okConc] at hc'
          simp only [concRe, Tok.concatenation]
          rw [matches_cat_singleton, sms_singleton]
          exact encodeTok_spec σ hdot (.lit bsp s ci) false (supOr sup p) .only c' hc' u
        | sep bsp =>
          simp only [okConc] at hc'
          simp only [concRe, Tok.concatenation]
          rw [matches_cat_singleton, sms_singleton]
          exact encodeTok_spec σ hdot (.sep bsp) false (supOr sup p) .only c' hc' u
        | cls bsp neg items =>
          simp only [okConc] at hc'
          simp only [concRe, Tok.concatenation]
          rw [matches_cat_singleton, sms_singleton]
          exact encodeTok_spec σ hdot (.cls bsp neg items) false (supOr sup p) .only c' hc' u
        | one bsp =>
          simp only [okConc] at hc'
          simp only [concRe, Tok.concatenation]
          rw [matches_cat_singleton, sms_singleton]
          exact encodeTok_spec σ hdot (.one bsp) false (supOr sup p) .only c' hc' u
        | zom bsp l =>
          simp only [okConc] at hc'
          simp only [concRe, Tok.concatenation]
          rw [matches_cat_singleton, sms_singleton]
          exact encodeTok_spec σ hdot (.zom bsp l) false (supOr sup p) .only c' hc' u
        | tree bsp r =>
          simp only [okConc] at hc'
          simp only [concRe, Tok.concatenation]
          rw [matches_cat_singleton, sms_singleton]
          exact encodeTok_spec σ hdot (.tree bsp r) false (supOr sup p) .only c' hc' u
        | alt bsp bs =>
          simp only [okConc] at hc'
          simp only [concRe, Tok.concatenation]
          rw [matches_cat_singleton, sms_singleton]
          exact encodeTok_spec σ hdot (.alt bsp bs) false (supOr sup p) .only c' hc' u
        | rep bsp b2 lo2 hi2 =>
          simp only [okConc] at hc'
          simp only [concRe, Tok.concatenation]
          rw [matches_cat_singleton, sms_singleton]
          exact encodeTok_spec σ hdot (.rep bsp b2 lo2 hi2) false (supOr sup p) .only c' hc' u
      rw [okTok_rep, Bool.and_eq_true] at hok
      rw [encodeTok_rep]
      exact rep_case cap (supOr sup p) c sp body lo hi hconc hok.1 hok.2 w
    | .cat sp ts, cap, sup, p, c, hok, w => by
      simp only [okTok] at hok
      simp only [encodeTok]; rw [matches_cat, sm_cat]
      have := encodeList_spec σ hdot ts cap sup c 0 ts.length (by simp) hok w
      simpa using this
  theorem encodeList_spec (σ : Sem) (hdot : σ.dotall = true) :
      ∀ (ts : List Tok) (cap : Bool) (sup : Option Pos) (c0 : Ctx) (i n : Nat), i + ts.length = n →
        okList sup c0 ts i n = true →
        ∀ w, MatchesAll σ (encodeList cap sup ts i n) w ↔ SMs σ ⟨c0.first && i == 0, c0.last⟩ ts w
    | [], cap, sup, c0, i, n, _, _, w => by
      simp only [encodeList]; rw [matchesAll_nil, sms_nil]
    | t :: ts, cap, sup, c0, i, n, hlen, hok, w => by
      simp only [okList, Bool.and_eq_true] at hok
      simp only [encodeList]
      rw [matchesAll_cons, sms_cons]
      have ht := encodeTok_spec σ hdot t cap sup (posOf i n) ⟨c0.first && i == 0, c0.last && i + 1 == n⟩ hok.1
      have hts := encodeList_spec σ hdot ts cap sup c0 (i + 1) n (by simp at hlen; omega) hok.2
      have e1 : (c0.last && ts.isEmpty) = (c0.last && i + 1 == n) := by
        simp only [List.length_cons] at hlen
        cases ts with
        | nil => simp at hlen; simp [hlen]
        | cons x xs =>
          simp only [List.length_cons] at hlen
          have : (i + 1 == n) = false := by simp; omega
          simp [this]
      have e2 : (c0.first && (i + 1 == 0)) = false := by simp
      simp only [e2] at hts
      simp only [e1]
      constructor
      · rintro ⟨u, v, rfl, hu, hv⟩
        exact ⟨u, v, rfl, (ht u).mp hu, (hts v).mp hv⟩
      · rintro ⟨u, v, rfl, hu, hv⟩
        exact ⟨u, v, rfl, (ht u).mpr hu, (hts v).mpr hv⟩
  theorem encodeBranches_spec (σ : Sem) (hdot : σ.dotall = true) :
      ∀ (bs : List Tok) (sup : Option Pos) (c : Ctx), okBranches sup c bs = true →
        ∀ w, (∃ r ∈ encodeBranches sup bs, Matches σ r w) ↔ ∃ b ∈ bs, SMs σ c b.concatenation w
    | [], sup, c, _, w => by simp [encodeBranches]
    | b :: bs, sup, c, hok, w => by
      have hb : okConc sup c b = true ∧ okBranches sup c bs = true := by
        rw [okBranches_cons, Bool.and_eq_true] at hok
        exact hok
      have ih := encodeBranches_spec σ hdot bs sup c hb.2 w
      have hhead : Matches σ (.grp (concRe sup b)) w ↔ SMs σ c b.concatenation w := by
        rw [matches_grp]
        have hc' := hb.1
        cases b with
        | cat bsp ts =>
          simp only [okConc] at hc'
          simp only [concRe, Tok.concatenation]
          rw [matches_cat]
          have := encodeList_spec σ hdot ts false sup c 0 ts.length (by simp) hc' w
          simpa using this
        | lit bsp s ci =>
          simp only [okConc] at hc'
          simp only [concRe, Tok.concatenation]
          rw [matches_cat_singleton, sms_singleton]
          exact encodeTok_spec σ hdot (.lit bsp s ci) false sup .only c hc' w
        | sep bsp =>
          simp only [okConc] at hc'
          simp only [concRe, Tok.concatenation]
          rw [matches_cat_singleton, sms_singleton]
          exact encodeTok_spec σ hdot (.sep bsp) false sup .only c hc' w
        | cls bsp neg items =>
          simp only [okConc] at hc'
          simp only [concRe, Tok.concatenation]
          rw [matches_cat_singleton, sms_singleton]
          exact encodeTok_spec σ hdot (.cls bsp neg items) false sup .only c hc' w
        | one bsp =>
          simp only [okConc] at hc'
          simp only [concRe, Tok.concatenation]
          rw [matches_cat_singleton, sms_singleton]
          exact encodeTok_spec σ hdot (.one bsp) false sup .only c hc' w
        | zom bsp l =>
          simp only [okConc] at hc'
          simp only [concRe, Tok.concatenation]
          rw [matches_cat_singleton, sms_singleton]
          exact encodeTok_spec σ hdot (.zom bsp l) false sup .only c hc' w
        | tree bsp r =>
          simp only [okConc] at hc'
          simp only [concRe, Tok.concatenation]
          rw [matches_cat_singleton, sms_singleton]
          exact encodeTok_spec σ hdot (.tree bsp r) false sup .only c hc' w
        | alt bsp bs2 =>
          simp only [okConc] at hc'
          simp only [concRe, Tok.concatenation]
          rw [matches_cat_singleton, sms_singleton]
          exact encodeTok_spec σ hdot (.alt bsp bs2) false sup .only c hc' w
        | rep bsp b2 lo2 hi2 =>
          simp only [okConc] at hc'
          simp only [concRe, Tok.concatenation]
          rw [matches_cat_singleton, sms_singleton]
          exact encodeTok_spec σ hdot (.rep bsp b2 lo2 hi2) false sup .only c hc' w
      rw [encodeBranches_cons]
      simp only [List.mem_cons, exists_eq_or_imp]
      rw [hhead, ih]
end

/-- **C01 on the fragment**: when no tree wildcard goes through a defective site and every class
    compiles, the compiled program accepts exactly the documented language, for every path -/
theorem encode_eq_spec_partial (σ : Sem) (hdot : σ.dotall = true) (t : Tok) (hF : F01 t = true) (w : Str) :
    Matches σ (encodeTop t) w ↔ Spec.Matches σ t w := by
  unfold Spec.Matches
  cases t with
  | cat sp ts =>
    simp only [F01] at hF
    simp only [encodeTop, Tok.concatenation]
    rw [matches_cat]
    have := encodeList_spec σ hdot ts true none ⟨true, true⟩ 0 ts.length (by simp) hF w
    simpa using this
  | lit sp s ci =>
    simp only [F01] at hF
    simp only [encodeTop, Tok.concatenation]
    rw [matches_cat_singleton, sms_singleton]
    exact encodeTok_spec σ hdot _ true none .only ⟨true, true⟩ hF w
  | sep sp =>
    simp only [F01] at hF
    simp only [encodeTop, Tok.concatenation]
    rw [matches_cat_singleton, sms_singleton]
    exact encodeTok_spec σ hdot _ true none .only ⟨true, true⟩ hF w
  | cls sp neg items =>
    simp only [F01] at hF
    simp only [encodeTop, Tok.concatenation]
    rw [matches_cat_singleton, sms_singleton]
    exact encodeTok_spec σ hdot _ true none .only ⟨true, true⟩ hF w
  | one sp =>
    simp only [F01] at hF
    simp only [encodeTop, Tok.concatenation]
    rw [matches_cat_singleton, sms_singleton]
    exact encodeTok_spec σ hdot _ true none .only ⟨true, true⟩ hF w
  | zom sp l =>
    simp only [F01] at hF
    simp only [encodeTop, Tok.concatenation]
    rw [matches_cat_singleton, sms_singleton]
    exact encodeTok_spec σ hdot _ true none .only ⟨true, true⟩ hF w
  | tree sp r =>
    simp only [F01] at hF
    simp only [encodeTop, Tok.concatenation]
    rw [matches_cat_singleton, sms_singleton]
    exact encodeTok_spec σ hdot _ true none .only ⟨true, true⟩ hF w
  | alt sp bs =>
    simp only [F01] at hF
    simp only [encodeTop, Tok.concatenation]
    rw [matches_cat_singleton, sms_singleton]
    exact encodeTok_spec σ hdot _ true none .only ⟨true, true⟩ hF w
  | rep sp b lo hi =>
    simp only [F01] at hF
    simp only [encodeTop, Tok.concatenation]
    rw [matches_cat_singleton, sms_singleton]
    exact encodeTok_spec σ hdot _ true none .only ⟨true, true⟩ hF w

end Wax
