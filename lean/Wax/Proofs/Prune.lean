import Wax.Proofs.SepFree
import Wax.Proofs.Compose
/-!
C02 (pruning soundness): if a glob begins with a boundary-free component followed by a separator,
then every path it matches begins with a separator-free piece that the component alone matches,
followed by `/` and a match of the rest.  So a directory whose name the component's own program
rejects has no matching descendant, and the same holds again for the rest (second component, ...).
-/
namespace Wax

/-- peel the first component off a match -/
theorem first_component (σ : Sem) (hσ : SepIsolated σ) (c : Ctx) (comp rest : List Tok) (sp : Span)
    (hnb : noBoundaryL comp = true) (w : Str) (h : SMs σ c (comp ++ .sep sp :: rest) w) :
    ∃ u v, w = u ++ '/' :: v ∧ SepFree u ∧ SMs σ ⟨c.first, false⟩ comp u ∧
      SMs σ ⟨false, c.last⟩ rest v := by
  obtain ⟨u, v', rfl, hu, hv'⟩ := (sms_append comp (.sep sp :: rest) c w).mp h
  obtain ⟨s, v, rfl, hs, hv⟩ := sms_cons.mp hv'
  cases hs
  refine ⟨u, v, by simp, sms_sepFree σ hσ hu hnb, by simpa using hu, hv⟩

/-- the piece before the first separator of `u ++ "/" ++ v` is `u` when `u` is separator-free: the
    component program is applied to exactly this piece (the directory name at that depth) -/
theorem takeWhile_nonsep {u v : Str} (hu : SepFree u) :
    (u ++ '/' :: v).takeWhile (fun c => c != '/') = u := by
  induction u with
  | nil => simp
  | cons a as ih =>
    obtain ⟨ha, has⟩ := sepFree_cons.mp hu
    simp [List.takeWhile_cons, ha, ih has]

/-- **C02, pruning soundness**: a path whose first `/`-piece the first component does not match is
    not matched by the glob — nor is any path beneath it, since they share that first piece -/
theorem prune_sound (σ : Sem) (hσ : SepIsolated σ) (c : Ctx) (comp rest : List Tok) (sp : Span)
    (hnb : noBoundaryL comp = true) (w : Str)
    (hno : ¬ SMs σ ⟨c.first, false⟩ comp (w.takeWhile (fun ch => ch != '/'))) :
    ¬ SMs σ c (comp ++ .sep sp :: rest) w := by
  intro h
  obtain ⟨u, v, rfl, hu, hm, _⟩ := first_component σ hσ c comp rest sp hnb w h
  rw [takeWhile_nonsep hu] at hno
  exact hno hm

end Wax
