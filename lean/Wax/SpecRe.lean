import Wax.Spec
/-!
The documented language as a regular expression, context-correct by construction: the executable
oracle of the checks (its printed text is what the automata tool compares the crate's program
with).  Structural recursion; proved equal to `Spec.Matches` in `Wax/Proofs/SpecRe.lean`.
-/
namespace Wax

/-- `(?:[^/]*[/])*` -/
def compStarRe : Re := .star (.grp (.cat [.star (.chr .nsep), .chr .sepc]))

def specTreeRe (c : Ctx) (hasRoot : Bool) : Re :=
  if c.last then
    if c.first then (if hasRoot then .cat [.chr .sepc, anyStar] else anyStar)
    else .opt (.grp (.cat [.chr .sepc, anyStar]))
  else
    if hasRoot || !c.first then .cat [.chr .sepc, compStarRe] else compStarRe

def altOrNever (l : List Re) : Re := if l.isEmpty then .never else .grp (.alt l)

def archValid : Arch → Bool
  | .chr _ => true
  | .rng a b => a.toNat ≤ b.toNat

/-- a class as documented: the listed characters, a reversed range listing none -/
def specClsRe (neg : Bool) (items : List Arch) : Re :=
  let its := items.filter archValid
  if its.isEmpty then (if neg then .chr .nsep else .never) else .chr (.cls neg its)

def allows (k : Nat) : Option Nat → Bool
  | none => true
  | some h => decide (k ≤ h)

/-- zero iterations | one, in the full context | two or more: first, middle ones, last -/
def specRepRe (b1 bf bm bl : Re) (lo : Nat) (hi : Option Nat) : Re :=
  altOrNever (
    (if lo = 0 then [.cat []] else []) ++
    (if lo ≤ 1 ∧ allows 1 hi = true then [b1] else []) ++
    (if allows 2 hi = true then [.cat [bf, .rep (.grp bm) (lo - 2) (hi.map (· - 2)), bl]] else []))

mutual
  def specTok (c : Ctx) : Tok → Re
    | .lit _ s ci => .lit s ci
    | .sep _ => .chr .sepc
    | .cls _ neg items => specClsRe neg items
    | .one _ => .chr .nsep
    | .zom .. => .star (.chr .nsep)
    | .tree _ r => specTreeRe c r
    | .alt _ bs => altOrNever (specBranches c bs)
    | .cat _ ts => .cat (specList c ts)
    | .rep _ body lo hi =>
      specRepRe (specTok c body) (specTok ⟨c.first, false⟩ body) (specTok ⟨false, false⟩ body)
        (specTok ⟨false, c.last⟩ body) lo hi
  def specList (c : Ctx) : List Tok → List Re
    | [] => []
    | t :: ts => specTok ⟨c.first, c.last && ts.isEmpty⟩ t :: specList ⟨false, c.last⟩ ts
  def specBranches (c : Ctx) : List Tok → List Re
    | [] => []
    | b :: bs => specTok c b :: specBranches c bs
end

def specRe (t : Tok) : Re := specTok ⟨true, true⟩ t

def specPattern2 (t : Tok) : String := "(?s)^" ++ (specRe t).print ++ "$"

end Wax
