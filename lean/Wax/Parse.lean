import Wax.Syntax
/-! The nom grammar of wax (prototype), as total functions with fuel. -/
namespace Wax

structure Input where
  rest : Str
  loc : Nat          -- byte offset
  ci : Bool          -- flag state
  sub : Nat          -- start of the current sub-expression (byte offset)
deriving Inhabited

def Input.adv (i : Input) (n : Nat) : Input :=
  let taken := i.rest.take n
  { i with rest := i.rest.drop n, loc := i.loc + (taken.map Char.utf8Size).sum }

def Input.tag (i : Input) (t : String) : Option Input :=
  let tl := t.toList
  if tl.isPrefixOf i.rest then some (i.adv tl.length) else none

inductive Term where | eof | altT | repT
deriving BEq

/-- terminators never consume -/
def Input.term (i : Input) : Term → Bool
  | .eof => i.rest.isEmpty
  | .altT => match i.rest with | c :: _ => c == ',' || c == '}' | [] => false
  | .repT => match i.rest with | c :: _ => c == ':' || c == '>' | [] => false

/-- many1(alt("i" | "-i")) with the toggles applied when `st` -/
def flagToggles (st : Bool) : Nat → Input → Bool → Option Input
  | 0, i, any => if any then some i else none
  | n + 1, i, any =>
    match i.tag "i" with
    | some j => flagToggles st n (if st then { j with ci := true } else j) true
    | none =>
      match i.tag "-i" with
      | some j => flagToggles st n (if st then { j with ci := false } else j) true
      | none => if any then some i else none

/-- many0(delimited("(?", many1(..), ")")) -/
def flags (st : Bool) : Nat → Input → Input
  | 0, i => i
  | n + 1, i =>
    match i.tag "(?" with
    | none => i
    | some j =>
      match flagToggles st j.rest.length j false with
      | none => i
      | some k =>
        match k.tag ")" with
        | none => i
        | some l => flags st n l

def flagsS (i : Input) : Input := flags true i.rest.length i
def flagsN (i : Input) : Input := flags false i.rest.length i

def literalStop : List Char := "/?*$:<>()[]{},\\".toList
def literalEsc : List Char := "?*$:<>()[]{},".toList

/-- escaped_transform(is_not(stop), '\\', alt(escapes)) + verify non-empty -/
def literalLoop : Nat → Input → Str → Option (Str × Input)
  | 0, i, acc => if acc.isEmpty then none else some (acc, i)
  | n + 1, i, acc =>
    match i.rest with
    | [] => if acc.isEmpty then none else some (acc, i)
    | c :: cs =>
      if c == '\\' then
        match cs with
        | [] => none
        | d :: _ => if literalEsc.contains d then literalLoop n (i.adv 2) (acc ++ [d]) else none
      else if literalStop.contains c then
        if acc.isEmpty then none else some (acc, i)
      else literalLoop n (i.adv 1) (acc ++ [c])

def parseLiteral (i : Input) : Option (Str × Bool × Input) :=
  match literalLoop i.rest.length i [] with
  | some (t, j) => some (t, i.ci, j)
  | none => none

def classChar (i : Input) : Option (Char × Input) :=
  match i.rest with
  | [] => none
  | c :: cs =>
    if c == '\\' then
      match cs with
      | d :: _ => if d == '[' || d == ']' || d == '-' then some (d, i.adv 2) else none
      | [] => none
    else if c == '[' || c == ']' || c == '-' then none
    else some (c, i.adv 1)

def archetype (i : Input) : Option (Arch × Input) :=
  match classChar i with
  | none => none
  | some (a, j) =>
    match j.tag "-" with
    | some k =>
      match classChar k with
      | some (b, l) => some (.rng a b, l)
      | none => some (.chr a, j)
    | none => some (.chr a, j)

def archetypes : Nat → Input → List Arch → (List Arch × Input)
  | 0, i, acc => (acc, i)
  | n + 1, i, acc =>
    match archetype i with
    | some (a, j) => archetypes n j (acc ++ [a])
    | none => (acc, i)

def parseClass (i : Input) : Option (Bool × List Arch × Input) :=
  match i.tag "[" with
  | none => none
  | some j =>
    let (neg, k) := match j.tag "!" with | some k => (true, k) | none => (false, j)
    let (items, l) := archetypes k.rest.length k []
    if items.isEmpty then none else
    match l.tag "]" with
    | some m => some (neg, items, m)
    | none => none

def isNotStarDollar (i : Input) : Bool :=
  match i.rest with | c :: _ => c != '*' && c != '$' | [] => false

inductive WildK where | one | tree (root : Bool) | zom (lazy : Bool)

def parseWildcard (t : Term) (i : Input) : Option (WildK × Input) :=
  -- exactly-one
  match i.tag "?" with
  | some j => some (.one, j)
  | none =>
    -- tree
    let pre : Option (Bool × Input) :=
      match i.tag "/" with
      | some j => some (true, flagsS j)
      | none => if i.sub == i.loc then some (false, flagsS i) else none
    let treeR : Option (WildK × Input) :=
      match pre with
      | none => none
      | some (root, j) =>
        match j.tag "**" with
        | none => none
        | some k =>
          let k' := flagsS k
          match k'.tag "/" with
          | some l => some (.tree root, l)
          | none => if k.term t then some (.tree root, k) else none
    match treeR with
    | some r => some r
    | none =>
      let zomK (sym : String) (lazy : Bool) : Option (WildK × Input) :=
        match i.tag sym with
        | none => none
        | some j =>
          if isNotStarDollar (flagsN j) then some (.zom lazy, j)
          else if j.term t then some (.zom lazy, j) else none
      match zomK "*" false with
      | some r => some r
      | none => zomK "$" true

def digits : Input → (Str × Input)
  | i => let ds := i.rest.takeWhile Char.isDigit; (ds, i.adv ds.length)

def usizeMax : Nat := 18446744073709551615

def toUsize (ds : Str) : Option Nat :=
  if ds.isEmpty then none else
  let n := ds.foldl (fun a c => a * 10 + (c.toNat - '0'.toNat)) 0
  if n ≤ usizeMax then some n else none

def parseBounds (i : Input) : (Nat × Option Nat × Input) :=
  match i.tag ":" with
  | none => (0, none, i)
  | some j =>
    -- range
    let range : Option (Nat × Option Nat × Input) :=
      let (d1, k) := digits j
      match toUsize d1 with
      | none => if d1.isEmpty then none else none
      | some lo =>
        match k.tag "," with
        | none => none
        | some l =>
          let (d2, m) := digits l
          if d2.isEmpty then some (lo, none, l)
          else match toUsize d2 with
            | some hi => some (lo, some hi, m)
            | none => none
    match range with
    | some r => r
    | none =>
      let (d1, k) := digits j
      match toUsize d1 with
      | some n => (n, some n, k)
      | none => (1, none, j)

mutual
  /-- concatenation(terminator): many1(token) then terminator (not consumed) -/
  def parseGlob : Nat → Term → Input → Option (Tok × Input)
    | 0, _, _ => none
    | fuel + 1, t, i0 =>
      let i := { i0 with sub := i0.loc }
      match parseTokens fuel t i [] with
      | none => none
      | some (toks, j) =>
        if toks.isEmpty then none
        else if j.term t then some (.cat ⟨i.loc, j.loc - i.loc⟩ toks, j) else none

  /-- many1: stop at the first token that fails; the caller checks non-emptiness -/
  def parseTokens : Nat → Term → Input → List Tok → Option (List Tok × Input)
    | 0, _, i, acc => some (acc, i)
    | fuel + 1, t, i, acc =>
      match parseToken fuel t i with
      | some (tok, j) => if j.loc == i.loc then some (acc, i) else parseTokens fuel t j (acc ++ [tok])
      | none => some (acc, i)

  def parseToken : Nat → Term → Input → Option (Tok × Input)
    | 0, _, _ => none
    | fuel + 1, t, i =>
      let f := flagsS i
      let sp (j : Input) : Span := ⟨i.loc, j.loc - i.loc⟩
      match parseLiteral f with
      | some (text, ci, j) => some (.lit (sp j) text ci, j)
      | none =>
      match parseRepetition fuel f with
      | some (body, lo, hi, j) => some (.rep (sp j) body lo hi, j)
      | none =>
      match parseAlternation fuel f with
      | some (bs, j) => some (.alt (sp j) bs, j)
      | none =>
      match parseWildcard t f with
      | some (.one, j) => some (.one (sp j), j)
      | some (.tree r, j) => some (.tree (sp j) r, j)
      | some (.zom l, j) => some (.zom (sp j) l, j)
      | none =>
      match parseClass f with
      | some (neg, items, j) => some (.cls (sp j) neg items, j)
      | none =>
      match f.tag "/" with
      | some j => some (.sep (sp j), j)
      | none => none

  def parseRepetition : Nat → Input → Option (Tok × Nat × Option Nat × Input)
    | 0, _ => none
    | fuel + 1, i =>
      match i.tag "<" with
      | none => none
      | some j =>
        match parseGlob fuel .repT j with
        | none => none
        | some (body, k) =>
          let (lo, hi, l) := parseBounds k
          match l.tag ">" with
          | some m => some (body, lo, hi, m)
          | none => none

  def parseAlternation : Nat → Input → Option (List Tok × Input)
    | 0, _ => none
    | fuel + 1, i =>
      match i.tag "{" with
      | none => none
      | some j =>
        match parseGlob fuel .altT j with
        | none => none
        | some (b, k) =>
          let (bs, l) := parseBranches fuel k [b]
          match l.tag "}" with
          | some m => some (bs, m)
          | none => none

  /-- the tail of separated_list1 -/
  def parseBranches : Nat → Input → List Tok → (List Tok × Input)
    | 0, i, acc => (acc, i)
    | fuel + 1, i, acc =>
      match i.tag "," with
      | none => (acc, i)
      | some j =>
        match parseGlob fuel .altT j with
        | none => (acc, i)
        | some (b, k) => parseBranches fuel k (acc ++ [b])
end

inductive ParseResult where
  | ok (t : Tok)
  | err (locs : List Nat)    -- byte locations of the reported error entries

def parse (e : Str) : ParseResult :=
  if e.isEmpty then .ok (.lit ⟨0, 0⟩ [] false) else
  let i : Input := { rest := e, loc := 0, ci := false, sub := 0 }
  let fuel := 4 * e.length + 8
  -- the top-level many1, inlined so that the two error shapes are visible
  let i := { i with sub := i.loc }
  match parseTokens fuel .eof i [] with
  | none => .err []
  | some (toks, j) =>
    if toks.isEmpty then
      -- first iteration failed: [Tag at q, Context 0, Alt 0, Many1 0]
      .err [(flagsS i).loc, 0, 0, 0]
    else if j.rest.isEmpty then .ok (.cat ⟨0, j.loc⟩ toks)
    else .err [j.loc]

end Wax
