/-! GENERATED from the Rust sources by extract.py; do not edit. -/
namespace Wax.Generated

def metaChars : List Char := ['?', '*', '$', ':', '<', '>', '(', ')', '[', ']', '{', '}', ',']
def contextualMetaChars : List Char := ['-']
def literalStopSet : List Char := ['/', '?', '*', '$', ':', '<', '>', '(', ')', '[', ']', '{', '}', ',', '\\']
def literalEscapes : List Char := ['?', '*', '$', ':', '<', '>', '(', ')', '[', ']', '{', '}', ',']
def classStopSet : List Char := ['[', ']', '-', '\\']
def maxInvariantSize : Nat := 65536
inductive T where | open_ | first | last | closed | coal deriving DecidableEq, Repr
inductive K where | left | right | neither deriving DecidableEq, Repr
def terminationTable : List (T × T × K × T) := [
  (.open_, .open_, .neither, .open_),
  (.open_, .first, .neither, .open_),
  (.open_, .last, .neither, .last),
  (.open_, .closed, .neither, .last),
  (.open_, .coal, .left, .last),
  (.first, .open_, .neither, .first),
  (.first, .first, .neither, .first),
  (.first, .last, .neither, .closed),
  (.first, .closed, .neither, .closed),
  (.first, .coal, .left, .closed),
  (.last, .open_, .neither, .open_),
  (.last, .first, .neither, .open_),
  (.last, .last, .neither, .last),
  (.last, .closed, .neither, .last),
  (.last, .coal, .left, .last),
  (.closed, .open_, .neither, .first),
  (.closed, .first, .neither, .first),
  (.closed, .last, .neither, .closed),
  (.closed, .closed, .neither, .closed),
  (.closed, .coal, .left, .closed),
  (.coal, .open_, .right, .first),
  (.coal, .first, .right, .first),
  (.coal, .last, .right, .closed),
  (.coal, .closed, .right, .closed),
  (.coal, .coal, .neither, .coal)]
inductive W where | always | sometimes | never deriving DecidableEq, Repr
def whenAnd : List (W × W × W) := [(.always, .always, .always), (.always, .sometimes, .sometimes), (.always, .never, .never), (.sometimes, .always, .sometimes), (.sometimes, .sometimes, .sometimes), (.sometimes, .never, .never), (.never, .always, .never), (.never, .sometimes, .never), (.never, .never, .never)]
def whenOr : List (W × W × W) := [(.always, .always, .always), (.always, .sometimes, .always), (.always, .never, .always), (.sometimes, .always, .always), (.sometimes, .sometimes, .sometimes), (.sometimes, .never, .sometimes), (.never, .always, .always), (.never, .sometimes, .sometimes), (.never, .never, .never)]
def whenCertainty : List (W × W × W) := [(.always, .always, .always), (.always, .sometimes, .sometimes), (.always, .never, .sometimes), (.sometimes, .always, .sometimes), (.sometimes, .sometimes, .sometimes), (.sometimes, .never, .sometimes), (.never, .always, .sometimes), (.never, .sometimes, .sometimes), (.never, .never, .never)]
def neverExpression : String := "[a&&b]"
def separatorClassExpression : String := "/"
def rootSeparatorExpression : String := "/"
def semanticLiterals : List String := [".", ".."]

/-! helpers of the straight-line integer functions translated by tools/rs2lean.py (Wax/GeneratedBehavior.lean, GeneratedJoin.lean, GeneratedOps.lean) -/
/-- `usize::MAX` on the 64-bit targets the crate is checked on -/
def usizeMax : Nat := 2 ^ 64 - 1
/-- `usize::saturating_sub` -/
def satSub (a b : Nat) : Nat := a - b
/-- `usize::saturating_add` / `NonZeroUsize::saturating_add` -/
def satAdd (a b : Nat) : Nat := if a + b ≤ usizeMax then a + b else usizeMax
/-- `a.checked_add(b).expect(..)`: the sum; the panic on overflow is the side condition `a + b ≤ usizeMax` -/
def checkedAddExpect (a b : Nat) : Nat := a + b
/-- `a.checked_mul(b).expect(..)`: the product; the panic on overflow is the side condition `a * b ≤ usizeMax` -/
def checkedMulExpect (a b : Nat) : Nat := a * b

-- obligations re-checked against the code as it is now
theorem meta_eq_escapes : metaChars.all (literalEscapes.contains ·) && literalEscapes.all (metaChars.contains ·) = true := by decide
theorem stop_is_meta_plus_sep_bs : literalStopSet.all (fun c => c == '/' || c == '\\' || metaChars.contains c) && metaChars.all (literalStopSet.contains ·) && literalStopSet.contains '/' && literalStopSet.contains '\\' = true := by decide
theorem table_total : terminationTable.length = 25 := by decide

end Wax.Generated
