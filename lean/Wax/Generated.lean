/-! GENERATED from the Rust sources by extract.py; do not edit. -/
namespace Wax.Generated

def metaChars : List Char := ['?', '*', '$', ':', '<', '>', '(', ')', '[', ']', '{', '}', ',']
def contextualMetaChars : List Char := ['-']
def literalStopSet : List Char := ['/', '?', '*', '$', ':', '<', '>', '(', ')', '[', ']', '{', '}', ',', '\\']
def literalEscapes : List Char := ['?', '*', '$', ':', '<', '>', '(', ')', '[', ']', '{', '}', ',']
def classStopSet : List Char := ['[', ']', '-', '\\']
def maxInvariantSize : Nat := 65536
inductive T where | open_ | first | last | closed | coal deriving DecidableEq, Repr
inductive K where | left | right | neither deriving DecidableEq, Repr
def terminationTable : List (T × T × K × T) := [
  (.open_, .open_, .neither, .open_),
  (.open_, .first, .neither, .open_),
  (.open_, .last, .neither, .last),
  (.open_, .closed, .neither, .last),
  (.open_, .coal, .left, .last),
  (.first, .open_, .neither, .first),
  (.first, .first, .neither, .first),
  (.first, .last, .neither, .closed),
  (.first, .closed, .neither, .closed),
  (.first, .coal, .left, .closed),
  (.last, .open_, .neither, .open_),
  (.last, .first, .neither, .open_),
  (.last, .last, .neither, .last),
  (.last, .closed, .neither, .last),
  (.last, .coal, .left, .last),
  (.closed, .open_, .neither, .first),
  (.closed, .first, .neither, .first),
  (.closed, .last, .neither, .closed),
  (.closed, .closed, .neither, .closed),
  (.closed, .coal, .left, .closed),
  (.coal, .open_, .right, .first),
  (.coal, .first, .right, .first),
  (.coal, .last, .right, .closed),
  (.coal, .closed, .right, .closed),
  (.coal, .coal, .neither, .coal)]

-- obligations re-checked against the code as it is now
theorem meta_eq_escapes : metaChars.all (literalEscapes.contains ·) && literalEscapes.all (metaChars.contains ·) = true := by decide
theorem stop_is_meta_plus_sep_bs : literalStopSet.all (fun c => c == '/' || c == '\\' || metaChars.contains c) && metaChars.all (literalStopSet.contains ·) && literalStopSet.contains '/' && literalStopSet.contains '\\' = true := by decide
theorem table_total : terminationTable.length = 25 := by decide

end Wax.Generated
