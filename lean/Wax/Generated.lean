/-! GENERATED from the Rust sources by tools/extract.py; do not edit. -/
namespace Wax.Generated

def metaChars : List Char := ['?', '*', '$', ':', '<', '>', '(', ')', '[', ']', '{', '}', ',']
def contextualMetaChars : List Char := ['-']
def maxInvariantSize : Nat := 65536

/-! helpers of the straight-line integer functions translated by tools/rs2lean.py -/
/-- `usize::MAX` on the 64-bit targets the crate is checked on -/
def usizeMax : Nat := 2 ^ 64 - 1
/-- `usize::saturating_sub` -/
def satSub (a b : Nat) : Nat := a - b
/-- `usize::saturating_add` / `NonZeroUsize::saturating_add` -/
def satAdd (a b : Nat) : Nat := if a + b ≤ usizeMax then a + b else usizeMax
/-- `a.checked_add(b).expect(..)`: the sum; the panic on overflow is the side condition `a + b ≤ usizeMax` -/
def checkedAddExpect (a b : Nat) : Nat := a + b
/-- `a.checked_mul(b).expect(..)`: the product; the panic on overflow is the side condition `a * b ≤ usizeMax` -/
def checkedMulExpect (a b : Nat) : Nat := a * b

end Wax.Generated
