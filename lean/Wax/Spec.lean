import Wax.Encode
/-!
The documented language of a glob (README "Patterns"), as a mutual inductive family over token
trees.  `Ctx` records whether anything precedes / follows in the *flat expansion* (choose a branch
of every alternation, write every repetition body out `n` times).
-/
namespace Wax

structure Ctx where
  first : Bool
  last : Bool
deriving BEq, Repr, DecidableEq, Inhabited

/-- a tree wildcard: zero or more complete components, delimited by separators or by the ends of
    the path.  `C := (non-separator)* ++ "/"`. -/
def TreeLang (c : Ctx) (hasRoot : Bool) (w : Str) : Prop :=
  if c.last then
    if c.first then (if hasRoot then ∃ r, w = '/' :: r else True)
    else (w = [] ∨ ∃ r, w = '/' :: r)
  else
    if hasRoot || !c.first then ∃ r, Star CompSep r ∧ w = '/' :: r
    else Star CompSep w

/-- membership in a class: exact comparison, never a separator, whatever flags precede -/
def classHolds (neg : Bool) (items : List Arch) (c : Char) : Bool :=
  c != '/' && (if neg then !(items.any (Arch.mem c)) else items.any (Arch.mem c))

mutual
  inductive SM (σ : Sem) : Ctx → Tok → Str → Prop
    | lit {c sp s ci w} : litEq σ ci s w = true → SM σ c (.lit sp s ci) w
    | sep {c sp} : SM σ c (.sep sp) ['/']
    | cls {c sp neg items ch} : classHolds neg items ch = true → SM σ c (.cls sp neg items) [ch]
    | one {c sp ch} : ch ≠ '/' → SM σ c (.one sp) [ch]
    | zom {c sp l w} : SepFree w → SM σ c (.zom sp l) w
    | tree {c sp hasRoot w} : TreeLang c hasRoot w → SM σ c (.tree sp hasRoot) w
    | alt {c sp bs b w} : b ∈ bs → SMs σ c b.concatenation w → SM σ c (.alt sp bs) w
    | rep {c sp body lo hi n w} : lo ≤ n → (∀ h, hi = some h → n ≤ h) →
        SRep σ c body.concatenation n w → SM σ c (.rep sp body lo hi) w
    | cat {c sp ts w} : SMs σ c ts w → SM σ c (.cat sp ts) w
  inductive SMs (σ : Sem) : Ctx → List Tok → Str → Prop
    | nil {c} : SMs σ c [] []
    | cons {c t ts u v} : SM σ ⟨c.first, c.last && ts.isEmpty⟩ t u → SMs σ ⟨false, c.last⟩ ts v →
        SMs σ c (t :: ts) (u ++ v)
  inductive SRep (σ : Sem) : Ctx → List Tok → Nat → Str → Prop
    | zero {c body} : SRep σ c body 0 []
    | one {c body w} : SMs σ c body w → SRep σ c body 1 w
    | more {c body n u v} : SMs σ ⟨c.first, false⟩ body u → SRep σ ⟨false, c.last⟩ body (n + 1) v →
        SRep σ c body (n + 2) (u ++ v)
end

/-- the language of a whole pattern (`Glob` or `Any`) -/
def Spec.Matches (σ : Sem) (t : Tok) (w : Str) : Prop := SMs σ ⟨true, true⟩ t.concatenation w

end Wax
