import Wax.RuleS
import Wax.Size
import Wax.Generated
import Wax.Literals
import Wax.Proofs.Arith
/-!
`rule::check` (rule.rs) with error identity: which rule fires first (boundary, bounds, branch,
size), with which kind, and at which span.

The real code walks the tree breadth first (`walk::forward`, a queue) and, for the branch rule,
keeps its own queue of `(token, inherited neighbours)`.  A queue over a tree visits the tokens
level by level and each level in document order, so the model searches level `0, 1, 2, …` with a
structurally recursive "first hit at depth `d`" function instead of a queue.
-/
namespace Wax

inductive RuleErr where
  | rooted | singularTree | singularZom | adjBoundary | adjZom | oversized | bounds
deriving DecidableEq, Repr, Inhabited

def RuleErr.code : RuleErr → String
  | .rooted => "rooted" | .singularTree => "singular-tree" | .singularZom => "singular-zom"
  | .adjBoundary => "adj-boundary" | .adjZom => "adj-zom" | .oversized => "oversized"
  | .bounds => "bounds"

abbrev RuleHit := RuleErr × Span

mutual
  def Tok.height : Tok → Nat
    | .alt _ bs => heightL bs + 1
    | .cat _ ts => heightL ts + 1
    | .rep _ b _ _ => b.height + 1
    | _ => 0
  def heightL : List Tok → Nat
    | [] => 0
    | t :: ts => max t.height (heightL ts)
end

/-- try the levels `d, d+1, …` (`n` of them) in turn -/
def searchLevels {α} (f : Nat → Option α) : Nat → Nat → Option α
  | 0, _ => none
  | n + 1, d => match f d with | some x => some x | none => searchLevels f n (d + 1)

def searchLevelsP {α} (f : Nat → P (Option α)) : Nat → Nat → P (Option α)
  | 0, _ => pure none
  | n + 1, d => do
    match ← f d with
    | some x => pure (some x)
    | none => searchLevelsP f n (d + 1)

mutual
  /-- the first token exactly `d` levels below `t`, in document order, for which `f` answers -/
  def findAt {α} (f : Tok → Option α) : Nat → Tok → Option α
    | 0, t => f t
    | d + 1, .alt _ bs => findAtL f d bs
    | d + 1, .cat _ ts => findAtL f d ts
    | d + 1, .rep _ b _ _ => findAt f d b
    | _ + 1, _ => none
  def findAtL {α} (f : Tok → Option α) : Nat → List Tok → Option α
    | _, [] => none
    | d, t :: ts => match findAt f d t with | some x => some x | none => findAtL f d ts
end

/-- `walk::forward(tree).find_map(f)`: breadth first -/
def bfsFind {α} (f : Tok → Option α) (t : Tok) : Option α :=
  searchLevels (fun d => findAt f d t) (t.height + 1) 0

mutual
  def findAtP {α} (f : Tok → P (Option α)) : Nat → Tok → P (Option α)
    | 0, t => f t
    | d + 1, .alt _ bs => findAtLP f d bs
    | d + 1, .cat _ ts => findAtLP f d ts
    | d + 1, .rep _ b _ _ => findAtP f d b
    | _ + 1, _ => pure none
  def findAtLP {α} (f : Tok → P (Option α)) : Nat → List Tok → P (Option α)
    | _, [] => pure none
    | d, t :: ts => do
      match ← findAtP f d t with
      | some x => pure (some x)
      | none => findAtLP f d ts
end

def bfsFindP {α} (f : Tok → P (Option α)) (t : Tok) : P (Option α) :=
  searchLevelsP (fun d => findAtP f d t) (t.height + 1) 0

/-! ### boundary: adjacent boundaries in one concatenation -/

/-- `tuple_windows().filter(both boundaries).map(spans)` of one concatenation, first hit -/
def firstAdjBoundary : List Tok → Option Span
  | a :: b :: rest =>
    if a.isBoundaryT && b.isBoundaryT then some (a.span.union b.span)
    else firstAdjBoundary (b :: rest)
  | _ => none

def boundaryAt : Tok → Option RuleHit
  | .cat _ ts => match firstAdjBoundary ts with | some s => some (.adjBoundary, s) | none => none
  | _ => none

def ruleBoundary (t : Tok) : Option RuleHit := bfsFind boundaryAt t

/-! ### bounds: incompatible bound specifications -/

def boundsAt : Tok → Option RuleHit
  | .rep sp _ lo hi => if boundsOk lo hi then none else some (.bounds, sp)
  | _ => none

def ruleBounds (t : Tok) : Option RuleHit := bfsFind boundsAt t

/-! ### branch: the terminals of every alternative / repeated sub-glob against its neighbours -/

def Terms.isOnly : Terms → Bool | .only _ => true | .startEnd .. => false

/-- `check_branch`, the match arms in order -/
def checkBranch (ts : Terms) (o : Outer) : Option RuleErr :=
  if ts.start.isSepT && endsWith Tok.isBoundaryT o.left then some .adjBoundary
  else if ts.end_.isSepT && startsWith Tok.isBoundaryT o.right then some .adjBoundary
  else if ts.isOnly && ts.start.isTreeT then some .singularTree
  else if !ts.isOnly && ts.start.isTreeT && endsWith Tok.isBoundaryT o.left then some .adjBoundary
  else if !ts.isOnly && ts.end_.isTreeT && startsWith Tok.isBoundaryT o.right then some .adjBoundary
  else if ts.start.isZomT && endsWith Tok.isZomT o.left then some .adjZom
  else if ts.end_.isZomT && startsWith Tok.isZomT o.right then some .adjZom
  else none

/-- `check_alternation`: the three arms (separator, rooted tree wildcard, rooting branch token)
    all report `RootedSubGlob` -/
def checkAlternation (ts : Terms) (o : Outer) : Option RuleErr :=
  if o.left.isNone && rootsIt ts.start then some .rooted else none

/-- `check_repetition`, the match arms in order -/
def checkRepetition (ts : Terms) (o : Outer) (lo : Nat) (hi : Option Nat) : Option RuleErr :=
  if o.left.isNone && lowerUnbounded lo hi && rootsIt ts.start then some .rooted
  else if !ts.isOnly && ts.start.isBoundaryT && ts.end_.isBoundaryT then some .adjBoundary
  else if ts.isOnly && ts.start.isSepT then some .adjBoundary
  else if ts.isOnly && ts.start.isZomT then some .singularZom
  else none

def orElse {α} : Option α → Option α → Option α
  | some x, _ => some x
  | none, y => y

/-- the checks of one sub-glob (an alternative or the body of a repetition) -/
def termsErr (f : Terms → Option RuleErr) (b : Tok) : Option RuleErr :=
  match terminals b.concatenation with
  | none => none
  | some ts => f ts

/-- one alternation: every alternative in order, `check_branch` before `check_alternation`; the
    span reported is the alternation's (`diagnose`) -/
def siteAlt (sp : Span) (outer : Outer) : List Tok → Option RuleHit
  | [] => none
  | b :: bs =>
    match termsErr (fun ts => orElse (checkBranch ts outer) (checkAlternation ts outer)) b with
    | some k => some (k, sp)
    | none => siteAlt sp outer bs

/-- one repetition -/
def siteRep (sp : Span) (outer : Outer) (body : Tok) (lo : Nat) (hi : Option Nat) : Option RuleHit :=
  match termsErr (fun ts => orElse (checkBranch ts outer) (checkRepetition ts outer lo hi)) body with
  | some k => some (k, sp)
  | none => none

mutual
  /-- `t` is a queued token with inherited neighbours `inh`; the first error among the
      alternations and repetitions whose queue generation is `d` below `t`'s -/
  def branchAt : Nat → Outer → Tok → Option RuleHit
    | d, inh, .cat _ ts => branchSeq d inh none ts
    | 0, inh, .alt sp bs => siteAlt sp inh bs
    | d + 1, inh, .alt _ bs => branchAll d inh bs
    | 0, inh, .rep sp b lo hi => siteRep sp inh b lo hi
    | d + 1, inh, .rep _ b _ _ => branchAt d inh b
    | _, _, _ => none
  /-- the tokens of one concatenation (`adjacent()`), each with its own neighbours -/
  def branchSeq : Nat → Outer → Option Tok → List Tok → Option RuleHit
    | _, _, _, [] => none
    | 0, inh, prev, .alt sp bs :: rest =>
      orElse (siteAlt sp (inh.or prev rest.head?) bs) (branchSeq 0 inh (some (.alt sp bs)) rest)
    | d + 1, inh, prev, .alt sp bs :: rest =>
      orElse (branchAll d (inh.or prev rest.head?) bs) (branchSeq (d + 1) inh (some (.alt sp bs)) rest)
    | 0, inh, prev, .rep sp b lo hi :: rest =>
      orElse (siteRep sp (inh.or prev rest.head?) b lo hi)
        (branchSeq 0 inh (some (.rep sp b lo hi)) rest)
    | d + 1, inh, prev, .rep sp b lo hi :: rest =>
      orElse (branchAt d (inh.or prev rest.head?) b)
        (branchSeq (d + 1) inh (some (.rep sp b lo hi)) rest)
    | d, inh, _, t :: rest => branchSeq d inh (some t) rest
  /-- the alternatives of one alternation, queued with the same neighbours -/
  def branchAll : Nat → Outer → List Tok → Option RuleHit
    | _, _, [] => none
    | d, o, b :: bs => orElse (branchAt d o b) (branchAll d o bs)
end

def ruleBranch (t : Tok) : Option RuleHit :=
  searchLevels (fun d => branchAt d ⟨none, none⟩ t) (t.height + 1) 0

/-! ### size: oversized invariants -/

def sizeAt (t : Tok) : P (Option RuleHit) := do
  match ← sizeVariance t with
  | .inv n => pure (if n ≥ Generated.maxInvariantSize then some (.oversized, t.span) else none)
  | _ => pure none

def ruleSize (t : Tok) : P (Option RuleHit) := bfsFindP sizeAt t

/-- `rule::check`: `none` is acceptance -/
def check (t : Tok) : P (Option RuleHit) :=
  match ruleBoundary t with
  | some e => pure (some e)
  | none =>
  match ruleBounds t with
  | some e => pure (some e)
  | none =>
  match ruleBranch t with
  | some e => pure (some e)
  | none => ruleSize t

end Wax
