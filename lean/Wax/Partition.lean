import Wax.Text
import Wax.Query
/-! `Tokenized::partition` (token/mod.rs:194-228) with `Token::invariant_text_prefix`, structural. -/
namespace Wax

def Tok.span : Tok → Span
  | .lit s .. | .sep s | .cls s .. | .one s | .zom s .. | .tree s .. | .alt s .. | .cat s ..
  | .rep s .. => s

mutual
  def Tok.mapSpans (f : Span → Span) : Tok → Tok
    | .lit s t ci => .lit (f s) t ci
    | .sep s => .sep (f s)
    | .cls s n i => .cls (f s) n i
    | .one s => .one (f s)
    | .zom s l => .zom (f s) l
    | .tree s r => .tree (f s) r
    | .alt s bs => .alt (f s) (mapSpansL f bs)
    | .cat s ts => .cat (f s) (mapSpansL f ts)
    | .rep s b lo hi => .rep (f s) (b.mapSpans f) lo hi
  def mapSpansL (f : Span → Span) : List Tok → List Tok
    | [] => []
    | t :: ts => t.mapSpans f :: mapSpansL f ts
end

def isBoundaryTok : Tok → Bool | .sep _ | .tree .. => true | _ => false

def pick (r : Option (Nat × Str)) : Nat × Str := match r with | some (i, s) => (i + 1, s) | none => (0, [])

/-- the scan of `invariant_text_prefix`: `head` = last invariant token so far with the text up to
it, `check` = the same at the last boundary token -/
def prefixGo (κ : Casing) : Nat → List Tok → Option (Nat × Str) → Option (Nat × Str) → Nat × Str
  | _, [], head, _ => pick head
  | n, tok :: rest, head, check =>
    match textTok κ tok with
    | .inv fs =>
      let txt := (match head with | some (_, s) => s | none => []) ++ fragsToStr fs
      let head' := some (n, txt)
      prefixGo κ (n + 1) rest head' (if isBoundaryTok tok then head' else check)
    | _ => pick (if isBoundaryTok tok then head else check)

def firstRootedVariant (κ : Casing) : List Tok → Bool
  | f :: _ => hasRoot f == .always && (match textTok κ f with | .inv _ => false | _ => true)
  | [] => false

def invariantTextPrefix (κ : Casing) (t : Tok) : Nat × Str :=
  if firstRootedVariant κ t.concatenation then (0, ['/']) else prefixGo κ 0 t.concatenation none none

def unroot : Tok → Tok × Nat
  | .tree s true => (.tree ⟨s.start + 1, s.len - 1⟩ false, 1)
  | t => (t, 0)

/-- (prefix text, removed bytes, postfix) -/
def partition (κ : Casing) (t : Tok) : Str × Nat × Option Tok :=
  let (n, text) := invariantTextPrefix κ t
  let (offset, rest) : Nat × Option Tok :=
    match t with
    | .cat sp ts =>
      if n ≥ ts.length then (sp.len, none)
      else
        match ts.drop n with
        | first :: more =>
          let (first', u) := unroot first
          ((((ts.take n).map (fun x => x.span.len)).sum) + u, some (.cat sp (first' :: more)))
        | [] => (sp.len, none)
    | other => if n == 0 then (0, some other) else (other.span.len, none)
  (text, offset, rest.map (Tok.mapSpans (fun s => ⟨s.start - offset, s.len⟩)))

end Wax
