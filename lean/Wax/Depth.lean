import Wax.Natural
import Wax.Syntax
/-!
Depth variance (`Token::variance::<Depth>`): the separated-term algebra of
token/variance/invariant/separation.rs — `Termination`, its conjunction table, `finalize` — and the
fold over a flat concatenation of leaves.  (The table is one of the regenerated ones.)
-/
namespace Wax

/-- TokenVariance<Depth> -/
inductive NVar where
  | inv (n : Nat) | unb | bnd (r : BVR)
deriving BEq, Repr, Inhabited

def NVar.ofV : VRange → NVar | .unbounded => .unb | .bounded r => .bnd r

def NVar.conj : NVar → NVar → P NVar
  | .inv a, .inv b => do pure (.inv (← cadd "conjunction of unsigned word" a b))
  | .bnd l, .bnd r => do pure (.bnd (← l.conjFixed r))   -- repair 5
  | .unb, .unb => pure .unb
  | .bnd b, .inv i => do pure (.bnd (← b.translation i))
  | .inv i, .bnd b => do pure (.bnd (← b.translation i))
  | .unb, .inv i => pure (if i == 0 then .unb else .bnd (.lower i))
  | .inv i, .unb => pure (if i == 0 then .unb else .bnd (.lower i))
  | .unb, .bnd b => pure (NVar.ofV b.openedUpper)
  | .bnd b, .unb => pure (NVar.ofV b.openedUpper)

inductive Termn where | open_ | first | last | closed | coal
deriving BEq, Repr, Inhabited, DecidableEq

inductive Coal where | left (t : Termn) | right (t : Termn) | neither (t : Termn)
deriving DecidableEq, Repr

open Termn in
def Termn.conj : Termn → Termn → Coal
  | coal, coal => .neither coal
  | closed, closed => .neither closed
  | first, last => .neither closed
  | first, closed => .neither closed
  | closed, last => .neither closed
  | last, closed => .neither last
  | open_, closed => .neither last
  | last, last => .neither last
  | open_, last => .neither last
  | closed, first => .neither first
  | closed, open_ => .neither first
  | first, first => .neither first
  | first, open_ => .neither first
  | open_, first => .neither open_
  | open_, open_ => .neither open_
  | last, first => .neither open_
  | last, open_ => .neither open_
  | coal, closed => .right closed
  | coal, last => .right closed
  | closed, coal => .left closed
  | first, coal => .left closed
  | last, coal => .left last
  | open_, coal => .left last
  | coal, first => .right first
  | coal, open_ => .right first

structure SepTerm where
  t : Termn
  v : NVar
deriving Repr, Inhabited

def SepTerm.finalize (s : SepTerm) : P NVar :=
  match s.t with
  | .open_ => s.v.conj (.inv 1)
  | .closed => pure (match s.v with | .inv n => .inv (n - 1) | x => x)
  | _ => pure s.v

def SepTerm.conj (l r : SepTerm) : P SepTerm := do
  match l.t.conj r.t with
  | .left t => pure ⟨t, ← (← l.finalize).conj r.v⟩
  | .right t => pure ⟨t, ← l.v.conj (← r.finalize)⟩
  | .neither t => pure ⟨t, ← l.v.conj r.v⟩

def leafTerm : Tok → SepTerm
  | .sep _ => ⟨.closed, .inv 1⟩
  | .tree .. => ⟨.coal, .unb⟩
  | _ => ⟨.open_, .inv 0⟩

/-- the fold over a concatenation whose children are all leaves: `reduce(conjunction)` left to
right, then `finalize` -/
def depthFlat : List Tok → P NVar
  | [] => (⟨.open_, .inv 0⟩ : SepTerm).finalize
  | x :: xs => do
    let acc ← (xs.map leafTerm).foldlM SepTerm.conj (leafTerm x)
    acc.finalize

end Wax
