import Wax.Query
/-!
The rule checker's *verdict* (rule.rs `check` minus the size rule, with repairs 1, 10, 11) as
structural recursion: the `outer` neighbours are inherited down the tree instead of being carried
through a breadth-first queue.  Error identity (kind, span) stays with the queue model.
-/
namespace Wax

def Tok.isBoundaryT : Tok → Bool | .sep _ | .tree .. => true | _ => false
def Tok.isZomT : Tok → Bool | .zom .. => true | _ => false
def Tok.isSepT : Tok → Bool | .sep _ => true | _ => false
def Tok.isTreeT : Tok → Bool | .tree .. => true | _ => false
def Tok.isRootedTreeT : Tok → Bool | .tree _ true => true | _ => false
def Tok.isBranchT : Tok → Bool | .alt .. | .cat .. | .rep .. => true | _ => false

mutual
  /-- `walk::starting`: some token on a leftmost path satisfies `p` (alternations: any branch) -/
  def anyStart (p : Tok → Bool) : Tok → Bool
    | .alt sp bs => p (.alt sp bs) || anyStartB p bs
    | .cat sp ts => p (.cat sp ts) || anyStartF p ts
    | .rep sp b lo hi => p (.rep sp b lo hi) || anyStart p b
    | t => p t
  def anyStartF (p : Tok → Bool) : List Tok → Bool
    | [] => false
    | t :: _ => anyStart p t
  def anyStartB (p : Tok → Bool) : List Tok → Bool
    | [] => false
    | b :: bs => anyStart p b || anyStartB p bs
end

mutual
  def anyEnd (p : Tok → Bool) : Tok → Bool
    | .alt sp bs => p (.alt sp bs) || anyEndB p bs
    | .cat sp ts => p (.cat sp ts) || anyEndL p ts
    | .rep sp b lo hi => p (.rep sp b lo hi) || anyEnd p b
    | t => p t
  def anyEndL (p : Tok → Bool) : List Tok → Bool
    | [] => false
    | [t] => anyEnd p t
    | _ :: t :: ts => anyEndL p (t :: ts)
  def anyEndB (p : Tok → Bool) : List Tok → Bool
    | [] => false
    | b :: bs => anyEnd p b || anyEndB p bs
end

structure Outer where
  left : Option Tok
  right : Option Tok
deriving Inhabited

def Outer.or (o : Outer) (l r : Option Tok) : Outer :=
  ⟨match l with | some x => some x | none => o.left, match r with | some x => some x | none => o.right⟩

def endsWith (p : Tok → Bool) : Option Tok → Bool | some t => anyEnd p t | none => false
def startsWith (p : Tok → Bool) : Option Tok → Bool | some t => anyStart p t | none => false

inductive Terms where | only (t : Tok) | startEnd (s e : Tok)

def lastOf : Tok → List Tok → Tok
  | t, [] => t
  | _, x :: xs => lastOf x xs

def terminals : List Tok → Option Terms
  | [] => none
  | [t] => some (.only t)
  | t :: x :: xs => some (.startEnd t (lastOf x xs))

def Terms.start : Terms → Tok | .only t => t | .startEnd s _ => s
def Terms.end_ : Terms → Tok | .only t => t | .startEnd _ e => e

def checkBranchOk (ts : Terms) (o : Outer) : Bool :=
  let isOnly := match ts with | .only _ => true | _ => false
  !(ts.start.isSepT && endsWith Tok.isBoundaryT o.left) &&
  !(ts.end_.isSepT && startsWith Tok.isBoundaryT o.right) &&
  !(isOnly && ts.start.isTreeT) &&
  !(!isOnly && ts.start.isTreeT && endsWith Tok.isBoundaryT o.left) &&
  !(!isOnly && ts.end_.isTreeT && startsWith Tok.isBoundaryT o.right) &&
  !(ts.start.isZomT && endsWith Tok.isZomT o.left) &&
  !(ts.end_.isZomT && startsWith Tok.isZomT o.right)

def rootsIt (t : Tok) : Bool :=
  t.isSepT || t.isRootedTreeT || (t.isBranchT && hasRoot t != .never)    -- last disjunct: repair 11

def checkAlternationOk (ts : Terms) (o : Outer) : Bool :=
  !(o.left.isNone && rootsIt ts.start)

def checkRepetitionOk (ts : Terms) (o : Outer) (lo : Nat) (hi : Option Nat) : Bool :=
  let isOnly := match ts with | .only _ => true | _ => false
  !(o.left.isNone && lowerUnbounded lo hi && rootsIt ts.start) &&
  !(!isOnly && ts.start.isBoundaryT && ts.end_.isBoundaryT) &&
  !(isOnly && ts.start.isSepT) &&
  !(isOnly && ts.start.isZomT)

def boundsOk (lo : Nat) (hi : Option Nat) : Bool :=
  match hi with
  | some h => !(decide (lo > h) || (lo == 0 && h == 0))
  | none => true

def noAdjBoundary : List Tok → Bool
  | a :: b :: rest => !(a.isBoundaryT && b.isBoundaryT) && noAdjBoundary (b :: rest)
  | _ => true

def termsOk (f : Terms → Bool) (b : Tok) : Bool :=
  match terminals b.concatenation with
  | none => true
  | some ts => f ts

mutual
  /-- a branch / body / the whole pattern, checked against the inherited neighbours -/
  def okBody (outer : Outer) : Tok → Bool
    | .cat _ ts => noAdjBoundary ts && okSeq outer none ts
    | .alt _ bs => okBranchesR outer bs
    | .rep _ body lo hi =>
      boundsOk lo hi &&
      termsOk (fun ts => checkBranchOk ts outer && checkRepetitionOk ts outer lo hi) body &&
      okBody outer body
    | _ => true
  /-- the tokens of one concatenation, each with its own neighbours -/
  def okSeq (inh : Outer) (prev : Option Tok) : List Tok → Bool
    | [] => true
    | .alt _ bs :: rest =>
      okBranchesR (inh.or prev rest.head?) bs && okSeq inh (some (.alt ⟨0, 0⟩ bs)) rest
    | .rep _ body lo hi :: rest =>
      boundsOk lo hi &&
      termsOk (fun ts => checkBranchOk ts (inh.or prev rest.head?) &&
        checkRepetitionOk ts (inh.or prev rest.head?) lo hi) body &&
      okBody (inh.or prev rest.head?) body && okSeq inh (some (.rep ⟨0, 0⟩ body lo hi)) rest
    | t :: rest => okSeq inh (some t) rest
  def okBranchesR (outer : Outer) : List Tok → Bool
    | [] => true
    | b :: bs =>
      termsOk (fun ts => checkBranchOk ts outer && checkAlternationOk ts outer) b &&
      okBody outer b && okBranchesR outer bs
end

/-- the verdict of `rule::check` without the size rule -/
def checkS (t : Tok) : Bool := okBody ⟨none, none⟩ t

end Wax
