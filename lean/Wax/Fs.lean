import Wax.Filter
/-!
The walkdir stack machine driven by a verdict function refines the structural pruned pre-order
traversal (C13 core; no links, depth bounds or faults yet).
-/
set_option linter.unusedSimpArgs false

namespace Wax.Fs

inductive Node where
  | file : Node
  | dir : List Node → Node

def Node.isDir : Node → Bool
  | .file => false
  | .dir _ => true

def Node.children : Node → List Node
  | .file => []
  | .dir cs => cs

structure Entry where
  path : List Nat
  isDir : Bool
deriving DecidableEq, Repr

/-- children with their indices, starting at `i` -/
def enum (i : Nat) : List Node → List (Nat × Node)
  | [] => []
  | n :: ns => (i, n) :: enum (i + 1) ns

mutual
  /-- structural specification: visit `n` at `path`; skip the children of a directory whose
      verdict `v` is `true` -/
  def visit (v : Entry → Bool) (path : List Nat) : Node → List Entry
    | .file => [⟨path, false⟩]
    | .dir cs => ⟨path, true⟩ :: (if v ⟨path, true⟩ then [] else visitList v path 0 cs)
  def visitList (v : Entry → Bool) (path : List Nat) (i : Nat) : List Node → List Entry
    | [] => []
    | n :: ns => visit v (path ++ [i]) n ++ visitList v path (i + 1) ns
end

/-- a frame: the directory's path, the index of the next child, the remaining children -/
structure Frame where
  path : List Nat
  next : Nat
  rest : List Node

mutual
  def Node.size : Node → Nat
    | .file => 1
    | .dir cs => 2 + sizeList cs
  def sizeList : List Node → Nat
    | [] => 0
    | n :: ns => n.size + sizeList ns
end

def Frame.size (f : Frame) : Nat := 1 + sizeList f.rest
def stackSize : List Frame → Nat
  | [] => 0
  | f :: fs => f.size + stackSize fs

inductive Step where
  | done : Step
  | pop : List Frame → Step
  | yield : Entry → Bool → List Frame → Step

/-- one iteration of walkdir's loop: pop an exhausted frame, or yield the next entry and push a
    frame for a directory (as walkdir's `push`) -/
def step : List Frame → Step
  | [] => .done
  | f :: fs =>
    match f.rest with
    | [] => .pop fs
    | n :: ns =>
      let p := f.path ++ [f.next]
      let f' : Frame := { f with next := f.next + 1, rest := ns }
      match n with
      | .file => .yield ⟨p, false⟩ false (f' :: fs)
      | .dir cs => .yield ⟨p, true⟩ true (⟨p, 0, cs⟩ :: f' :: fs)

/-- `cancel_walk_tree`: `skip_current_dir` guarded by `is_dir` -/
def cancel (lastIsDir : Bool) (s : List Frame) : List Frame :=
  if lastIsDir then s.tail else s

/-- drive the machine: after every entry apply the verdict and cancel when it says so -/
def run (v : Entry → Bool) : Nat → List Frame → List Entry
  | 0, _ => []
  | k + 1, s =>
    match step s with
    | .done => []
    | .pop s' => run v k s'
    | .yield e d s' => e :: run v k (if v e then cancel d s' else s')

def specStack (v : Entry → Bool) : List Frame → List Entry
  | [] => []
  | f :: fs => visitList v f.path f.next f.rest ++ specStack v fs

theorem run_refines (v : Entry → Bool) :
    ∀ (k : Nat) (s : List Frame), stackSize s ≤ k → run v k s = specStack v s := by
  intro k
  induction k with
  | zero =>
    intro s hk
    cases s with
    | nil => rfl
    | cons f fs => simp [stackSize, Frame.size] at hk
  | succ k ih =>
    intro s hk
    cases s with
    | nil => simp [run, step, specStack]
    | cons f fs =>
      cases hr : f.rest with
      | nil =>
        have hsz : stackSize fs ≤ k := by
          simp [stackSize, Frame.size, hr, sizeList] at hk; omega
        simp [run, step, hr, specStack, visitList, ih fs hsz]
      | cons n ns =>
        cases n with
        | file =>
          have hsz : stackSize ({ f with next := f.next + 1, rest := ns } :: fs) ≤ k := by
            simp [stackSize, Frame.size, hr, sizeList, Node.size] at hk ⊢; omega
          simp [run, step, hr, specStack, visitList, visit, cancel, ih _ hsz]
        | dir cs =>
          by_cases hv : v ⟨f.path ++ [f.next], true⟩ = true
          · have hsz : stackSize ({ f with next := f.next + 1, rest := ns } :: fs) ≤ k := by
              simp [stackSize, Frame.size, hr, sizeList, Node.size] at hk ⊢; omega
            simp [run, step, hr, specStack, visitList, visit, cancel, hv, ih _ hsz]
          · have hsz : stackSize (⟨f.path ++ [f.next], 0, cs⟩ :: { f with next := f.next + 1, rest := ns } :: fs) ≤ k := by
              simp [stackSize, Frame.size, hr, sizeList, Node.size] at hk ⊢; omega
            simp [run, step, hr, specStack, visitList, visit, cancel, hv, ih _ hsz]

/-- the whole walk from a root directory's children -/
theorem walk_refines (v : Entry → Bool) (cs : List Node) :
    run v (stackSize [⟨[], 0, cs⟩]) [⟨[], 0, cs⟩] = visitList v [] 0 cs := by
  simpa [specStack] using run_refines v _ [⟨[], 0, cs⟩] (Nat.le_refl _)

/-- the pinned defect in miniature: cancelling twice pops the parent frame -/
example :
    let s := [⟨[0], 0, [Node.file]⟩, ⟨[], 1, [Node.file]⟩]
    (cancel true (cancel true s)).length = 0 := by decide

end Wax.Fs

namespace Wax.Fs
open Wax

/-- the decision a stack of combinators (innermost first) takes about an entry: cancel the walk iff
    the entry ends up as tree residue -/
def pipelineCancels (fs : List (Entry → Verdict)) (e : Entry) : Bool :=
  (feed applyVerdict .filtrate (fs.map (fun f => f e))).1 == .tree

/-- C13 / C16 combined: under any stack of `not` / `filter_entry` combinators the entries that are
    fed downstream are exactly those of the structural traversal that skips the children of every
    directory the stack discarded as a tree; the walk is cancelled exactly once for each of them -/
theorem pipeline_refines (fs : List (Entry → Verdict)) (cs : List Node) :
    run (pipelineCancels fs) (stackSize [⟨[], 0, cs⟩]) [⟨[], 0, cs⟩] = visitList (pipelineCancels fs) [] 0 cs :=
  walk_refines _ cs

theorem pipeline_cancel_count (fs : List (Entry → Verdict)) (e : Entry) :
    (feed applyVerdict .filtrate (fs.map (fun f => f e))).2 = (if pipelineCancels fs e then 1 else 0) := by
  have h1 := cancel_at_most_once .filtrate (fs.map (fun f => f e))
  have h2 := cancel_iff_becomes_tree .filtrate (fs.map (fun f => f e)) (by decide)
  unfold pipelineCancels
  by_cases h : (feed applyVerdict .filtrate (fs.map (fun f => f e))).1 = .tree
  · simp [h, h2.mpr h]
  · have : (feed applyVerdict .filtrate (fs.map (fun f => f e))).2 ≠ 1 := fun hh => h (h2.mp hh)
    simp [h]; omega

end Wax.Fs
