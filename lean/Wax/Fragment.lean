import Wax.Spec
/-!
`F01`: the decidable fragment on which the encoder is faithful to the documented language.  It is
*literally* "no tree wildcard goes through a site whose form is wrong for its true context, and no
class fails to compile".  The same predicate classifies failures at run time.
-/
namespace Wax

def supMidLast (sup : Option Pos) : Bool := sup == some .middle || sup == some .last
def supFirstMid (sup : Option Pos) : Bool := sup == some .first || sup == some .middle

/-- is the form `encodeTree` picks the documented language of a tree wildcard in context `c`? -/
def treeOk (sup : Option Pos) (p : Pos) (c : Ctx) (hasRoot : Bool) : Bool :=
  match p with
  | .first =>
    if supMidLast sup then !c.first && !c.last
    else if hasRoot then false
    else c.first && !c.last
  | .middle => !c.first && !c.last
  | .last => if supFirstMid sup then !c.first && !c.last else !c.first && c.last
  | .only => c.first && c.last && (!hasRoot || (sup.isNone || sup == some .first || sup == some .only))

/-- can this repetition iterate more than once? -/
def iterates (hi : Option Nat) : Bool := match hi with | some h => decide (2 ≤ h) | none => true

mutual
  def okTok (sup : Option Pos) (p : Pos) (c : Ctx) : Tok → Bool
    | .lit .. => true
    | .sep _ => true
    | .cls _ _ items => classValid items
    | .one _ => true
    | .zom .. => true
    | .tree _ hasRoot => treeOk sup p c hasRoot
    | .alt _ bs => okBranches (supOr sup p) c bs
    | .rep _ body _ hi =>
      (match body with
        | .cat _ ts => okList (supOr sup p) c ts 0 ts.length
        | other => okTok (supOr sup p) .only c other) &&
      (!iterates hi ||
        ((match body with
          | .cat _ ts => okList (supOr sup p) ⟨c.first, false⟩ ts 0 ts.length
          | other => okTok (supOr sup p) .only ⟨c.first, false⟩ other) &&
         (match body with
          | .cat _ ts => okList (supOr sup p) ⟨false, false⟩ ts 0 ts.length
          | other => okTok (supOr sup p) .only ⟨false, false⟩ other) &&
         (match body with
          | .cat _ ts => okList (supOr sup p) ⟨false, c.last⟩ ts 0 ts.length
          | other => okTok (supOr sup p) .only ⟨false, c.last⟩ other)))
    | .cat _ ts => okList sup c ts 0 ts.length
  def okList (sup : Option Pos) (c : Ctx) : List Tok → Nat → Nat → Bool
    | [], _, _ => true
    | t :: ts, i, n =>
      okTok sup (posOf i n) ⟨c.first && i == 0, c.last && i + 1 == n⟩ t && okList sup c ts (i + 1) n
  def okBranches (sup : Option Pos) (c : Ctx) : List Tok → Bool
    | [] => true
    | b :: bs =>
      (match b with
        | .cat _ ts => okList sup c ts 0 ts.length
        | other => okTok sup .only c other) && okBranches sup c bs
end

/-- the fragment for a whole pattern -/
def F01 (t : Tok) : Bool :=
  match t with
  | .cat _ ts => okList none ⟨true, true⟩ ts 0 ts.length
  | other => okTok none .only ⟨true, true⟩ other

end Wax
