import Wax.Regex
/-!
What `regex-syntax` does to the pattern before it is compiled (the `Hir` smart constructors
`Hir::concat`, `Hir::alternation`, `Hir::repetition`, `Hir::class`), as a normal form `H` and a
rewrite `Re.hirNorm : Re → Re`.

Almost all of it is invisible (flattening, merging of adjacent literals, an alternation of single
characters becoming a class).  One rewrite is not: `Hir::alternation` factors a common prefix out of
its branches (`lift_common_prefix`), `(?:P A|P B)` becomes `P(?:A|B)`, whenever every branch is a
concatenation and the first elements of all branches are *equal as `Hir`s*.  The languages are the
same, but the preference order is not when `P` can match in more than one way: the original tries
every way of `P` with `A` before any way of `P` with `B`; the factored form commits to the first
way of `P` after which `A` *or* `B` succeeds.  Hence `{**/a,**/b}`, `{*a,*b}`, `{<a:0,>x,<a:0,>y}` …
report captures that are not the leftmost-first captures of the pattern wax printed.

Because the rewrite is driven by equality of normal forms, the normal form has to be computed
faithfully: which characters fuse into one literal (case-sensitive characters, the separator
`[/]`, one-element classes, case-insensitive characters without case partners), classes as
canonical interval sets, alternations of characters / classes as classes.  Every leaf keeps the
piece of the original pattern it came from (`impl`), so that the normal form can be turned back into
a `Re` and run by `Re.exec`.

Approximations (none reachable through the driver alphabet except as noted): intervals are over
code points, so a complement that ends at the surrogate gap is keyed differently from the same set
written as an explicit range; capture groups are never equal to each other (they have distinct
indices in the crate as well); `orbit` must list the whole simple-case-folding orbit of a character.
-/
namespace Wax

/-! ### interval sets (`IntervalSet<ClassUnicodeRange>` in canonical form) -/

abbrev Ranges := List (Nat × Nat)

def maxScalar : Nat := 0x10ffff

def insertRange (r : Nat × Nat) : Ranges → Ranges
  | [] => [r]
  | x :: xs => if r.1 ≤ x.1 then r :: x :: xs else x :: insertRange r xs

/-- merge a sorted list: overlapping or adjacent intervals fuse -/
def mergeSorted : Ranges → Ranges
  | [] => []
  | [x] => [x]
  | x :: y :: rest =>
    if y.1 ≤ x.2 + 1 then mergeSorted ((x.1, max x.2 y.2) :: rest) else x :: mergeSorted (y :: rest)
termination_by l => l.length

def Ranges.canon (l : Ranges) : Ranges :=
  mergeSorted ((l.filter (fun r => r.1 ≤ r.2)).foldr insertRange [])

def Ranges.union (a b : Ranges) : Ranges := Ranges.canon (a ++ b)

/-- complement of a canonical set in `[lo, maxScalar]` -/
def complFrom : Nat → Ranges → Ranges
  | lo, [] => if lo ≤ maxScalar then [(lo, maxScalar)] else []
  | lo, x :: xs => if lo < x.1 then (lo, x.1 - 1) :: complFrom (x.2 + 1) xs else complFrom (x.2 + 1) xs

def Ranges.negate (a : Ranges) : Ranges := complFrom 0 (Ranges.canon a)

def Ranges.inter (a b : Ranges) : Ranges := Ranges.negate (Ranges.union (Ranges.negate a) (Ranges.negate b))

def archRange : Arch → Nat × Nat
  | .chr c => (c.toNat, c.toNat)
  | .rng a b => (a.toNat, b.toNat)

def slash : Ranges := [(0x2f, 0x2f)]

/-- the set of a one-character atom as the crate's parser computes it -/
def CharPred.ranges (σ : Sem) : CharPred → Ranges
  | .sepc => slash
  | .nsep => Ranges.negate slash
  | .dot => if σ.dotall then [(0, maxScalar)] else Ranges.negate [(0xa, 0xa)]
  | .cls false items => Ranges.inter (Ranges.canon (items.map archRange)) (Ranges.negate slash)   -- `[items&&[^/]]`
  | .cls true items => Ranges.negate (Ranges.union (items.map archRange) slash)                   -- `[^items/]`

/-! ### the normal form -/

inductive H where
  | empty
  | lit (s : Str)                       -- non-empty run of exact characters
  | set (key : Ranges) (impl : Re)      -- class with at least two members; `impl` matches one character of it
  | fail                                -- the empty class
  | rep (lo : Nat) (hi : Option Nat) (lazy : Bool) (sub : H)
  | cap (sub : H)
  | cat (l : List H)
  | alt (l : List H)
deriving Inhabited

mutual
  /-- `Hir` equality (`impl` is not part of it; two capture groups are never equal) -/
  def H.beq : H → H → Bool
    | .empty, .empty => true
    | .lit a, .lit b => a == b
    | .set a _, .set b _ => a == b
    | .fail, .fail => true
    | .rep lo hi lz s, .rep lo' hi' lz' s' => lo == lo' && hi == hi' && lz == lz' && H.beq s s'
    | .cat l, .cat l' => H.beqList l l'
    | .alt l, .alt l' => H.beqList l l'
    | _, _ => false
  def H.beqList : List H → List H → Bool
    | [], [] => true
    | x :: xs, y :: ys => H.beq x y && H.beqList xs ys
    | _, _ => false
end

mutual
  /-- back to a pattern -/
  def H.toRe : H → Re
    | .empty => .lit [] false
    | .lit s => .lit s false
    | .set _ impl => impl
    | .fail => .never
    | .rep lo hi lz s => if lz && lo == 0 && hi == none then .lazyStar s.toRe else .rep s.toRe lo hi
    | .cap s => .cap s.toRe
    | .cat l => .grp (.cat (H.toReList l))
    | .alt l => .grp (.alt (H.toReList l))
  def H.toReList : List H → List Re
    | [] => []
    | x :: xs => x.toRe :: H.toReList xs
end

mutual
  /-- `maximum_len() == Some(0)` -/
  def H.maxZero : H → Bool
    | .empty => true
    | .rep _ _ _ s | .cap s => s.maxZero
    | .cat l | .alt l => H.maxZeroList l
    | _ => false
  def H.maxZeroList : List H → Bool
    | [] => true
    | x :: xs => x.maxZero && H.maxZeroList xs
end

/-- `Hir::class` -/
def mkClass (key : Ranges) (impl : Re) : H :=
  match key with
  | [] => .fail
  | [(a, b)] => if a == b then .lit [Char.ofNat a] else .set key impl
  | _ => .set key impl

def mergeLits : List H → List H
  | .lit a :: rest =>
    match mergeLits rest with
    | .lit b :: rest' => .lit (a ++ b) :: rest'
    | rest' => .lit a :: rest'
  | x :: rest => x :: mergeLits rest
  | [] => []

/-- `Hir::concat` -/
def mkCat (l : List H) : H :=
  let flat := l.flatMap fun
    | .cat xs => xs
    | .empty => []
    | x => [x]
  match mergeLits flat with
  | [] => .empty
  | [x] => x
  | xs => .cat xs

/-- `Hir::repetition` -/
def mkRep (lo : Nat) (hi : Option Nat) (lz : Bool) (sub : H) : H :=
  let (lo, hi) := if sub.maxZero then (min lo 1, some (match hi with | some n => min n 1 | none => 1)) else (lo, hi)
  if lo == 0 && hi == some 0 then .empty
  else if lo == 1 && hi == some 1 then sub
  else .rep lo hi lz sub

/-- `singleton_chars` -/
def singletons : List H → Option (List Nat)
  | [] => some []
  | .lit [c] :: rest => (singletons rest).map (c.toNat :: ·)
  | _ => none

/-- `class_chars` (`Hir::fail()` is a class too) -/
def classKeys : List H → Option Ranges
  | [] => some []
  | .set k _ :: rest => (classKeys rest).map (k ++ ·)
  | .fail :: rest => classKeys rest
  | _ => none

def catElems : H → Option (List H)
  | .cat xs => some xs
  | _ => none

def allCats : List H → Option (List (List H))
  | [] => some []
  | x :: xs => match catElems x, allCats xs with
    | some a, some b => some (a :: b)
    | _, _ => none

def commonLen : List H → List H → Nat
  | x :: xs, y :: ys => if H.beq x y then commonLen xs ys + 1 else 0
  | _, _ => 0

/-- `Hir::alternation`, with `lift_common_prefix`; every round of lifting shortens the branches, so
    fuel = length of the longest branch + 1 suffices -/
def mkAltF : Nat → List H → H
  | fuel, l =>
    let flat := l.flatMap fun
      | .alt xs => xs
      | x => [x]
    match flat with
    | [] => .fail
    | [x] => x
    | first :: others =>
      let impl := Re.grp (.alt (H.toReList flat))
      match singletons flat with
      | some cs => mkClass (Ranges.canon (cs.map fun c => (c, c))) impl
      | none =>
      match classKeys flat with
      | some k => mkClass (Ranges.canon k) impl
      | none =>
      match fuel with
      | 0 => .alt flat
      | fuel + 1 =>
        match catElems first, allCats others with
        | some p, some rest =>
          let len := rest.foldl (fun n ys => min n (commonLen p ys)) p.length
          if len == 0 then .alt flat
          else
            let suffixes := (p :: rest).map fun xs => mkCat (xs.drop len)
            mkCat (p.take len ++ [mkAltF fuel suffixes])
        | _, _ => .alt flat

def branchLen : H → Nat
  | .cat xs => xs.length
  | _ => 1

def mkAlt (l : List H) : H :=
  let flat := l.flatMap fun
    | .alt xs => xs
    | x => [x]
  mkAltF (flat.foldl (fun n x => max n (branchLen x)) 0 + 1) l

/-! ### translation -/

mutual
  /-- `orbit c`: all characters related to `c` by simple case folding (including `c`) -/
  def Re.toH (orbit : Char → List Char) (σ : Sem) : Re → H
    | .lit s ci =>
      mkCat (s.map fun c =>
        if ci then mkClass (Ranges.canon ((c :: orbit c).map fun d => (d.toNat, d.toNat))) (.lit [c] true)
        else .lit [c])
    | .chr p => mkClass (p.ranges σ) (.chr p)
    | .never => .fail
    | .cat l => mkCat (Re.toHList orbit σ l)
    | .alt l => mkAlt (Re.toHList orbit σ l)
    | .star r => mkRep 0 none false (Re.toH orbit σ r)
    | .lazyStar r => mkRep 0 none true (Re.toH orbit σ r)
    | .opt r => mkRep 0 (some 1) false (Re.toH orbit σ r)
    | .rep r lo hi => mkRep lo hi false (Re.toH orbit σ r)
    | .cap r => .cap (Re.toH orbit σ r)
    | .grp r => Re.toH orbit σ r
  def Re.toHList (orbit : Char → List Char) (σ : Sem) : List Re → List H
    | [] => []
    | r :: rs => Re.toH orbit σ r :: Re.toHList orbit σ rs
end

/-- the pattern the crate actually compiles -/
def Re.hirNorm (orbit : Char → List Char) (σ : Sem) (r : Re) : Re := (r.toH orbit σ).toRe

end Wax
