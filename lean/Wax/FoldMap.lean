import Wax.Syntax
import Wax.Natural
/-!
`Token::fold_map` (token/walk.rs:259-372): the explicit-stack loop that rebuilds a token tree with
mapped annotations, together with `BranchKind::decompose` / `BranchFold::fold` (= `compose`) of
token/mod.rs:740-783, 963-974, 1136-1147, 1285-1304.

* `tokens` (walk.rs:354) is a `Vec` used as a stack of pending `(token, depth)`; here the top is the
  head of the list.  A branch's children are pushed with `.rev()` (walk.rs:361), so the *first*
  child is on top and is popped first.
* `path.branches` (walk.rs:267) is the stack of open branches; here the top is the head.  A finished
  token is appended at the *back* of the top frame's `tokens` (`Vec::push`, walk.rs:337).
  (`Token::fold` does both the other way round: children pushed forward, terms `push_front`ed.)
* a frame is folded with `BranchFold::fold` (walk.rs:128-138): alternation / concatenation rebuild
  from the whole vector; a repetition takes the *first* token (`Err(())` when there is none, and
  the token is then silently dropped by `fold_n`, walk.rs:316) and turns the `NaturalRange` that
  `decompose` made of its bounds back into `(usize, Option<usize>)`.
* panics are `Except.error`: `upper_from_lower_extent` (natural.rs:727-731, through
  `NRange.upperB`), and the final `expect` (walk.rs:371).  Running out of the model's fuel is an
  error as well (it cannot happen, see `Wax/Proofs/FoldMap.lean`).
-/
namespace Wax.FoldMap

/-- `LeafKind` (token/mod.rs) -/
inductive Leaf where
  | lit (text : Str) (ci : Bool)
  | sep
  | cls (neg : Bool) (items : List Arch)
  | one
  | zom (lazy : Bool)
  | tree (hasRoot : Bool)

/-- `Token<'t, A>`: a topology and an annotation of any type -/
inductive ATok (A : Type) where
  | leaf (a : A) (l : Leaf)
  | alt (a : A) (bs : List (ATok A))
  | cat (a : A) (ts : List (ATok A))
  | rep (a : A) (body : ATok A) (lo : Nat) (hi : Option Nat)

instance {A : Type} [Inhabited A] : Inhabited (ATok A) := ⟨.leaf default .sep⟩

/-! ### the parser's trees (`Tok`, annotation = `Span`) as `ATok Span` and back -/

mutual
  def ofTok : Tok → ATok Span
    | .lit sp t ci => .leaf sp (.lit t ci)
    | .sep sp => .leaf sp .sep
    | .cls sp neg items => .leaf sp (.cls neg items)
    | .one sp => .leaf sp .one
    | .zom sp l => .leaf sp (.zom l)
    | .tree sp r => .leaf sp (.tree r)
    | .alt sp bs => .alt sp (ofToks bs)
    | .cat sp ts => .cat sp (ofToks ts)
    | .rep sp b lo hi => .rep sp (ofTok b) lo hi
  def ofToks : List Tok → List (ATok Span)
    | [] => []
    | t :: ts => ofTok t :: ofToks ts
end

mutual
  def toTok : ATok Span → Tok
    | .leaf sp (.lit t ci) => .lit sp t ci
    | .leaf sp .sep => .sep sp
    | .leaf sp (.cls neg items) => .cls sp neg items
    | .leaf sp .one => .one sp
    | .leaf sp (.zom l) => .zom sp l
    | .leaf sp (.tree r) => .tree sp r
    | .alt sp bs => .alt sp (toToks bs)
    | .cat sp ts => .cat sp (toToks ts)
    | .rep sp b lo hi => .rep sp (toTok b) lo hi
  def toToks : List (ATok Span) → List Tok
    | [] => []
    | t :: ts => toTok t :: toToks ts
end

/-! ### `decompose` / `compose` -/

/-- `BranchFold` (walk.rs:121-125) -/
inductive BF where
  | alt
  | cat
  | rep (r : NRange)

/-- `Repetition::decompose` on the bounds: `self.variance()` = `bound_specification().into()`
(mod.rs:1276-1282, 1300-1303; natural.rs:355-362) -/
def decomposeBounds (lo : Nat) (hi : Option Nat) : NRange := NRange.fromClosedOpen lo hi

/-- `Repetition::compose` on the bounds (mod.rs:1295-1296):
`lower: variance.lower().into_usize(), upper: variance.upper().into_usize()`
(natural.rs:314-326, 568-623).  `upper()` of a closed range adds lower and extent with `expect`. -/
def composeBounds (r : NRange) : P (Nat × Option Nat) := do
  let lo := r.lowerB.lowerUsize
  let u ← r.upperB
  pure (lo, u.upperUsize)

/-- `BranchFold::fold` followed by `Token::new(branch, f(annotation))` (walk.rs:98-108, 128-138):
`none` is the `Err(())` of `Repetition::compose` on an empty vector -/
def BF.fold {B : Type} (bf : BF) (b : B) (toks : List (ATok B)) : P (Option (ATok B)) :=
  match bf with
  | .alt => pure (some (.alt b toks))
  | .cat => pure (some (.cat b toks))
  | .rep r =>
    match toks with
    | [] => pure none
    | t :: _ => do
      let p ← composeBounds r
      pure (some (.rep b t p.1 p.2))

/-! ### the machine -/

/-- `TokenBranch` (walk.rs:323-330) -/
structure Frame (A B : Type) where
  ann : A
  bf : BF
  toks : List (ATok B)

variable {A B : Type}

/-- `TokenBranch::fold` (walk.rs:340-347) -/
def frameFold (f : A → B) (fr : Frame A B) : P (Option (ATok B)) :=
  fr.bf.fold (f fr.ann) fr.toks

/-- `branches.last_mut().unwrap().push(token)`: at the back of the top frame -/
def pushTok (t : ATok B) : List (Frame A B) → List (Frame A B)
  | fr :: r => { fr with toks := fr.toks ++ [t] } :: r
  | [] => []

def pushOpt (o : Option (ATok B)) (bs : List (Frame A B)) : List (Frame A B) :=
  match o with
  | some t => pushTok t bs
  | none => bs

/-- `fold_n` (walk.rs:314-320): `min(n, len - 1)` times pop, fold, push onto the new top -/
def foldN (f : A → B) : Nat → List (Frame A B) → P (List (Frame A B))
  | n + 1, fr :: p :: r => do
    let o ← frameFold f fr
    foldN f n (pushOpt o (p :: r))
  | _, bs => pure bs

/-- `TokenPath::pop(depth)` (walk.rs:286-290) -/
def pop (f : A → B) (d : Nat) (bs : List (Frame A B)) : P (List (Frame A B)) :=
  if d ≤ bs.length then foldN f (bs.length - d) bs else pure bs

/-- `TokenPath::fold` and the final `expect` (walk.rs:292-297, 371); `usize::MAX` saturates at
`len - 1` just as `len` does -/
def finish (f : A → B) (bs : List (Frame A B)) : P (ATok B) := do
  match ← foldN f bs.length bs with
  | fr :: _ =>
    match ← frameFold f fr with
    | some t => pure t
    | none => throw "no tokens in non-empty tree path"
  | [] => throw "no tokens in non-empty tree path"

/-- the loop (walk.rs:355-370) -/
def run (f : A → B) : Nat → List (ATok A × Nat) → List (Frame A B) → P (ATok B)
  | 0, _, _ => throw "fuel"
  | _ + 1, [], bs => finish f bs
  | n + 1, (t, d) :: toks, bs => do
    let bs1 ← pop f d bs
    match t with
    | .leaf a l =>
      match bs1 with
      | [] => pure (.leaf (f a) l)
      | fr :: r => run f n toks ({ fr with toks := fr.toks ++ [.leaf (f a) l] } :: r)
    | .alt a cs => run f n ((cs.map fun c => (c, d + 1)) ++ toks) (⟨a, .alt, []⟩ :: bs1)
    | .cat a cs => run f n ((cs.map fun c => (c, d + 1)) ++ toks) (⟨a, .cat, []⟩ :: bs1)
    | .rep a b lo hi => run f n ((b, d + 1) :: toks) (⟨a, .rep (decomposeBounds lo hi), []⟩ :: bs1)

mutual
  def nodes : ATok A → Nat
    | .leaf _ _ => 1
    | .alt _ cs => 1 + nodesList cs
    | .cat _ cs => 1 + nodesList cs
    | .rep _ b _ _ => 1 + nodes b
  def nodesList : List (ATok A) → Nat
    | [] => 0
    | c :: cs => nodes c + nodesList cs
end

/-- **`Token::fold_map(f)`** -/
def foldMap (f : A → B) (t : ATok A) : P (ATok B) := run f (nodes t + 1) [(t, 0)] []

/-! ### dump (the harness's format, annotation printed by `ann`) -/

def Leaf.dump (s : String) : Leaf → String
  | .lit t ci => s!"(lit{s} {hexStr t} {if ci then 1 else 0})"
  | .sep => s!"(sep{s})"
  | .cls neg items =>
    let its := items.map fun
      | .chr c => s!" (c {hexNat c.toNat})"
      | .rng a b => s!" (r {hexNat a.toNat} {hexNat b.toNat})"
    s!"(cls{s} {if neg then 1 else 0}{String.join its})"
  | .one => s!"(one{s})"
  | .zom l => s!"(zom{s} {if l then "lazy" else "eager"})"
  | .tree r => s!"(tree{s} {if r then 1 else 0})"

partial def ATok.dump (ann : A → String) : ATok A → String
  | .leaf a l => l.dump (ann a)
  | .alt a bs => s!"(alt{ann a}{String.join (bs.map (fun b => " " ++ b.dump ann))})"
  | .cat a ts => s!"(cat{ann a}{String.join (ts.map (fun b => " " ++ b.dump ann))})"
  | .rep a b lo hi =>
    let h := match hi with | none => "inf" | some n => toString n
    s!"(rep{ann a} {lo} {h} {b.dump ann})"

end Wax.FoldMap
