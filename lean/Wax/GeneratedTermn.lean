import Wax.Generated
/-! GENERATED from the Rust sources by tools/extract.py; do not edit. -/
namespace Wax.Generated

inductive T where | open_ | first | last | closed | coal deriving DecidableEq, Repr
inductive K where | left | right | neither deriving DecidableEq, Repr
def terminationTable : List (T × T × K × T) := [
  (.open_, .open_, .neither, .open_),
  (.open_, .first, .neither, .open_),
  (.open_, .last, .neither, .last),
  (.open_, .closed, .neither, .last),
  (.open_, .coal, .left, .last),
  (.first, .open_, .neither, .first),
  (.first, .first, .neither, .first),
  (.first, .last, .neither, .closed),
  (.first, .closed, .neither, .closed),
  (.first, .coal, .left, .closed),
  (.last, .open_, .neither, .open_),
  (.last, .first, .neither, .open_),
  (.last, .last, .neither, .last),
  (.last, .closed, .neither, .last),
  (.last, .coal, .left, .last),
  (.closed, .open_, .neither, .first),
  (.closed, .first, .neither, .first),
  (.closed, .last, .neither, .closed),
  (.closed, .closed, .neither, .closed),
  (.closed, .coal, .left, .closed),
  (.coal, .open_, .right, .first),
  (.coal, .first, .right, .first),
  (.coal, .last, .right, .closed),
  (.coal, .closed, .right, .closed),
  (.coal, .coal, .neither, .coal)]
theorem table_total : terminationTable.length = 25 := by decide

end Wax.Generated
