import Wax.Filter
import Wax.Basic
/-!
The walkdir stack machine with named entries and error items, driven by a verdict function, and
the structural traversal it refines (C13, C20); on top of the structural traversal, pruning by a
descendant-closed predicate is the same as filtering each entry (C03).
-/
set_option linter.unusedSimpArgs false

namespace Wax.WalkTree
open Wax

inductive Node where
  | file (name : Str)
  | dir (name : Str) (children : List Node)
  /-- reading this child fails (dangling or re-entrant link under `ReadTarget`): one error item
      naming the child -/
  | errChild (name : Str)
  /-- reading the directory itself failed: one error item naming the directory (the single child
      of an unreadable directory) -/
  | errHere

structure Entry where
  path : List Str
  isDir : Bool
deriving DecidableEq, Repr

inductive Item where
  | ok (e : Entry)
  | err (path : List Str)
deriving DecidableEq, Repr

mutual
  /-- structural specification: the children of a directory whose verdict is "tree" are skipped;
      error items are never subject to a verdict -/
  def visit (v : Entry → Bool) (path : List Str) : Node → List Item
    | .file n => [.ok ⟨path ++ [n], false⟩]
    | .dir n cs =>
      .ok ⟨path ++ [n], true⟩ :: (if v ⟨path ++ [n], true⟩ then [] else visitList v (path ++ [n]) cs)
    | .errChild n => [.err (path ++ [n])]
    | .errHere => [.err path]
  def visitList (v : Entry → Bool) (path : List Str) : List Node → List Item
    | [] => []
    | n :: ns => visit v path n ++ visitList v path ns
end

structure Frame where
  path : List Str
  rest : List Node

mutual
  def Node.size : Node → Nat
    | .file _ => 1
    | .dir _ cs => 2 + sizeList cs
    | .errChild _ => 1
    | .errHere => 1
  def sizeList : List Node → Nat
    | [] => 0
    | n :: ns => n.size + sizeList ns
end

def Frame.size (f : Frame) : Nat := 1 + sizeList f.rest
def stackSize : List Frame → Nat
  | [] => 0
  | f :: fs => f.size + stackSize fs

inductive Step where
  | done : Step
  | pop : List Frame → Step
  /-- an item, whether `is_dir` is set afterwards, the new stack -/
  | yield : Item → Bool → List Frame → Step

/-- one iteration of walkdir's loop -/
def step : List Frame → Step
  | [] => .done
  | f :: fs =>
    match f.rest with
    | [] => .pop fs
    | n :: ns =>
      let f' : Frame := { f with rest := ns }
      match n with
      | .file nm => .yield (.ok ⟨f.path ++ [nm], false⟩) false (f' :: fs)
      | .dir nm cs => .yield (.ok ⟨f.path ++ [nm], true⟩) true (⟨f.path ++ [nm], cs⟩ :: f' :: fs)
      | .errChild nm => .yield (.err (f.path ++ [nm])) false (f' :: fs)
      | .errHere => .yield (.err f.path) false (f' :: fs)

/-- `cancel_walk_tree`: `skip_current_dir` guarded by `is_dir` -/
def cancel (lastIsDir : Bool) (s : List Frame) : List Frame := if lastIsDir then s.tail else s

/-- drive the machine: entries get a verdict (and a cancellation when it says so); error items pass -/
def run (v : Entry → Bool) : Nat → List Frame → List Item
  | 0, _ => []
  | k + 1, s =>
    match step s with
    | .done => []
    | .pop s' => run v k s'
    | .yield (.ok e) d s' => .ok e :: run v k (if v e then cancel d s' else s')
    | .yield (.err p) _ s' => .err p :: run v k s'

def specStack (v : Entry → Bool) : List Frame → List Item
  | [] => []
  | f :: fs => visitList v f.path f.rest ++ specStack v fs

theorem run_refines (v : Entry → Bool) :
    ∀ (k : Nat) (s : List Frame), stackSize s ≤ k → run v k s = specStack v s := by
  intro k
  induction k with
  | zero =>
    intro s hk
    cases s with
    | nil => rfl
    | cons f fs => simp [stackSize, Frame.size] at hk
  | succ k ih =>
    intro s hk
    cases s with
    | nil => simp [run, step, specStack]
    | cons f fs =>
      cases hr : f.rest with
      | nil =>
        have hsz : stackSize fs ≤ k := by
          simp [stackSize, Frame.size, hr, sizeList] at hk; omega
        simp [run, step, hr, specStack, visitList, ih fs hsz]
      | cons n ns =>
        cases n with
        | file nm =>
          have hsz : stackSize ({ f with rest := ns } :: fs) ≤ k := by
            simp [stackSize, Frame.size, hr, sizeList, Node.size] at hk ⊢; omega
          by_cases hv : v ⟨f.path ++ [nm], false⟩ = true <;>
            simp [run, step, hr, specStack, visitList, visit, cancel, hv, ih _ hsz]
        | errChild nm =>
          have hsz : stackSize ({ f with rest := ns } :: fs) ≤ k := by
            simp [stackSize, Frame.size, hr, sizeList, Node.size] at hk ⊢; omega
          simp [run, step, hr, specStack, visitList, visit, ih _ hsz]
        | errHere =>
          have hsz : stackSize ({ f with rest := ns } :: fs) ≤ k := by
            simp [stackSize, Frame.size, hr, sizeList, Node.size] at hk ⊢; omega
          simp [run, step, hr, specStack, visitList, visit, ih _ hsz]
        | dir nm cs =>
          by_cases hv : v ⟨f.path ++ [nm], true⟩ = true
          · have hsz : stackSize ({ f with rest := ns } :: fs) ≤ k := by
              simp [stackSize, Frame.size, hr, sizeList, Node.size] at hk ⊢; omega
            simp [run, step, hr, specStack, visitList, visit, cancel, hv, ih _ hsz]
          · have hsz : stackSize (⟨f.path ++ [nm], cs⟩ :: { f with rest := ns } :: fs) ≤ k := by
              simp [stackSize, Frame.size, hr, sizeList, Node.size] at hk ⊢; omega
            simp [run, step, hr, specStack, visitList, visit, cancel, hv, ih _ hsz]

/-- **C13 / C20**: the machine, cancelled exactly when the verdict says "tree", yields the items of
    the structural traversal: every entry not beneath a discarded directory once, in order; every
    error item not beneath a discarded directory once, in place, never subject to a verdict and
    never cancelling anything; discarding a non-directory skips nothing -/
theorem walk_refines (v : Entry → Bool) (root : List Str) (cs : List Node) :
    run v (stackSize [⟨root, cs⟩]) [⟨root, cs⟩] = visitList v root cs := by
  simpa [specStack] using run_refines v _ [⟨root, cs⟩] (Nat.le_refl _)

/-! ### C03: pruning by a descendant-closed predicate is per-entry filtering -/

/-- the relative candidate path of an entry: its names joined by separators -/
def relOf : List Str → Str
  | [] => []
  | [n] => n
  | n :: ns => n ++ '/' :: relOf ns

/-- the entries a consumer of `walk.not(P)` receives: Ok entries whose relative path `P` rejects -/
def okKept (P : Str → Bool) : List Item → List Entry
  | [] => []
  | .ok e :: rest => if P (relOf e.path) then okKept P rest else e :: okKept P rest
  | .err _ :: rest => okKept P rest

theorem okKept_append (P : Str → Bool) (a b : List Item) : okKept P (a ++ b) = okKept P a ++ okKept P b := by
  induction a with
  | nil => rfl
  | cons x xs ih =>
    cases x with
    | ok e => by_cases h : P (relOf e.path) = true <;> simp [okKept, h, ih]
    | err p => simp [okKept, ih]

def never : Entry → Bool := fun _ => false

mutual
  /-- beneath a path all of whose extensions the negation matches, nothing survives the filter -/
  theorem all_dropped (P : Str → Bool) : ∀ (n : Node) (p : List Str),
      (∀ q, P (relOf (p ++ q)) = true) → okKept P (visit never p n) = []
    | .file nm, p, h => by simp [visit, okKept, h [nm]]
    | .errChild nm, p, _ => by simp [visit, okKept]
    | .errHere, p, _ => by simp [visit, okKept]
    | .dir nm cs, p, h => by
      simp only [visit, never, Bool.false_eq_true, ↓reduceIte, okKept, h [nm]]
      exact all_droppedL P cs (p ++ [nm]) (fun q => by simpa using h ([nm] ++ q))
  theorem all_droppedL (P : Str → Bool) : ∀ (ns : List Node) (p : List Str),
      (∀ q, P (relOf (p ++ q)) = true) → okKept P (visitList never p ns) = []
    | [], _, _ => rfl
    | n :: ns, p, h => by
      simp only [visitList, okKept_append, all_dropped P n p h, all_droppedL P ns p h, List.append_nil]
end

mutual
  /-- **C03**: discarding as a *tree* every directory that matches a predicate `E` which implies the
      negation `P` and is closed under extending the path is the same as dropping each entry that
      `P` matches — nothing that would have survived is lost with a pruned directory -/
  theorem not_exact (P E : Str → Bool) (hEP : ∀ w, E w = true → P w = true)
      (hcl : ∀ p q, E (relOf p) = true → E (relOf (p ++ q)) = true) : ∀ (n : Node) (p : List Str),
      okKept P (visit (fun e => E (relOf e.path)) p n) = okKept P (visit never p n)
    | .file nm, p => by simp [visit]
    | .errChild nm, p => by simp [visit]
    | .errHere, p => by simp [visit]
    | .dir nm cs, p => by
      by_cases hE : E (relOf (p ++ [nm])) = true
      · have hP : P (relOf (p ++ [nm])) = true := hEP _ hE
        have hall : ∀ q, P (relOf ((p ++ [nm]) ++ q)) = true := fun q => hEP _ (hcl _ q hE)
        simp [visit, never, hE, okKept, hP, all_droppedL P cs (p ++ [nm]) hall]
      · simp only [visit, never, hE, Bool.false_eq_true, ↓reduceIte]
        by_cases hP : P (relOf (p ++ [nm])) = true
        · simp only [okKept, hP, ↓reduceIte]
          exact not_exactL P E hEP hcl cs (p ++ [nm])
        · simp only [okKept, hP, Bool.false_eq_true, ↓reduceIte]
          rw [not_exactL P E hEP hcl cs (p ++ [nm])]
  theorem not_exactL (P E : Str → Bool) (hEP : ∀ w, E w = true → P w = true)
      (hcl : ∀ p q, E (relOf p) = true → E (relOf (p ++ q)) = true) : ∀ (ns : List Node) (p : List Str),
      okKept P (visitList (fun e => E (relOf e.path)) p ns) = okKept P (visitList never p ns)
    | [], _ => rfl
    | n :: ns, p => by
      simp only [visitList, okKept_append, not_exact P E hEP hcl n p, not_exactL P E hEP hcl ns p]
end

/-- the string form of the closure hypothesis: extending a non-empty path by more names appends a
    separator and the rest (so closure under `w ++ "/" ++ x` suffices there); for the *empty* path
    — the walk root — the extension does **not** begin with a separator, which is why a pattern
    that matches `""` needs more than `endsInTree_descClosed` gives -/
theorem relOf_append {p q : List Str} (hp : p ≠ []) (hq : q ≠ []) :
    relOf (p ++ q) = relOf p ++ '/' :: relOf q := by
  induction p with
  | nil => exact absurd rfl hp
  | cons a as ih =>
    cases as with
    | nil =>
      cases q with
      | nil => exact absurd rfl hq
      | cons b bs => simp [relOf]
    | cons a2 as2 =>
      have := ih (by simp)
      simp only [List.cons_append] at this ⊢
      simp [relOf, this]

end Wax.WalkTree
