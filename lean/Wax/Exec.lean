import Wax.Regex
/-!
Leftmost-first (Perl-like) capture semantics for `Re`, as a total continuation-passing backtracker.

What is modelled.  The `regex` crate compiles the pattern to a Thompson program
(regex-automata `nfa/thompson/compiler.rs`) and all of its capture engines (PikeVM, bounded
backtracker, one-pass) report the *first path in preference order that does not enter the same
program state twice at the same haystack position* (the sparse set of the PikeVM and the visited
set of the backtracker prune exactly the other paths).  On patterns whose loops have bodies that
cannot match the empty string this is plain Perl backtracking.  Where a loop body can match the
empty string it is not ("refuse empty iterations" is wrong in both directions), so the search below
carries the set `Vis` of branching states entered since the last consumed character and mirrors the
compiler's state layout:

* alternation (two or more branches): one union state, branches in order;
* `x?`: a union, `x` first, then skip;
* `x*` with `minimum_len(x) > 0`: one union `U` that is both the entry and the exit of the loop
  (`U: x → U | leave`); otherwise `(x+)?`: a union `Q: x+ | leave`, and `x+` is `x; P: x | leave`
  (`c_at_least`).  `x*?` swaps the two preferences everywhere;
* `x{lo,}` (`lo ≥ 1`) is `lo - 1` separate copies of `x` followed by a copy under `+`;
* `x{lo,hi}` is `lo` copies followed by `hi - lo` nested optional copies, one union each
  (`c_bounded`); every copy has its own states;
* capture groups are numbered by their opening parenthesis; a group keeps the span of its last
  completed round.

Only union states are recorded: a revisited state with a single successor just forwards to the
state that followed it the first time, so the path dies at the next union either way.

Totality: the functions on `Re` are structurally recursive; the only unbounded loops are `loopU`
and `plusLoop`, which are driven by a fuel argument.  They are always started with fuel = length of
the rest of the haystack, and a further round is only started when the previous one consumed at
least one character, so `rest.length ≤ fuel` is invariant and the fuel never runs out before the
haystack does (with fuel `0` the rest is empty, no round can consume anything).  Not starting a
round after an empty one loses nothing: re-entering the body at the same position retraces the
empty round up to its first union state (or up to `P`/`U` itself), which is in `Vis`.

`Wax/Proofs/ExecFuel.lean` proves it: any fuel ≥ the length of the rest gives the same result
(`loopU_fuel`, `plusLoop_fuel`, `run_loop_fuel`).  `Wax/Proofs/Exec.lean` proves soundness
(`exec_sound`: a reported match is a `Matches`/`matchB` match, group 0 is the haystack, one entry
per group).

The search is exponential in the worst case (the crate's engines memoise (state, position)).

The pattern the crate compiles is not the pattern wax prints but its `regex-syntax` normal form;
the one rewrite that changes captures (a common prefix of the branches of an alternation is
factored out) is modelled separately, as `Re.hirNorm` in `Wax/Hir.lean`; the driver runs
`Re.exec` on the normal form.  Here `lo > hi` is simply no match (the crate rejects the pattern).
-/
namespace Wax

/-- capture slots of groups `1 ..` (slot `i` is group `i + 1`) -/
abbrev Caps := List (Option Str)

/-- a program state: the path to the node of the pattern it belongs to (innermost first), copies of
    an unrolled repetition and the states of the node itself being numbered like children -/
abbrev Sid := List Nat

/-- union states entered on the current path since the last consumed character -/
abbrev Vis := List Sid

/-- continuation: rest of the haystack, visited states, slots so far -/
abbrev Kont := Str → Vis → Caps → Option Caps

/-- a piece of the program: match at the front of the haystack and continue -/
abbrev Step := Str → Vis → Caps → Kont → Option Caps

/-- first success of two alternatives, in order -/
@[inline] def orElse' (a : Option Caps) (b : Unit → Option Caps) : Option Caps :=
  match a with
  | some c => some c
  | none => b ()

/-- two alternatives in the order of preference of a greedy / lazy union -/
@[inline] def prefer (lazy : Bool) (more leave : Unit → Option Caps) : Option Caps :=
  if lazy then orElse' (leave ()) more else orElse' (more ()) leave

/-- pass through a union state: dead if it was entered before at this position -/
@[inline] def enter (s : Sid) (v : Vis) (f : Vis → Option Caps) : Option Caps :=
  if v.contains s then none else f (s :: v)

/-- strip the literal `s` off the front of `w` -/
def litStrip (σ : Sem) (ci : Bool) : Str → Str → Option Str
  | [], w => some w
  | _ :: _, [] => none
  | a :: s, b :: w => if (if ci then σ.ceq a b else a == b) then litStrip σ ci s w else none

/-- `U: x → U | leave` -/
def loopU (body : Step) (u : Sid) (lazy : Bool) : Nat → Step
  | 0, w, v, c, k => enter u v (fun v' => k w v' c)
  | n + 1, w, v, c, k =>
    enter u v (fun v' =>
      prefer lazy
        (fun _ => body w v' c (fun w' v'' c' =>
          if w'.length < w.length then loopU body u lazy n w' v'' c' k else none))
        (fun _ => k w v' c))

/-- `x; P: x | leave` -/
def plusLoop (body : Step) (p : Sid) (lazy : Bool) : Nat → Step
  | 0, w, v, c, k => body w v c (fun w' v' c' => enter p v' (fun v'' => k w' v'' c'))
  | n + 1, w, v, c, k =>
    body w v c (fun w' v' c' =>
      enter p v' (fun v'' =>
        prefer lazy
          (fun _ => if w'.length < w.length then plusLoop body p lazy n w' v'' c' k else none)
          (fun _ => k w' v'' c')))

/-- `Q: x+ | leave` -/
def starQ (body : Step) (q p : Sid) (lazy : Bool) : Step := fun w v c k =>
  enter q v (fun v' =>
    prefer lazy (fun _ => plusLoop body p lazy w.length w v' c k) (fun _ => k w v' c))

/-- `n` copies, numbered from `i` -/
def exactly (body : Nat → Step) : Nat → Nat → Step
  | 0, _, w, v, c, k => k w v c
  | n + 1, i, w, v, c, k => body i w v c (fun w' v' c' => exactly body n (i + 1) w' v' c' k)

/-- `n` nested optional copies `(?:x(?:x …)?)?`, numbered from `i` -/
def optNest (body : Nat → Step) (un : Nat → Sid) : Nat → Nat → Step
  | 0, _, w, v, c, k => k w v c
  | n + 1, i, w, v, c, k =>
    enter (un i) v (fun v' =>
      orElse' (body i w v' c (fun w' v'' c' => optNest body un n (i + 1) w' v'' c' k)) (fun _ => k w v' c))

/-- `x*` / `x*?` -/
def starLoop (nonNull : Bool) (body : Nat → Step) (un : Nat → Sid) (lazy : Bool) : Step := fun w v c k =>
  if nonNull then loopU (body 0) (un 0) lazy w.length w v c k
  else starQ (body 0) (un 0) (un 1) lazy w v c k

/-- `x{lo,hi}` / `x{lo,}` (greedy) -/
def repLoop (nonNull : Bool) (body : Nat → Step) (un : Nat → Sid) (lo : Nat) (hi : Option Nat) : Step :=
  fun w v c k =>
  match hi with
  | some h =>
    if lo ≤ h then exactly body lo 0 w v c (fun w' v' c' => optNest body un (h - lo) lo w' v' c' k) else none
  | none =>
    match lo with
    | 0 => starLoop nonNull body un false w v c k
    | m + 1 => exactly body m 0 w v c (fun w' v' c' => plusLoop (body m) (un m) false w'.length w' v' c' k)

/-! ### `minimum_len` of the translated pattern (regex-syntax `Properties`), up to being zero -/

/-- the class is empty (`Hir::fail`, whose `minimum_len` is `None`).  The members of a class are a
    union of intervals minus `/`; if the class or its complement has an element at all, the least
    one is an end point, the successor of an end point, or the least scalar value -/
def CharPred.isVoid (p : CharPred) : Bool :=
  match p with
  | .cls _ items =>
    let next (c : Char) : List Char := [c, Char.ofNat (c.toNat + 1), Char.ofNat 0xe000]
    let pts : List Char := Char.ofNat 0 :: '0' :: items.flatMap fun
      | .chr c => next c
      | .rng a b => a :: next b
    !(pts.any (p.holds ⟨fun _ _ => false, true⟩))
  | _ => false

mutual
  def Re.minLen : Re → Option Nat
    | .lit s _ => some s.length
    | .chr p => if p.isVoid then none else some 1
    | .never => none
    | .cat l => Re.minLenCat l
    | .alt [] => none
    | .alt (r :: rs) => Re.minLenAlt r.minLen rs
    | .star r | .lazyStar r | .opt r => r.minLen.map (fun _ => 0)
    | .rep r lo hi => if lo == 0 && hi == some 0 then some 0 else r.minLen.map (· * lo)
    | .cap r | .grp r => r.minLen
  def Re.minLenCat : List Re → Option Nat
    | [] => some 0
    | r :: rs => match r.minLen, Re.minLenCat rs with
      | some a, some b => some (a + b)
      | _, _ => none
  def Re.minLenAlt : Option Nat → List Re → Option Nat
    | acc, [] => acc
    | acc, r :: rs => match acc, r.minLen with
      | some a, some b => Re.minLenAlt (some (min a b)) rs
      | _, _ => none
end

/-- `expr.properties().minimum_len().map_or(false, |len| len > 0)` -/
def Re.nonNull (r : Re) : Bool :=
  match r.minLen with
  | some n => n > 0
  | none => false

mutual
  /-- number of capture groups -/
  def Re.ncaps : Re → Nat
    | .lit .. | .chr _ | .never => 0
    | .cat l | .alt l => Re.ncapsList l
    | .star r | .lazyStar r | .opt r | .rep r _ _ | .grp r => r.ncaps
    | .cap r => r.ncaps + 1
  def Re.ncapsList : List Re → Nat
    | [] => 0
    | r :: rs => r.ncaps + Re.ncapsList rs
end

mutual
  /-- `r.run σ id n w v c k`: match `r` at the front of `w`; `id` names the node, `n` is the slot of
      the next group that opens -/
  def Re.run (σ : Sem) : Re → Sid → Nat → Step
    | .lit s ci, _, _, w, v, c, k =>
      match litStrip σ ci s w with
      | some w' => k w' (if s.isEmpty then v else []) c
      | none => none
    | .chr p, _, _, w, _, c, k =>
      match w with
      | a :: w' => if p.holds σ a then k w' [] c else none
      | [] => none
    | .never, _, _, _, _, _, _ => none
    | .cat l, id, n, w, v, c, k => Re.runCat σ l id 0 n w v c k
    | .alt l, id, n, w, v, c, k =>
      match l with
      | _ :: _ :: _ => enter (0 :: id) v (fun v' => Re.runAlt σ l id 1 n w v' c k)
      | _ => Re.runAlt σ l id 1 n w v c k
    | .star r, id, n, w, v, c, k =>
      starLoop r.nonNull (fun i => Re.run σ r ((2 * i + 1) :: id) n) (fun i => (2 * i) :: id) false w v c k
    | .lazyStar r, id, n, w, v, c, k =>
      starLoop r.nonNull (fun i => Re.run σ r ((2 * i + 1) :: id) n) (fun i => (2 * i) :: id) true w v c k
    | .opt r, id, n, w, v, c, k =>
      enter (0 :: id) v (fun v' => orElse' (Re.run σ r (1 :: id) n w v' c k) (fun _ => k w v' c))
    | .rep r lo hi, id, n, w, v, c, k =>
      repLoop r.nonNull (fun i => Re.run σ r ((2 * i + 1) :: id) n) (fun i => (2 * i) :: id) lo hi w v c k
    | .cap r, id, n, w, v, c, k =>
      Re.run σ r (0 :: id) (n + 1) w v c
        (fun w' v' c' => k w' v' (c'.set n (some (w.take (w.length - w'.length)))))
    | .grp r, id, n, w, v, c, k => Re.run σ r (0 :: id) n w v c k
  def Re.runCat (σ : Sem) : List Re → Sid → Nat → Nat → Step
    | [], _, _, _, w, v, c, k => k w v c
    | r :: rs, id, j, n, w, v, c, k =>
      Re.run σ r (j :: id) n w v c (fun w' v' c' => Re.runCat σ rs id (j + 1) (n + r.ncaps) w' v' c' k)
  def Re.runAlt (σ : Sem) : List Re → Sid → Nat → Nat → Step
    | [], _, _, _, _, _, _, _ => none
    | r :: rs, id, j, n, w, v, c, k =>
      orElse' (Re.run σ r (j :: id) n w v c k) (fun _ => Re.runAlt σ rs id (j + 1) (n + r.ncaps) w v c k)
end

/-- the final continuation of the anchored pattern `^r$` -/
def atEnd : Kont := fun w _ c => if w.isEmpty then some c else none

/-- captures of the anchored pattern `^r$` on `s`, leftmost-first: `none` = no match; otherwise
    group 0 (the whole haystack) followed by groups `1 .. r.ncaps` (`none` = did not participate) -/
def Re.exec (σ : Sem) (r : Re) (s : Str) : Option (List (Option Str)) :=
  match r.run σ [] 0 s [] (List.replicate r.ncaps none) atEnd with
  | none => none
  | some c => some (some s :: c)

end Wax
