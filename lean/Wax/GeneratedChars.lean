import Wax.Generated
/-! GENERATED from the Rust sources by tools/extract.py; do not edit. -/
namespace Wax.Generated

def literalStopSet : List Char := ['/', '?', '*', '$', ':', '<', '>', '(', ')', '[', ']', '{', '}', ',', '\\']
def literalEscapes : List Char := ['?', '*', '$', ':', '<', '>', '(', ')', '[', ']', '{', '}', ',']
def classStopSet : List Char := ['[', ']', '-', '\\']

-- obligations re-checked against the code as it is now
theorem meta_eq_escapes : metaChars.all (literalEscapes.contains ·) && literalEscapes.all (metaChars.contains ·) = true := by decide
theorem stop_is_meta_plus_sep_bs : literalStopSet.all (fun c => c == '/' || c == '\\' || metaChars.contains c) && metaChars.all (literalStopSet.contains ·) && literalStopSet.contains '/' && literalStopSet.contains '\\' = true := by decide

end Wax.Generated
