import Wax.Walk
/-! Model of `src/walk/behavior.rs`: the depth configuration of a walk and every public way of
constructing it, and of the translation to the bounds handed to the `walkdir` builder in
`WalkTree::with_pivot_and_behavior` (`src/walk/mod.rs`). `usize` is modelled by `Nat`; the only
place where the width matters is the `checked_add` of `bounded_at_depth_variance`. -/
namespace Wax
open Wax.Walk

/-- `DepthBehavior`; `min n` and `minMax n _` hold a `NonZeroUsize` (the constructors below never
    build them with `n = 0`, theorem `wf_of_constructors`) -/
inductive DepthBehavior where
  | unbounded
  | min (n : Nat)
  | max (n : Nat)
  | minMax (min extent : Nat)
deriving Repr, DecidableEq

namespace DepthBehavior

def usizeMax : Nat := 2 ^ 64 - 1

/-- `DepthMin::from_min_or_unbounded` -/
def fromMinOrUnbounded (m : Nat) : DepthBehavior :=
  if m == 0 then .unbounded else .min m

/-- `DepthMinMax::from_depths_or_max`: "the depths need not be ordered" -/
def fromDepthsOrMax (p q : Nat) : DepthBehavior :=
  let lo := if p ≤ q then p else q            -- `crate::minmax`
  let hi := if p ≤ q then q else p
  if lo == 0 then .max hi else .minMax lo (hi - lo)

/-- `DepthBehavior::bounded` -/
def bounded (mn mx : Option Nat) : Option DepthBehavior :=
  match mn, mx with
  | some a, none => if a == 0 then none else some (.min a)
  | none, some b => some (.max b)
  | some a, some b => if a ≤ b then (if a == 0 then none else some (.minMax a (b - a))) else none
  | none, none => none

/-- `DepthBehavior::bounded_at_depth_variance`, `lower` = the invariant depth or the lower bound of
    the variant depth (0 when open) -/
def boundedAtDepthVariance (mn mx : Option Nat) (lower : Nat) : Option DepthBehavior :=
  let tr : Option Nat → Option (Option Nat) := fun d =>
    match d with
    | none => some none
    | some d => if d + lower ≤ usizeMax then some (some (d + lower)) else none
  match tr mn, tr mx with
  | some a, some b => bounded a b
  | _, _ => none

/-- `DepthMinMax::max` (`saturating_add` cannot saturate below `usizeMax` for values built from
    two `usize` depths) -/
def upper : DepthBehavior → Option Nat
  | .unbounded => none
  | .min _ => none
  | .max n => some n
  | .minMax a e => some (a + e)

def lower : DepthBehavior → Nat
  | .min n => n
  | .minMax a _ => a
  | _ => 0

/-- a depth (relative to the root path segment) lies within the configured bounds -/
def admits (b : DepthBehavior) (d : Nat) : Prop :=
  b.lower ≤ d ∧ (match b.upper with | some u => d ≤ u | none => True)

instance (b : DepthBehavior) (d : Nat) : Decidable (b.admits d) := by
  unfold admits; cases b.upper <;> exact inferInstance

/-- `WalkTree::with_pivot_and_behavior`: `min_at_pivot`, `max_at_pivot`, `min_max_at_pivot`
    (saturating subtraction) and the clamping `walkdir` applies when both bounds are set -/
def atPivot (b : DepthBehavior) (pivot : Nat) : Nat × Option Nat :=
  match b with
  | .unbounded => (0, none)
  | .min n => (n - pivot, none)
  | .max n => (0, some (n - pivot))
  | .minMax a e => (a - pivot, clampMax (a - pivot) (some (a + e - pivot)))

/-- the constructor routes of the walk requests of the driver and of the harness -/
inductive Route where
  | bounded | depthsOrMax | minOrUnbounded | atVariance (lower : Nat)

/-- `none`: the constructor refuses (the harness answers `depthnone`) -/
def ofRoute : Route → Option Nat → Option Nat → Option DepthBehavior
  | .bounded, none, none => some .unbounded          -- the harness passes `Unbounded` itself
  | .bounded, a, b => bounded a b
  | .depthsOrMax, some p, some q => some (fromDepthsOrMax p q)
  | .depthsOrMax, _, _ => none
  | .minOrUnbounded, some m, _ => some (fromMinOrUnbounded m)
  | .minOrUnbounded, none, _ => none
  | .atVariance _, none, none => none
  | .atVariance l, a, b => boundedAtDepthVariance a b l

end DepthBehavior
end Wax
