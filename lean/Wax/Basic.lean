/-! Strings, separators, components, canonical paths. -/
namespace Wax

abbrev Str := List Char

def sep : Char := '/'

def isSep (c : Char) : Bool := c == '/'

/-- every character of `w` is a non-separator -/
def SepFree (w : Str) : Prop := ∀ c ∈ w, c ≠ '/'

theorem sepFree_nil : SepFree [] := by intro c h; cases h

theorem sepFree_append {u v : Str} : SepFree (u ++ v) ↔ SepFree u ∧ SepFree v := by
  constructor
  · intro h
    exact ⟨fun c hc => h c (List.mem_append.mpr (Or.inl hc)), fun c hc => h c (List.mem_append.mpr (Or.inr hc))⟩
  · rintro ⟨hu, hv⟩ c hc
    rcases List.mem_append.mp hc with h | h
    · exact hu c h
    · exact hv c h

theorem sepFree_cons {c : Char} {w : Str} : SepFree (c :: w) ↔ c ≠ '/' ∧ SepFree w := by
  constructor
  · intro h
    exact ⟨h c (List.mem_cons_self ..), fun d hd => h d (List.mem_cons_of_mem _ hd)⟩
  · rintro ⟨hc, hw⟩ d hd
    cases hd with
    | head => exact hc
    | tail _ h => exact hw d h

/-- a possibly empty component followed by its separator -/
def CompSep (w : Str) : Prop := ∃ c : Str, SepFree c ∧ w = c ++ ['/']

inductive Star (L : Str → Prop) : Str → Prop
  | nil : Star L []
  | cons {u v} : L u → Star L v → Star L (u ++ v)

theorem Star.append {L : Str → Prop} {u v : Str} (hu : Star L u) (hv : Star L v) : Star L (u ++ v) := by
  induction hu with
  | nil => simpa using hv
  | cons h _ ih => rw [List.append_assoc]; exact Star.cons h ih

theorem star_compSep_aux : ∀ (m c : Str), SepFree c → Star CompSep (c ++ m ++ ['/']) := by
  intro m
  induction m with
  | nil =>
    intro c hc
    have : c ++ [] ++ ['/'] = (c ++ ['/']) ++ [] := by simp
    rw [this]
    exact Star.cons ⟨c, hc, rfl⟩ Star.nil
  | cons x xs ih =>
    intro c hc
    by_cases hx : x = '/'
    · subst hx
      have e : c ++ '/' :: xs ++ ['/'] = (c ++ ['/']) ++ ([] ++ xs ++ ['/']) := by simp
      rw [e]
      exact Star.cons ⟨c, hc, rfl⟩ (ih [] sepFree_nil)
    · have e : c ++ x :: xs ++ ['/'] = (c ++ [x]) ++ xs ++ ['/'] := by simp
      rw [e]
      apply ih
      exact sepFree_append.mpr ⟨hc, sepFree_cons.mpr ⟨hx, sepFree_nil⟩⟩

/-- anything followed by a separator is a run of complete components -/
theorem star_compSep_of_endsSep (m : Str) : Star CompSep (m ++ ['/']) := by
  simpa using star_compSep_aux m [] sepFree_nil

/-- a run of complete components is empty or ends with a separator -/
theorem star_compSep_endsSep {r : Str} (h : Star CompSep r) : r = [] ∨ ∃ m, r = m ++ ['/'] := by
  induction h with
  | nil => exact Or.inl rfl
  | @cons u v hu _ ih =>
    rcases hu with ⟨c, _, rfl⟩
    rcases ih with rfl | ⟨m, rfl⟩
    · exact Or.inr ⟨c, by simp⟩
    · exact Or.inr ⟨c ++ ['/'] ++ m, by simp⟩

/-- `C*` as a predicate: empty, or anything ending in a separator -/
theorem star_compSep_iff (r : Str) : Star CompSep r ↔ r = [] ∨ ∃ m, r = m ++ ['/'] := by
  constructor
  · exact star_compSep_endsSep
  · rintro (rfl | ⟨m, rfl⟩)
    · exact Star.nil
    · exact star_compSep_of_endsSep m

end Wax
