import Wax.WalkTree
import Wax.Path
import Wax.Encode
import Wax.Partition
import Wax.ExhFold
import Wax.Unicode
/-!
Directory walking over a *recorded* tree: `Glob::walk_with_behavior`, `PathExt::walk_with_behavior`,
`FileIterator::not` and `FileIterator::filter_entry` (walk/mod.rs, walk/glob.rs, filter.rs over
walkdir 2.5.0), unix.

* `RNode` is what the harness records; `view` says what walkdir makes of it under each
  `LinkBehavior`; the result is a `WNode` tree, the `WalkTree.Node` of `Wax/WalkTree.lean` with the
  file type kept on leaves and a flag on error children (walkdir reports some errors without a path).
* `step` / `run` are the walkdir stack machine of `WalkTree.lean` extended with `min_depth` /
  `max_depth`; `walkItems` adds the root entry at depth 0.  `Wax/Proofs/WalkMachine.lean` proves
  that the fuel is sufficient, that the machine yields the structural traversal `visitListB`, and
  that with `min = 0`, `max = none` it is `WalkTree.run` on the corresponding tree.
* `decide` is what the stack of combinators does to one entry, by `Wax.applyVerdict`.
-/
namespace Wax.Walk
open Wax Wax.Path

/-! ### the recorded tree and what walkdir sees of it -/

/-- the recorded tree (`rec=` of the harness): kinds `f d u ld lf lt lc lu` -/
inductive RNode where
  | file (name : Str)
  | dir (name : Str) (children : List RNode)
  /-- a directory that cannot be read: walkdir yields it, enters it and finds the error there
      (under either link behaviour: on unix no handle is opened for the directory itself) -/
  | unreadable (name : Str)
  /-- a link whose target cannot be reached -/
  | linkDangling (name : Str)
  | linkFile (name : Str)
  /-- a link to a directory, with the children found through it -/
  | linkDir (name : Str) (children : List RNode)
  /-- a link to a directory that is one of its own ancestors in the traversal -/
  | linkCycle (name : Str)
  /-- a link to a directory that cannot be read: when links are followed, loop detection fails to
      open it and walkdir reports an error without a path instead of the entry -/
  | linkUnreadable (name : Str)
deriving Inhabited

def RNode.name : RNode → Str
  | .file n | .dir n _ | .unreadable n | .linkDangling n | .linkFile n | .linkDir n _
  | .linkCycle n | .linkUnreadable n => n

/-- the file type walkdir reports for an entry that is not a directory -/
inductive LeafKind where | f | l
deriving DecidableEq, Repr, Inhabited

inductive WNode where
  | leaf (name : Str) (kind : LeafKind)
  | dir (name : Str) (children : List WNode)
  /-- handling this child fails: one error item at the child's depth; `anon` = walkdir does not
      attach the path (the error comes from opening a handle for loop detection) -/
  | errChild (name : Str) (anon : Bool)
  /-- reading the directory itself failed: one error item naming the directory -/
  | errHere
deriving Inhabited

mutual
  /-- `follow = false` is `LinkBehavior::ReadFile`, `follow = true` is `ReadTarget` -/
  def view (follow : Bool) : RNode → WNode
    | .file n => .leaf n .f
    | .dir n cs => .dir n (viewList follow cs)
    | .unreadable n => .dir n [.errHere]
    | .linkDangling n => if follow then .errChild n false else .leaf n .l
    | .linkFile n => if follow then .leaf n .f else .leaf n .l
    | .linkDir n cs => if follow then .dir n (viewList follow cs) else .leaf n .l
    | .linkCycle n => if follow then .errChild n false else .leaf n .l
    | .linkUnreadable n => if follow then .errChild n true else .leaf n .l
  def viewList (follow : Bool) : List RNode → List WNode
    | [] => []
    | n :: ns => view follow n :: viewList follow ns
end

/-- what walkdir does with the path the walk starts from -/
inductive RootView where
  /-- the root cannot be read at all: a single error item at depth 0 -/
  | err (anon : Bool)
  | leaf (kind : LeafKind)
  | dir (children : List WNode)
  /-- `ReadFile` and the root is a link to a directory: reported as a link (so that it cannot be
      cancelled) but read nevertheless -/
  | link (children : List WNode)

/-- the root of the walk, given the node its path resolves to and whether the resolution
    followed a final link (the path ends with a separator or a `.`) -/
def rootView (follow followedFinal : Bool) : RNode → Option RootView
  | .file _ => some (.leaf .f)
  | .dir _ cs => some (.dir (viewList follow cs))
  | .unreadable _ => some (.dir [.errHere])
  | .linkDangling _ => some (.err false)
  | .linkFile _ => some (.leaf (if follow then .f else .l))
  | .linkDir _ cs =>
    some (if follow || followedFinal then .dir (viewList follow cs) else .link (viewList follow cs))
  | .linkUnreadable _ =>
    some (if followedFinal then .dir [.errHere] else if follow then .err true else .link [.errHere])
  /- the children behind a re-entrant link are not recorded -/
  | .linkCycle _ => none

/-! ### the walkdir machine with depth bounds -/

inductive Kind where | d | f | l
deriving DecidableEq, Repr, Inhabited

def LeafKind.kind : LeafKind → Kind | .f => .f | .l => .l

/-- an entry: the names below the root of the walk (their number is the depth) and the file type -/
structure Entry where
  names : List Str
  kind : Kind
deriving DecidableEq, Repr, Inhabited

def Entry.isDir (e : Entry) : Bool := e.kind == .d
def Entry.depth (e : Entry) : Nat := e.names.length

inductive Item where
  | ok (e : Entry)
  /-- an error at the depth `names.length`; without its path when `anon` -/
  | err (names : List Str) (anon : Bool)
deriving DecidableEq, Repr, Inhabited

structure Frame where
  path : List Str
  rest : List WNode

mutual
  def WNode.size : WNode → Nat
    | .leaf .. => 1
    | .dir _ cs => 2 + sizeList cs
    | .errChild .. => 1
    | .errHere => 1
  def sizeList : List WNode → Nat
    | [] => 0
    | n :: ns => n.size + sizeList ns
end

def Frame.size (f : Frame) : Nat := 1 + sizeList f.rest
def stackSize : List Frame → Nat
  | [] => 0
  | f :: fs => f.size + stackSize fs

inductive Step where
  | done : Step
  | pop : List Frame → Step
  /-- an entry below `min_depth`: not yielded, but a directory is entered all the same -/
  | skip : List Frame → Step
  /-- an item, whether `is_dir` is set afterwards, the new stack -/
  | yield : Item → Bool → List Frame → Step

def over (depth : Nat) : Option Nat → Bool
  | some m => decide (m < depth)
  | none => false

/-- one iteration of walkdir's loop; the entries of the top frame are at depth `path.length + 1`,
    which is the length of the stack -/
def step (mn : Nat) (mx : Option Nat) : List Frame → Step
  | [] => .done
  | f :: fs =>
    let depth := f.path.length + 1
    if over depth mx then .pop fs else
    match f.rest with
    | [] => .pop fs
    | n :: ns =>
      let f' : Frame := { f with rest := ns }
      match n with
      | .leaf nm k =>
        if depth < mn then .skip (f' :: fs) else .yield (.ok ⟨f.path ++ [nm], k.kind⟩) false (f' :: fs)
      | .dir nm cs =>
        if depth < mn then .skip (⟨f.path ++ [nm], cs⟩ :: f' :: fs)
        else .yield (.ok ⟨f.path ++ [nm], .d⟩) true (⟨f.path ++ [nm], cs⟩ :: f' :: fs)
      | .errChild nm anon => .yield (.err (f.path ++ [nm]) anon) false (f' :: fs)
      | .errHere => .yield (.err f.path false) false (f' :: fs)

/-- `cancel_walk_tree`: `skip_current_dir` guarded by `is_dir` (as `WalkTree.cancel`) -/
def cancel (lastIsDir : Bool) (s : List Frame) : List Frame := if lastIsDir then s.tail else s

/-- drive the machine: entries get a verdict (and a cancellation when it says so); error items pass -/
def run (mn : Nat) (mx : Option Nat) (v : Entry → Bool) : Nat → List Frame → List Item
  | 0, _ => []
  | k + 1, s =>
    match step mn mx s with
    | .done => []
    | .pop s' => run mn mx v k s'
    | .skip s' => run mn mx v k s'
    | .yield (.ok e) d s' => .ok e :: run mn mx v k (if v e then cancel d s' else s')
    | .yield (.err p a) _ s' => .err p a :: run mn mx v k s'

/-- walkdir clamps each bound against the other when it is set (`min_depth` first) -/
def clampMax (mn : Nat) : Option Nat → Option Nat
  | some m => some (if m < mn then mn else m)
  | none => none

/-- the whole walk from the root entry on -/
def walkItems (mn : Nat) (mx : Option Nat) (v : Entry → Bool) : RootView → List Item
  | .err anon => [.err [] anon]
  | .leaf k => if 0 < mn then [] else [.ok ⟨[], k.kind⟩]
  | .dir cs =>
    let s : List Frame := [⟨[], cs⟩]
    if 0 < mn then run mn mx v (stackSize s) s
    else .ok ⟨[], .d⟩ :: run mn mx v (stackSize s) (if v ⟨[], .d⟩ then cancel true s else s)
  | .link cs =>
    let s : List Frame := [⟨[], cs⟩]
    if 0 < mn then run mn mx v (stackSize s) s
    else .ok ⟨[], .l⟩ :: run mn mx v (stackSize s) (if v ⟨[], .l⟩ then cancel false s else s)

/-! ### the structural reading of the machine (proved equal in `Wax/Proofs/WalkMachine.lean`) -/

mutual
  /-- what the walk yields for a node found in the directory at `path` (so at depth
      `path.length + 1`): an entry below `min_depth` is not reported (and so cannot cancel
      anything); the children of a directory are read unless they lie beyond `max_depth` or the
      directory was cancelled; error items are reported whatever the bounds -/
  def visitB (mn : Nat) (mx : Option Nat) (v : Entry → Bool) (path : List Str) : WNode → List Item
    | .leaf n k => if path.length + 1 < mn then [] else [.ok ⟨path ++ [n], k.kind⟩]
    | .dir n cs =>
      if path.length + 1 < mn then
        (if over ((path ++ [n]).length + 1) mx then [] else visitListB mn mx v (path ++ [n]) cs)
      else
        .ok ⟨path ++ [n], .d⟩ ::
          (if v ⟨path ++ [n], .d⟩ then []
           else if over ((path ++ [n]).length + 1) mx then [] else visitListB mn mx v (path ++ [n]) cs)
    | .errChild n a => [.err (path ++ [n]) a]
    | .errHere => [.err path false]
  def visitListB (mn : Nat) (mx : Option Nat) (v : Entry → Bool) (path : List Str) : List WNode → List Item
    | [] => []
    | n :: ns => visitB mn mx v path n ++ visitListB mn mx v path ns
end

/-- what remains to be yielded from a frame: nothing when its entries are beyond `max_depth` -/
def frameSpec (mn : Nat) (mx : Option Nat) (v : Entry → Bool) (f : Frame) : List Item :=
  if over (f.path.length + 1) mx then [] else visitListB mn mx v f.path f.rest

def specStack (mn : Nat) (mx : Option Nat) (v : Entry → Bool) : List Frame → List Item
  | [] => []
  | f :: fs => frameSpec mn mx v f ++ specStack mn mx v fs

/-! ### resolving the path of the root in the recorded tree -/

def RNode.children? : RNode → Option (List RNode)
  | .dir _ cs => some cs
  | .linkDir _ cs => some cs
  | _ => none

/-- the entry can be stat'ed as a directory (a trailing separator is accepted) -/
def RNode.isDirLike : RNode → Bool
  | .dir .. | .unreadable _ | .linkDir .. | .linkUnreadable _ | .linkCycle _ => true
  | _ => false

def findChild (name : Str) : List RNode → Option RNode
  | [] => none
  | n :: ns => if n.name == name then some n else findChild name ns

/-- path resolution as the OS does it, on the pieces of the raw path; the stack holds the
    directories passed, innermost first (`..` is resolved on that stack, which is right as long as
    the directory left was not reached through a link) -/
def resolvePieces : List RNode → List Str → Option (List RNode)
  | stack, [] => some stack
  | stack, p :: ps =>
    match stack with
    | [] => none
    | top :: below =>
      if p.isEmpty then
        if top.isDirLike then resolvePieces stack ps else none
      else if p == ['.'] then
        if top.children?.isSome then resolvePieces stack ps else none
      else if p == ['.', '.'] then
        if top.children?.isSome then
          (match below with
            | [] => resolvePieces stack ps      -- the parent of `/` is `/`
            | _ => resolvePieces below ps)
        else none
      else
        match top.children? with
        | some cs =>
          (match findChild p cs with
            | some c => resolvePieces (c :: stack) ps
            | none => none)
        | none => none

/-- the directories from `/` down to the recorded root, each with its single known child -/
def chainBelow (recorded : List RNode) : List Str → List RNode
  | [] => recorded
  | n :: ns => [.dir n (chainBelow recorded ns)]

/-- `(node, followedFinal)` for an absolute raw path, the recorded root being at `rootPath` -/
def resolve (rootPath : Str) (recorded : List RNode) (p : Str) : Option (RNode × Bool) :=
  if !isAbsolute p then none else
  let slash : RNode := .dir [] (chainBelow recorded (normals (components rootPath)))
  let pieces := (splitSep p).filter (fun s => !s.isEmpty)
  let final := match (splitSep p).getLast? with
    | some s => s.isEmpty || s == ['.'] || s == ['.', '.']
    | none => true
  -- interior empty pieces are harmless; a trailing one demands a directory
  let pieces := if p.getLast? == some '/' then pieces ++ [[]] else pieces
  match resolvePieces [slash] pieces with
  | some (n :: _) => some (n, final)
  | _ => none

/-! ### the glob side: anchor, component programs, the `GlobWalker` closure -/

mutual
  /-- `Token::has_boundary`: a separator or tree wildcard anywhere in the token -/
  def hasBoundaryT : Tok → Bool
    | .sep _ => true
    | .tree .. => true
    | .alt _ bs => hasBoundaryL bs
    | .cat _ ts => hasBoundaryL ts
    | .rep _ b _ _ => hasBoundaryT b
    | _ => false
  def hasBoundaryL : List Tok → Bool
    | [] => false
    | t :: ts => hasBoundaryT t || hasBoundaryL ts
end

/-- `token::components`: runs of tokens between separators; a tree wildcard is a component of its
    own; `cur` is the run being collected -/
def componentsGo : List Tok → Option (List Tok) → List (List Tok)
  | [], none => []
  | [], some c => [c]
  | t :: ts, cur =>
    match t with
    | .sep _ => (match cur with | some c => c :: componentsGo ts none | none => componentsGo ts none)
    | .tree .. =>
      (match cur with | some c => c :: [t] :: componentsGo ts none | none => [t] :: componentsGo ts none)
    | _ => componentsGo ts (some (cur.getD [] ++ [t]))

def globComponents (t : Tok) : List (List Tok) := componentsGo t.concatenation none

/-- `Token::is_empty`: the empty literal, which is what the empty expression parses to -/
def isEmptyGlob : Tok → Bool
  | .lit _ [] false => true
  | _ => false

/-- `Glob::compile(component)`: the tokens of a component encoded as a concatenation of their own -/
def componentProgram (c : List Tok) : Re := .cat (encodeList true none c 0 c.length)

/-- `WalkProgram::compile`: stop at the first component with a boundary; none for the empty glob -/
def walkPrograms (t : Tok) : List Re :=
  if isEmptyGlob t then [] else
  ((globComponents t).takeWhile (fun c => !hasBoundaryL c)).map componentProgram

def programText (r : Re) : String := "(?s)^" ++ r.print ++ "$"

/-- `Glob::anchor`: the root of the walk and the pivot -/
def anchor (κ : Casing) (t : Tok) (base : Str) : Str × Nat :=
  let pre := (invariantTextPrefix κ t).2
  if pre.isEmpty then (base, 0) else joinAndGetDepth base pre

/-- `DepthBehavior::bounded` and `WalkTree::with_pivot_and_behavior`: the bounds handed to walkdir,
    `none` when the bounds are rejected -/
def depthBounds (mn mx : Option Nat) (pivot : Nat) : Option (Nat × Option Nat) :=
  match mn, mx with
  | none, none => some (0, none)
  | some a, none => if a == 0 then none else some (a - pivot, none)
  | none, some b => some (0, some (b - pivot))
  | some a, some b =>
    if a == 0 || b < a then none
    else
      let lo := a - pivot
      some (lo, clampMax lo (some (b - pivot)))

/-- the arms of the `zip_longest().with_position()` loop of `GlobWalker`: candidates against
    component programs; `complete` = the verdict when the complete program decides -/
def zipArms (σ : Sem) (complete : Verdict) : List Str → List Re → Verdict
  | [], [] => complete                                   -- the loop is not entered
  | _ :: _, [] => complete                               -- `Left`
  | [], _ :: _ => .file                                  -- `Right`
  | [c], [p] => if p.matchB σ c then complete else .tree -- `Last | Only`, `Both`
  | c :: cs, p :: ps => if p.matchB σ c then zipArms σ complete cs ps else .tree  -- `First | Middle`

structure GlobProgram where
  complete : Re
  components : List Re
  pivot : Nat

/-- the closure of `GlobWalker::walk_with_behavior` as a verdict on a filtrate, and the candidate -/
def globVerdict (σ : Sem) (g : GlobProgram) (path : Str) (depth : Nat) : Verdict × Str :=
  let rel := (splitAtDepth path (depth + g.pivot)).2
  let skip := depth - 1
  let cands := (normals (components rel)).drop skip
  let complete : Verdict := if g.complete.matchB σ rel then .keep else .file
  (zipArms σ complete cands (g.components.drop skip), rel)

/-! ### negations -/

mutual
  def tokSize : Tok → Nat
    | .alt _ bs => 1 + tokSizeL bs
    | .cat _ ts => 1 + tokSizeL ts
    | .rep _ b _ _ => 1 + tokSize b
    | _ => 1
  def tokSizeL : List Tok → Nat
    | [] => 0
    | t :: ts => tokSize t + tokSizeL ts
end

/-- `Token::into_non_trivial` (fuel = the size of the token) -/
def nonTrivialF : Nat → Tok → Tok
  | 0, t => t
  | k + 1, t =>
    match t with
    | .alt _ [b] => nonTrivialF k b
    | .cat _ [b] => nonTrivialF k b
    | .rep _ b lo hi =>
      (match NRange.fromClosedOpen lo hi with
        | .inv 1 => nonTrivialF k b
        | _ => t)
    | _ => t

def nonTrivial (t : Tok) : Tok := nonTrivialF (tokSize t) t

def isAlt : Tok → Bool | .alt .. => true | _ => false

/-- the queue of `Token::into_alternatives` (fuel = the number of tokens that can ever be queued) -/
def alternativesLoop : Nat → List Tok → List Tok → List Tok
  | 0, _, acc => acc
  | _ + 1, [], acc => acc
  | k + 1, t :: queue, acc =>
    match t with
    | .alt _ bs =>
      let bs := bs.map nonTrivial
      alternativesLoop k (queue ++ bs.filter isAlt) (acc ++ bs.filter (fun b => !isAlt b))
    | _ => alternativesLoop k queue (acc ++ [t])

def intoAlternatives (t : Tok) : List Tok := alternativesLoop (tokSize t + 1) [nonTrivial t] []

/-- `FilterAnyProgram` -/
structure NotProgram where
  exhaustive : Option Re
  nonexhaustive : Option Re

/-- `crate::any(tokens)`: an alternation of the tokens, compiled like any other pattern -/
def anyProgram (ts : List Tok) : Option Re :=
  if ts.isEmpty then none else some (encodeTop (.alt ⟨0, 0⟩ ts))

def alwaysExhaustive (t : Tok) : Bool :=
  match isExhaustive t with
  | .ok .always => true
  | _ => false

/-- `FilterAny::any(tree.into_alternatives())` -/
def notProgram (t : Tok) : NotProgram :=
  let alts := intoAlternatives t
  ⟨anyProgram (alts.filter alwaysExhaustive), anyProgram (alts.filter (fun a => !alwaysExhaustive a))⟩

/-- `FilterAnyProgram::residue` -/
def NotProgram.residue (σ : Sem) (p : NotProgram) (rel : Str) : Verdict :=
  if (match p.exhaustive with | some r => r.matchB σ rel | none => false) then .tree
  else if (match p.nonexhaustive with | some r => r.matchB σ rel | none => false) then .file
  else .keep

/-! ### the stack of combinators on one entry -/

inductive Layer where
  | not (p : NotProgram)
  /-- `filter_entry` with the harness function: `Tree` / `File` by file name -/
  | filter (rules : List (Str × Bool))

def ruleVerdict (name : Str) : List (Str × Bool) → Verdict
  | [] => .keep
  | (n, tree) :: rest => if n == name then (if tree then .tree else .file) else ruleVerdict name rest

structure Pipeline where
  σ : Sem
  /-- the path the walk starts from, as handed to walkdir -/
  root : Str
  /-- `none` for `PathExt::walk` -/
  glob : Option GlobProgram
  layers : List Layer

def Pipeline.pivot (π : Pipeline) : Nat := match π.glob with | some g => g.pivot | none => 0

def Pipeline.path (π : Pipeline) (e : Entry) : Str := joinAll π.root e.names

/-- `root_relative_paths` of the substituent a combinator looks at: a filtrate of a glob walk is a
    `GlobEntry` and knows the pivot; residue is a `TreeEntry` and has lost it -/
def Pipeline.relativeFor (π : Pipeline) (e : Entry) (s : Sepn) : Str × Str :=
  splitAtDepth (π.path e) (e.depth + (if s = .filtrate then π.pivot else 0))

def Layer.verdict (π : Pipeline) (e : Entry) (s : Sepn) : Layer → Verdict
  | .not p => p.residue π.σ (π.relativeFor e s).2
  | .filter rules => ruleVerdict (fileName (π.path e)) rules

/-- a stack of combinators whose verdicts may depend on the state they find, innermost first:
    final state and number of cancellations (`Wax.feed` with dependent verdicts) -/
def feedDep : List (Sepn → Verdict) → Sepn → Sepn × Nat
  | [], s => (s, 0)
  | f :: fs, s =>
    let r := applyVerdict s (f s)
    let t := feedDep fs r.1
    (t.1, t.2 + (if r.2 then 1 else 0))

/-- the verdict functions of a walk, innermost first: the `GlobWalker` closure, then the layers -/
def Pipeline.stack (π : Pipeline) (e : Entry) : List (Sepn → Verdict) :=
  (match π.glob with
    | some g => [fun _ => (globVerdict π.σ g (π.path e) e.depth).1]
    | none => []) ++ π.layers.map (fun l s => l.verdict π e s)

/-- what the combinators make of an entry: the final separation and how often the walk is cancelled -/
def Pipeline.decide (π : Pipeline) (e : Entry) : Sepn × Nat := feedDep (π.stack e) .filtrate

def Pipeline.cancels (π : Pipeline) (e : Entry) : Bool := (π.decide e).2 != 0

/-- every item the walk produces, kept or not -/
def Pipeline.items (π : Pipeline) (mn : Nat) (mx : Option Nat) (rv : RootView) : List Item :=
  walkItems mn mx π.cancels rv

end Wax.Walk
