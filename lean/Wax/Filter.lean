/-!
The separating-filter algebra of filter.rs for file iterators: what a stack of `not` /
`filter_entry` combinators does to one entry, and how often it cancels the walk.
-/
namespace Wax

/-- `Separation<(T, TreeResidue<R>)>` without the payload -/
inductive Sepn where
  | filtrate | node | tree
deriving DecidableEq, Repr, Inhabited

/-- what a combinator's function says about an entry (`Option<EntryResidue>`) -/
inductive Verdict where
  | keep | file | tree
deriving DecidableEq, Repr, Inhabited

def Sepn.rank : Sepn → Nat | .filtrate => 0 | .node => 1 | .tree => 2
def Verdict.rank : Verdict → Nat | .keep => 0 | .file => 1 | .tree => 2

def Sepn.ofRank : Nat → Sepn | 0 => .filtrate | 1 => .node | _ => .tree

/-- `Separation::filter_tree_by_substituent` as repaired (`Tree` residue for a discarded filtrate):
    new state and whether `cancel_walk_tree` was called -/
def applyVerdict (s : Sepn) (v : Verdict) : Sepn × Bool :=
  match v, s with
  | .keep, s => (s, false)
  | .file, .filtrate => (.node, false)
  | .file, s => (s, false)
  | .tree, .filtrate => (.tree, true)
  | .tree, .node => (.tree, true)
  | .tree, .tree => (.tree, false)

/-- the pinned code: a filtrate discarded as a tree becomes *node* residue (filter.rs:317-320) -/
def applyVerdictPinned (s : Sepn) (v : Verdict) : Sepn × Bool :=
  match v, s with
  | .tree, .filtrate => (.node, true)
  | v, s => applyVerdict s v

/-- a stack of combinators, innermost first: final state and number of cancellations -/
def feed (ap : Sepn → Verdict → Sepn × Bool) : Sepn → List Verdict → Sepn × Nat
  | s, [] => (s, 0)
  | s, v :: vs =>
    let (s', c) := ap s v
    let (s'', n) := feed ap s' vs
    (s'', n + (if c then 1 else 0))

theorem applyVerdict_rank (s : Sepn) (v : Verdict) : (applyVerdict s v).1.rank = max s.rank v.rank := by
  cases s <;> cases v <;> rfl

/-- C16: the state after any stack is the join of the verdicts -/
theorem feed_is_join (s : Sepn) (vs : List Verdict) :
    (feed applyVerdict s vs).1.rank = vs.foldl (fun a v => max a v.rank) s.rank := by
  induction vs generalizing s with
  | nil => rfl
  | cons v vs ih =>
    simp only [feed, List.foldl_cons]
    rw [← applyVerdict_rank]
    exact ih _

theorem foldl_max_perm {l₁ l₂ : List Verdict} (h : l₁.Perm l₂) (a : Nat) :
    l₁.foldl (fun a v => max a v.rank) a = l₂.foldl (fun a v => max a v.rank) a := by
  induction h generalizing a with
  | nil => rfl
  | cons x _ ih => simp only [List.foldl_cons]; exact ih _
  | swap x y l =>
    simp only [List.foldl_cons]
    congr 1
    omega
  | trans _ _ ih1 ih2 => rw [ih1, ih2]

theorem rank_inj {a b : Sepn} (h : a.rank = b.rank) : a = b := by
  cases a <;> cases b <;> first | rfl | cases h

/-- C16: the outcome does not depend on the order of the combinators -/
theorem feed_perm (s : Sepn) {l₁ l₂ : List Verdict} (h : l₁.Perm l₂) :
    (feed applyVerdict s l₁).1 = (feed applyVerdict s l₂).1 := by
  apply rank_inj
  rw [feed_is_join, feed_is_join, foldl_max_perm h]

/-- C16: a later combinator never brings an entry back nor downgrades a tree to a file -/
theorem never_backwards (s : Sepn) (v : Verdict) : s.rank ≤ (applyVerdict s v).1.rank := by
  rw [applyVerdict_rank]; omega

/-- C13: the walk is cancelled at most once per entry, whatever the stack -/
theorem cancel_at_most_once (s : Sepn) (vs : List Verdict) : (feed applyVerdict s vs).2 ≤ 1 ∧
    ((feed applyVerdict s vs).2 = 1 → s ≠ .tree) ∧ (s = .tree → (feed applyVerdict s vs).2 = 0) := by
  induction vs generalizing s with
  | nil => simp [feed]
  | cons v vs ih =>
    cases s <;> cases v <;> simp only [feed, applyVerdict] <;>
      first
      | (have := ih .filtrate; simpa using this)
      | (have := ih .node; simpa using this)
      | (have := ih .tree; simp_all)

/-- C13: cancellation happens exactly when the final state is a tree that the stack created -/
theorem cancel_iff_becomes_tree (s : Sepn) (vs : List Verdict) (hs : s ≠ .tree) :
    (feed applyVerdict s vs).2 = 1 ↔ (feed applyVerdict s vs).1 = .tree := by
  induction vs generalizing s with
  | nil => cases s <;> simp_all [feed]
  | cons v vs ih =>
    have h3 := (cancel_at_most_once .tree vs).2.2 rfl
    have hj : (feed applyVerdict .tree vs).1 = .tree := by
      apply rank_inj
      rw [feed_is_join]
      clear ih h3
      induction vs with
      | nil => rfl
      | cons x xs ihx =>
        simp only [List.foldl_cons]
        have : max Sepn.tree.rank x.rank = Sepn.tree.rank := by cases x <;> rfl
        rw [this]; exact ihx
    cases s <;> cases v <;> simp only [feed, applyVerdict] <;>
      first
      | contradiction
      | (have := ih .filtrate (by decide); simpa using this)
      | (have := ih .node (by decide); simpa using this)
      | (simp [h3, hj])

/-- the pinned algebra: two tree verdicts on one kept directory cancel the walk twice — the second
    `skip_current_dir` pops the *parent* directory -/
theorem pinned_cancels_twice : (feed applyVerdictPinned .filtrate [.tree, .tree]).2 = 2 := by decide

end Wax
