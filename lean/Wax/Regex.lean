import Wax.Basic
/-!
The subset of regular expressions the encoder emits, with a declarative semantics (`Matches`)
and an executable one (`matchB`).  `Wax/Proofs/Regex.lean` proves them equivalent.
-/
namespace Wax

/-- class items: a single character or an inclusive range (`Archetype` in token/mod.rs) -/
inductive Arch where
  | chr (c : Char)
  | rng (a b : Char)
deriving BEq, Repr, Inhabited, DecidableEq

/-- what the regex back end is assumed to do (the trusted part of the semantics) -/
structure Sem where
  /-- Unicode simple case folding relates the two characters -/
  ceq : Char → Char → Bool
  /-- `.` matches a new line (the `s` flag) -/
  dotall : Bool

def Arch.mem (c : Char) : Arch → Bool
  | .chr x => c == x
  | .rng a b => a.toNat ≤ c.toNat && c.toNat ≤ b.toNat

/-- one-character atoms -/
inductive CharPred where
  | sepc                                   -- `[/]`
  | nsep                                   -- `[^/]`
  | dot                                    -- `.`
  | cls (neg : Bool) (items : List Arch)   -- `[items&&[^/]]` / `[^items/]`
deriving Repr, Inhabited

def CharPred.holds (σ : Sem) : CharPred → Char → Bool
  | .sepc, c => c == '/'
  | .nsep, c => c != '/'
  | .dot, c => σ.dotall || c != '\n'
  | .cls neg items, c => c != '/' && (if neg then !(items.any (Arch.mem c)) else items.any (Arch.mem c))

inductive Re where
  | lit (s : Str) (ci : Bool)
  | chr (p : CharPred)
  | never
  | cat (l : List Re)
  | alt (l : List Re)
  | star (r : Re)
  | lazyStar (r : Re)
  | opt (r : Re)
  | rep (r : Re) (lo : Nat) (hi : Option Nat)
  | cap (r : Re)
  | grp (r : Re)
deriving Inhabited

/-- literal comparison, character by character -/
def litEq (σ : Sem) (ci : Bool) : Str → Str → Bool
  | [], [] => true
  | a :: s, b :: w => (if ci then σ.ceq a b else a == b) && litEq σ ci s w
  | _, _ => false

mutual
  inductive Matches (σ : Sem) : Re → Str → Prop
    | lit {s ci w} : litEq σ ci s w = true → Matches σ (.lit s ci) w
    | chr {p c} : p.holds σ c = true → Matches σ (.chr p) [c]
    | cat {l w} : MatchesAll σ l w → Matches σ (.cat l) w
    | alt {l r w} : r ∈ l → Matches σ r w → Matches σ (.alt l) w
    | starNil {r} : Matches σ (.star r) []
    | starCons {r u v} : Matches σ r u → Matches σ (.star r) v → Matches σ (.star r) (u ++ v)
    | lazyStar {r w} : Matches σ (.star r) w → Matches σ (.lazyStar r) w
    | optNone {r} : Matches σ (.opt r) []
    | optSome {r w} : Matches σ r w → Matches σ (.opt r) w
    | rep {r lo hi n w} : lo ≤ n → (∀ h, hi = some h → n ≤ h) → Iter σ r n w → Matches σ (.rep r lo hi) w
    | cap {r w} : Matches σ r w → Matches σ (.cap r) w
    | grp {r w} : Matches σ r w → Matches σ (.grp r) w
  inductive MatchesAll (σ : Sem) : List Re → Str → Prop
    | nil : MatchesAll σ [] []
    | cons {r rs u v} : Matches σ r u → MatchesAll σ rs v → MatchesAll σ (r :: rs) (u ++ v)
  inductive Iter (σ : Sem) : Re → Nat → Str → Prop
    | zero {r} : Iter σ r 0 []
    | succ {r n u v} : Matches σ r u → Iter σ r n v → Iter σ r (n + 1) (u ++ v)
end

/-! executable -/

/-- all ways to split a string in two -/
def splits : Str → List (Str × Str)
  | [] => [([], [])]
  | c :: cs => ([], c :: cs) :: (splits cs).map (fun uv => (c :: uv.1, uv.2))

/-- `w` is a sequence of non-empty chunks each accepted by `m` (fuel = length) -/
def starB (m : Str → Bool) : Nat → Str → Bool
  | _, [] => true
  | 0, _ :: _ => false
  | n + 1, w@(_ :: _) => (splits w).any (fun uv => !uv.1.isEmpty && m uv.1 && starB m n uv.2)

/-- `w` is exactly `n` chunks (possibly empty) each accepted by `m` -/
def iterB (m : Str → Bool) : Nat → Str → Bool
  | 0, w => w.isEmpty
  | n + 1, w => (splits w).any (fun uv => m uv.1 && iterB m n uv.2)

/-- some `n` with `lo ≤ n ≤ lo + extra` (and `n ≤ hi`) works -/
def repB (m : Str → Bool) (lo : Nat) (hi : Option Nat) (w : Str) : Nat → Bool
  | 0 => (match hi with | some h => decide (lo ≤ h) | none => true) && iterB m lo w
  | k + 1 => ((match hi with | some h => decide (lo + (k + 1) ≤ h) | none => true) && iterB m (lo + (k + 1)) w)
      || repB m lo hi w k

mutual
  def Re.matchB (σ : Sem) : Re → Str → Bool
    | .lit s ci, w => litEq σ ci s w
    | .chr p, w => match w with | [c] => p.holds σ c | _ => false
    | .never, _ => false
    | .cat l, w => Re.matchAllB σ l w
    | .alt l, w => Re.matchAnyB σ l w
    | .star r, w => starB (Re.matchB σ r) w.length w
    | .lazyStar r, w => starB (Re.matchB σ r) w.length w
    | .opt r, w => w.isEmpty || Re.matchB σ r w
    | .rep r lo hi, w => repB (Re.matchB σ r) lo hi w w.length
    | .cap r, w => Re.matchB σ r w
    | .grp r, w => Re.matchB σ r w
  def Re.matchAllB (σ : Sem) : List Re → Str → Bool
    | [], w => w.isEmpty
    | r :: rs, w => (splits w).any (fun uv => Re.matchB σ r uv.1 && Re.matchAllB σ rs uv.2)
  def Re.matchAnyB (σ : Sem) : List Re → Str → Bool
    | [], _ => false
    | r :: rs, w => Re.matchB σ r w || Re.matchAnyB σ rs w
end

end Wax
