import Wax.RuleS
/-!
The documented well-formedness rules (C06), declaratively over *flat expansions*: choose a branch of
every alternation and write every repetition body out once or twice.  Executable, exponential, used
as the specification side of the rule checker's check on small trees (`none` = too many expansions).
-/
namespace Wax

inductive LK where | sepK | treeK (root : Bool) | zomK | other
deriving BEq, Repr, Inhabited

def LK.isB : LK → Bool | .sepK | .treeK _ => true | _ => false
def LK.isZ : LK → Bool | .zomK => true | _ => false
def LK.roots : LK → Bool | .sepK | .treeK true => true | _ => false

def expCap : Nat := 3000

def prodL (a b : List (List LK)) : List (List LK) := a.flatMap (fun x => b.map (fun y => x ++ y))

mutual
  /-- all flat expansions (`twice`: repetition bodies are also written out twice) -/
  def expTok (twice : Bool) : Tok → Option (List (List LK))
    | .lit .. | .cls .. | .one _ => some [[.other]]
    | .sep _ => some [[.sepK]]
    | .tree _ r => some [[.treeK r]]
    | .zom .. => some [[.zomK]]
    | .alt _ bs => expAlt twice bs
    | .cat _ ts => expCat twice ts
    | .rep _ b _ hi =>
      match expTok twice b with
      | none => none
      | some e =>
        let two := twice && (match hi with | some h => decide (2 ≤ h) | none => true)
        let r := if two then e ++ prodL e e else e
        if r.length > expCap then none else some r
  def expAlt (twice : Bool) : List Tok → Option (List (List LK))
    | [] => some []
    | b :: bs =>
      match expTok twice b, expAlt twice bs with
      | some x, some y => if (x ++ y).length > expCap then none else some (x ++ y)
      | _, _ => none
  def expCat (twice : Bool) : List Tok → Option (List (List LK))
    | [] => some [[]]
    | t :: ts =>
      match expTok twice t, expCat twice ts with
      | some x, some y => let r := prodL x y; if r.length > expCap then none else some r
      | _, _ => none
end

def noAdj (p : LK → Bool) : List LK → Bool
  | a :: b :: rest => !(p a && p b) && noAdj p (b :: rest)
  | _ => true

def soleLeaf (p : Tok → Bool) (b : Tok) : Bool :=
  match b.concatenation with | [t] => p t | _ => false

def canRoot (b : Tok) : Option Bool :=
  match expTok false b with
  | none => none
  | some es => some (es.any (fun l => match l with | x :: _ => x.roots | [] => false))

mutual
  /-- the local rules R3-R6; `first`: nothing precedes this token in the expression -/
  def localOk (first : Bool) : Tok → Option Bool
    | .alt _ bs => localAlt first bs
    | .cat _ ts => localCat first ts
    | .rep _ b lo hi =>
      if !boundsOk lo hi then some false                                   -- R6
      else if soleLeaf Tok.isTreeT b then some false                        -- R3
      else if soleLeaf Tok.isSepT b || soleLeaf Tok.isZomT b then some false  -- R4
      else
        match (if first && lowerUnbounded lo hi then canRoot b else some false), localOk first b with   -- R5
        | some r, some ok => some (!r && ok)
        | _, _ => none
    | _ => some true
  def localAlt (first : Bool) : List Tok → Option Bool
    | [] => some true
    | b :: bs =>
      if soleLeaf Tok.isTreeT b then some false else                        -- R3
      match (if first then canRoot b else some false), localOk first b, localAlt first bs with   -- R5
      | some r, some ok, some rest => some (!r && ok && rest)
      | _, _, _ => none
  def localCat (first : Bool) : List Tok → Option Bool
    | [] => some true
    | t :: ts =>
      match localOk first t, localCat false ts with
      | some a, some b => some (a && b)
      | _, _ => none
end

/-- `some true`: well formed by R1-R6; `none`: too large to decide by enumeration -/
def wfSpec (t : Tok) : Option Bool :=
  match expTok true t, expTok false t, localOk true t with
  | some e2, some e1, some loc =>
    some (e2.all (noAdj LK.isB) && e1.all (noAdj LK.isZ) && loc)
  | _, _, _ => none

end Wax
