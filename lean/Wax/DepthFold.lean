import Wax.Depth
/-!
The general depth fold (`Token::variance::<Depth>` over any token tree) as structural recursion:
conjunctive branches reduce with `conj`, alternations with `disj` (a set of separated terms),
repetitions multiply by their bounds.
-/
namespace Wax

instance : BEq SepTerm := ⟨fun a b => a.t == b.t && a.v == b.v⟩

def NVar.disj (l r : NVar) : P NVar :=
  if l == r then pure l else
  match l, r with
  | .inv a, .inv b =>
    let lo := min a b; let hi := max a b
    pure (match BVR.tryFrom lo (some hi) with | some x => .bnd x | none => .unb)
  | .unb, _ => pure .unb
  | _, .unb => pure .unb
  | .bnd a, .bnd b => do pure (NVar.ofV (← a.union (.var (.bounded b))))
  | .bnd b, .inv i => do pure (NVar.ofV (← b.union (.inv i)))
  | .inv i, .bnd b => do pure (NVar.ofV (← b.union (.inv i)))

def NVar.prod (l : NVar) (r : NRange) : P NVar :=
  match l, r with
  | .unb, .var _ => pure .unb
  | .bnd _, .var .unbounded => pure .unb
  | .unb, .inv n => pure (if n == 0 then .inv 0 else .unb)
  | .bnd b, .inv n => if n == 0 then pure (.inv 0) else do pure (.bnd (← b.prodN n))
  | .bnd a, .var (.bounded b) => do pure (NVar.ofV (← a.prodB b))
  | .inv a, .var v =>
    if a == 0 then pure (.inv 0) else
    match v with
    | .unbounded => pure .unb
    | .bounded b => do pure (.bnd (← b.prodN a))
  | .inv a, .inv n => do pure (.inv (← cmul "product of unsigned word" a n))

/-- TreeTerm: conjunctive = one separated term, disjunctive = a set of them -/
inductive DTerm where
  | c (s : SepTerm) | d (l : List SepTerm)
deriving Repr, Inhabited

def setOf (l : List SepTerm) : List SepTerm :=
  l.foldl (fun acc x => if acc.contains x then acc else acc ++ [x]) []

def mapP {α β} (f : α → P β) : List α → P (List β)
  | [] => pure []
  | x :: xs => do
    let y ← f x
    let ys ← mapP f xs
    pure (y :: ys)

def DTerm.conj : DTerm → DTerm → P DTerm
  | .c l, .c r => do pure (.c (← l.conj r))
  | .c l, .d rs => do pure (.d (setOf (← mapP (fun r => l.conj r) rs)))
  | .d ls, .c r => do pure (.d (setOf (← mapP (fun l => l.conj r) ls)))
  | .d ls, .d rs => do
    let rows ← mapP (fun l => mapP (fun r => l.conj r) rs) ls
    pure (.d (setOf rows.flatten))

def DTerm.disj : DTerm → DTerm → DTerm
  | .c l, .c r => .d (setOf [l, r])
  | .c l, .d rs => .d (setOf (rs ++ [l]))
  | .d ls, .c r => .d (setOf (ls ++ [r]))
  | .d ls, .d rs => .d (setOf (ls ++ rs))

def DTerm.prod (x : DTerm) (r : NRange) : P DTerm :=
  match x with
  | .c s => do pure (.c ⟨s.t, ← s.v.prod r⟩)
  | .d ls => do pure (.d (setOf (← mapP (fun s => do pure (⟨s.t, ← s.v.prod r⟩ : SepTerm)) ls)))

def foldlP {α} (f : α → α → P α) : α → List α → P α
  | a, [] => pure a
  | a, x :: xs => do foldlP f (← f a x) xs

def reduceP {α} (f : α → α → P α) : List α → P (Option α)
  | [] => pure none
  | x :: xs => do pure (some (← foldlP f x xs))

def DTerm.finalize : DTerm → P NVar
  | .c s => s.finalize
  | .d ls => do
    let vs ← mapP SepTerm.finalize ls
    match ← reduceP NVar.disj vs with
    | some v => pure v
    | none => pure (.inv 0)

mutual
  def depthTok : Tok → P (Option DTerm)
    | .alt _ bs => do reduceP (fun a b => pure (DTerm.disj a b)) (← depthAll bs)
    | .cat _ ts => do reduceP DTerm.conj (← depthAll ts)
    | .rep _ b lo hi => do
      match ← depthTok b with
      | some x => pure (some (← x.prod (NRange.fromClosedOpen lo hi)))
      | none => pure none
    | .lit sp s ci => pure (some (.c (leafTerm (.lit sp s ci))))
    | .sep sp => pure (some (.c (leafTerm (.sep sp))))
    | .cls sp n i => pure (some (.c (leafTerm (.cls sp n i))))
    | .one sp => pure (some (.c (leafTerm (.one sp))))
    | .zom sp l => pure (some (.c (leafTerm (.zom sp l))))
    | .tree sp r => pure (some (.c (leafTerm (.tree sp r))))
  def depthAll : List Tok → P (List DTerm)
    | [] => pure []
    | t :: ts => do
      let x ← depthTok t
      let xs ← depthAll ts
      pure (match x with | some d => d :: xs | none => xs)
end

def depthVariance (t : Tok) : P NVar := do
  match ← depthTok t with
  | some x => x.finalize
  | none => (⟨.open_, .inv 0⟩ : SepTerm).finalize

end Wax
