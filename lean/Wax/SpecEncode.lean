import Wax.Encode
/-! A context-correct encoder: the documented language as a regex (executable oracle; not yet proved equal to `Spec.Matches`). -/
namespace Wax

structure SCtx where
  first : Bool
  last : Bool
deriving BEq, Repr

def enumFromS {α} (i : Nat) : List α → List (Nat × α)
  | [] => []
  | x :: xs => (i, x) :: enumFromS (i + 1) xs

/-- `C* = (?:[^/]*[/])*` -/
def compStar : Re := .star (.grp (.cat [.star (.chr .nsep), .chr .sepc]))

def Re.printSpec (r : Re) : String := r.print

mutual
  partial def specCatOld (ctx : SCtx) (t : Tok) : Re :=
    let ts := t.concatenation
    let n := ts.length
    .cat ((enumFromS 0 ts).map (fun (it : Nat × Tok) =>
      specTokOld ⟨ctx.first && it.1 == 0, ctx.last && it.1 + 1 == n⟩ it.2))

  partial def specTokOld (ctx : SCtx) : Tok → Re
    | .lit _ s ci => .lit s ci
    | .sep _ => .chr .sepc
    | .cls _ neg items => if classValid items then .chr (.cls neg items) else .never
    | .one _ => .chr .nsep
    | .zom _ _ => .star (.chr .nsep)
    | .tree _ hasRoot =>
      if !ctx.last then
        if hasRoot || !ctx.first then .cat [.chr .sepc, compStar] else compStar
      else if !ctx.first then .opt (.grp (.cat [.chr .sepc, .star (.chr .dot)]))
      else if hasRoot then .cat [.chr .sepc, .star (.chr .dot)] else .star (.chr .dot)
    | .alt _ bs => .grp (.alt (bs.map (fun b => .grp (specCatOld ctx b))))
    | .rep _ body lo hi =>
      let b (f l : Bool) : Re := .grp (specCatOld ⟨f, l⟩ body)
      -- does the body depend on its context at all?
      let plain := (b false false).printSpec == (b ctx.first ctx.last).printSpec
                && (b false false).printSpec == (b ctx.first false).printSpec
                && (b false false).printSpec == (b false ctx.last).printSpec
      if plain then .rep (b false false) lo hi
      else
        -- n = 0 | n = 1 | n >= 2, first and last iterations in their own context
        let zero : List Re := if lo == 0 then [.cat []] else []
        let one : List Re := if lo ≤ 1 && (match hi with | some h => 1 ≤ h | none => true) then [b ctx.first ctx.last] else []
        let many : List Re :=
          match hi with
          | some h => if h < 2 then [] else
              [.cat [b ctx.first false, .rep (b false false) (lo - 2) (some (h - 2)), b false ctx.last]]
          | none => [.cat [b ctx.first false, .rep (b false false) (lo - 2) none, b false ctx.last]]
        .grp (.alt (zero ++ one ++ many))
    | .cat sp ts => specCatOld ctx (.cat sp ts)
end

def specPattern (t : Tok) : String := "(?s)^" ++ (specCatOld ⟨true, true⟩ t).printSpec ++ "$"

end Wax
