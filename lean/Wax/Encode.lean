import Wax.Syntax
/-!
The encoder (encode.rs:162-321) as structural recursion.  Every tree-wildcard arm is a named
*site*; `Wax/Spec.lean` says which of them are faithful to the documented language.
-/
namespace Wax

inductive Pos where | first | middle | last | only
deriving BEq, Repr, DecidableEq, Inhabited

/-- `Itertools::with_position` -/
def posOf (i n : Nat) : Pos :=
  if n == 1 then .only else if i == 0 then .first else if i + 1 == n then .last else .middle

def classValid (items : List Arch) : Bool :=
  items.all fun | .chr _ => true | .rng a b => a.toNat ≤ b.toNat

def G (capture : Bool) (r : Re) : Re := if capture then .cap r else .grp r

def anyStar : Re := .star (.chr .dot)

/-- `(?:[/]|[/](.*[/]))` -/
def siteIntermediate (c : Bool) : Re :=
  .grp (.alt [.chr .sepc, .cat [.chr .sepc, G c (.cat [anyStar, .chr .sepc])]])
/-- `([/].*[/]?)` -/
def siteFirstRooted (c : Bool) : Re := G c (.cat [.chr .sepc, anyStar, .opt (.chr .sepc)])
/-- `(?:[/]?|(.*[/]))` -/
def siteFirstUnrooted (c : Bool) : Re := .grp (.alt [.opt (.chr .sepc), G c (.cat [anyStar, .chr .sepc])])
/-- `(?:[/]?|[/](.*))` -/
def siteLast (c : Bool) : Re := .grp (.alt [.opt (.chr .sepc), .cat [.chr .sepc, G c anyStar]])
/-- `(.*)` -/
def siteOnly (c : Bool) : Re := G c anyStar
/-- `([/].*)`: a rooted tree wildcard that is the whole pattern (`/**`) -/
def siteOnlyRooted (c : Bool) : Re := G c (.cat [.chr .sepc, anyStar])

def encodeTree (c : Bool) (sup : Option Pos) (p : Pos) (hasRoot : Bool) : Re :=
  match p with
  | .first =>
    if sup == some .middle || sup == some .last then siteIntermediate c
    else if hasRoot then siteFirstRooted c else siteFirstUnrooted c
  | .middle => siteIntermediate c
  | .last =>
    if sup == some .first || sup == some .middle then siteIntermediate c else siteLast c
  | .only => if hasRoot && (sup.isNone || sup == some .first || sup == some .only) then siteOnlyRooted c else siteOnly c

def supOr (sup : Option Pos) (p : Pos) : Option Pos := match sup with | some s => some s | none => some p

mutual
  def encodeTok (c : Bool) (sup : Option Pos) (p : Pos) : Tok → Re
    | .lit _ s ci => .lit s ci
    | .sep _ => .chr .sepc
    | .cls _ neg items => G c (if classValid items then .chr (.cls neg items) else .never)
    | .one _ => G c (.chr .nsep)
    | .zom _ false => G c (.star (.chr .nsep))
    | .zom _ true => G c (.lazyStar (.chr .nsep))
    | .tree _ hasRoot => encodeTree c sup p hasRoot
    | .alt _ bs => G c (.alt (encodeBranches (supOr sup p) bs))
    | .rep _ body lo hi =>
      G c (.rep (.grp (match body with
        | .cat _ ts => .cat (encodeList false (supOr sup p) ts 0 ts.length)
        | other => .cat [encodeTok false (supOr sup p) .only other])) lo hi)
    | .cat _ ts => .cat (encodeList c sup ts 0 ts.length)      -- `unreachable!()` in the code
  def encodeList (c : Bool) (sup : Option Pos) : List Tok → Nat → Nat → List Re
    | [], _, _ => []
    | t :: ts, i, n => encodeTok c sup (posOf i n) t :: encodeList c sup ts (i + 1) n
  def encodeBranches (sup : Option Pos) : List Tok → List Re
    | [] => []
    | b :: bs =>
      .grp (match b with
        | .cat _ ts => .cat (encodeList false sup ts 0 ts.length)
        | other => .cat [encodeTok false sup .only other]) :: encodeBranches sup bs
end

/-- `encode(Grouping::Capture, None, .., tree)` over `tree.concatenation()` -/
def encodeTop (t : Tok) : Re :=
  match t with
  | .cat _ ts => .cat (encodeList true none ts 0 ts.length)
  | other => .cat [encodeTok true none .only other]

/-! printing, exactly as `regex::escape` and the `format!`s of the code do -/

def regexMeta : List Char := "\\.+*?()|[]{}^$#&-~".toList

def escChar (c : Char) : String :=
  if regexMeta.contains c then "\\" ++ c.toString else c.toString

def escStr (s : Str) : String := String.join (s.map escChar)

def CharPred.print : CharPred → String
  | .sepc => "[/]"
  | .nsep => "[^/]"
  | .dot => "."
  | .cls neg items =>
    let body := String.join (items.map fun
      | .chr c => escChar c
      | .rng a b => escChar a ++ "-" ++ escChar b)
    if neg then "[^" ++ body ++ "/]" else "[" ++ body ++ "&&[^/]]"

mutual
  def Re.print : Re → String
    | .lit s ci => (if ci then "(?i:" else "(?-i:") ++ escStr s ++ ")"
    | .chr p => p.print
    | .never => "[a&&b]"
    | .cat l => Re.printCat l
    | .alt l => Re.printAlt l
    | .star r => r.print ++ "*"
    | .lazyStar r => r.print ++ "*?"
    | .opt r => r.print ++ "?"
    | .rep r lo hi => r.print ++ (match hi with
        | some h => "{" ++ toString lo ++ "," ++ toString h ++ "}"
        | none => "{" ++ toString lo ++ ",}")
    | .cap r => "(" ++ r.print ++ ")"
    | .grp r => "(?:" ++ r.print ++ ")"
  def Re.printCat : List Re → String
    | [] => ""
    | r :: rs => r.print ++ Re.printCat rs
  def Re.printAlt : List Re → String
    | [] => "[a&&b]"      -- no alternatives (`any` of nothing): the never-matching class, not the empty pattern
    | [r] => r.print
    | r :: rs => r.print ++ "|" ++ Re.printAlt rs
end

def compilePattern (t : Tok) : String := "(?s)^" ++ (encodeTop t).print ++ "$"

end Wax
