import Wax.DepthFold
import Wax.Query
/-!
`Token::is_exhaustive` (the `TreeExhaustiveness` fold, token/mod.rs) as structural recursion: a
branch looks at the maximal *suffix* of its children that are branches, separators, zero-or-more
or tree wildcards; if some child was left out the sum only survives when it is itself exhaustive.
-/
namespace Wax

def exhTake : Tok → Bool
  | .alt .. | .cat .. | .rep .. => true
  | .sep _ => true
  | .zom .. => true
  | .tree .. => true
  | _ => false

def NVar.hasUpper : NVar → Bool
  | .inv _ => true
  | .unb => false
  | .bnd (.lower _) => false
  | .bnd _ => true

def SepTerm.exh (s : SepTerm) : When := if !s.v.hasUpper then .always else .never

def DTerm.isExhaustive : DTerm → When
  | .c s => s.exh
  | .d ls =>
    match ls.map SepTerm.exh with
    | [] => .never
    | x :: xs => xs.foldl When.certainty x

def DTerm.zero : DTerm := .c ⟨.open_, .inv 0⟩

def exhFinish (n : Nat) (sum : Option DTerm) (terms : Nat) : Option DTerm :=
  if n == terms then sum
  else match sum with
    | some s => if s.isExhaustive != .never then some s else some DTerm.zero
    | none => some DTerm.zero

mutual
  def exhTok : Tok → P (Option DTerm)
    | .alt _ bs => do
      let terms ← exhSuffix bs
      let sum ← reduceP (fun a b => pure (DTerm.disj a b)) terms.1
      pure (exhFinish bs.length sum terms.1.length)
    | .cat _ ts => do
      let terms ← exhSuffix ts
      let sum ← reduceP DTerm.conj terms.1
      pure (exhFinish ts.length sum terms.1.length)
    | .rep _ b lo hi => do
      let term ← exhTok b         -- a branch child is always taken
      match exhFinish 1 term (if term.isSome then 1 else 0) with
      | none => pure none
      | some term =>
        let fin : Bool := match term with
          | .c ⟨_, .inv 0⟩ => true
          | .c ⟨_, .inv 1⟩ => true
          | .c ⟨_, .inv _⟩ => false
          | _ => true
        if fin then do pure (some (← term.prod (NRange.fromClosedOpen lo hi))) else pure (some term)
    | .lit sp s ci => pure (some (.c (leafTerm (.lit sp s ci))))
    | .sep sp => pure (some (.c (leafTerm (.sep sp))))
    | .cls sp n i => pure (some (.c (leafTerm (.cls sp n i))))
    | .one sp => pure (some (.c (leafTerm (.one sp))))
    | .zom sp l => pure (some (.c (leafTerm (.zom sp l))))
    | .tree sp r => pure (some (.c (leafTerm (.tree sp r))))
  /-- terms of the maximal taken suffix, and whether the whole list was taken -/
  def exhSuffix : List Tok → P (List DTerm × Bool)
    | [] => pure ([], true)
    | t :: ts => do
      let r ← exhSuffix ts
      if r.2 && exhTake t then do
        let x ← exhTok t
        pure ((match x with | some d => d :: r.1 | none => r.1), true)
      else pure (r.1, false)
end

def isExhaustive (t : Tok) : P When := do
  match ← exhTok t with
  | some x => pure x.isExhaustive
  | none => pure .never

end Wax
