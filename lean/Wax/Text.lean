import Wax.Natural
import Wax.Syntax
/-!
Text variance (`Token::variance::<Text>`, token/mod.rs + variance/invariant/text.rs) as structural
recursion; unix configuration (`PATHS_ARE_CASE_INSENSITIVE = false`).
-/
namespace Wax

inductive Frag where | nom (s : Str) | str (s : Str)
deriving BEq, Repr, Inhabited, DecidableEq

inductive TVar where
  | inv (fs : List Frag) | unb | bnd
deriving BEq, Repr, Inhabited, DecidableEq

def Frag.text : Frag → Str | .nom s => s | .str s => s

def fragsToStr : List Frag → Str
  | [] => []
  | f :: fs => f.text ++ fragsToStr fs

/-- `Text::conjunction`: the last fragment of the left and the first of the right merge when alike -/
def fragConj : List Frag → List Frag → List Frag
  | l, [] => l
  | [], r => r
  | l, r0 :: rs =>
    match l.getLast?, r0 with
    | some (.nom a), .nom b => l.dropLast ++ [.nom (a ++ b)] ++ rs
    | some (.str a), .str b => l.dropLast ++ [.str (a ++ b)] ++ rs
    | _, _ => l ++ r0 :: rs

def TVar.conj : TVar → TVar → TVar
  | .inv a, .inv b => .inv (fragConj a b)
  | .unb, .unb => .unb
  | _, _ => .bnd

def TVar.disj (l r : TVar) : TVar :=
  if l = r then l else
  match l, r with
  | .unb, _ => .unb
  | _, .unb => .unb
  | _, _ => .bnd

def repeatFrags (fs : List Frag) : Nat → List Frag
  | 0 => []
  | n + 1 => fs ++ repeatFrags fs n

/-- `Product<NaturalRange>` (panics on overflow are irrelevant to the invariant result) -/
def TVar.prod (l : TVar) (r : NRange) : TVar :=
  match l, r with
  | .unb, .var _ => .unb
  | .bnd, .var .unbounded => .unb
  | .unb, .inv n => if n == 0 then .inv [] else .unb
  | .bnd, .inv n => if n == 0 then .inv [] else .bnd
  | .bnd, .var (.bounded _) => .bnd
  | .inv _, .var .unbounded => .unb
  | .inv _, .var (.bounded _) => .bnd
  | .inv fs, .inv n => .inv (repeatFrags fs n)

/-- `CharExt::has_casing`, a table of the platform (validated exhaustively, not proved) -/
structure Casing where
  hasCasing : Char → Bool

def archText : Arch → TVar
  | .chr c => .inv [.nom [c]]
  | .rng a b => if a ≠ b then .bnd else .inv [.nom [a]]

def classText : List Arch → TVar
  | [] => .inv []
  | [a] => archText a
  | a :: rest => (archText a).disj (classText rest)

mutual
  def textTok (κ : Casing) : Tok → TVar
    | .lit _ s ci => if ci && s.any κ.hasCasing then .bnd else .inv [.nom s]
    | .sep _ => .inv [.str ['/']]
    | .cls _ neg items => if neg then .bnd else classText items
    | .one _ => .unb
    | .zom .. => .unb
    | .tree .. => .unb
    | .alt _ bs => textAlt κ bs
    | .cat _ ts => textCat κ ts
    | .rep _ body lo hi => (textTok κ body).prod (NRange.fromClosedOpen lo hi)
  /-- `reduce(conjunction)` over the children -/
  def textCat (κ : Casing) : List Tok → TVar
    | [] => .inv []
    | [t] => textTok κ t
    | t :: ts => (textTok κ t).conj (textCat κ ts)
  /-- `reduce(disjunction)` over the children -/
  def textAlt (κ : Casing) : List Tok → TVar
    | [] => .inv []
    | [t] => textTok κ t
    | t :: ts => (textTok κ t).disj (textAlt κ ts)
end

end Wax
