import Wax.Generated
/-! GENERATED from the Rust sources by tools/extract.py + tools/rs2lean.py; do not edit. -/
namespace Wax.Generated

def conjunctionUsize (self_v : Nat) (rhs : Nat) : Nat :=
  (checkedAddExpect self_v rhs)
def productUsize (self_v : Nat) (rhs : Nat) : Nat :=
  (checkedMulExpect self_v rhs)
def conjunctionNonZero (self_v : Nat) (rhs : Nat) : Nat :=
  (checkedAddExpect self_v rhs)
def productNonZero (self_v : Nat) (rhs : Nat) : Nat :=
  (checkedMulExpect self_v rhs)

end Wax.Generated
