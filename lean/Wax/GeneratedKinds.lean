import Wax.Generated
/-! GENERATED from the Rust sources by tools/extract.py; do not edit. -/
namespace Wax.Generated

inductive KLeaf where | lit | sep | cls | one | zom | treeR | treeU deriving DecidableEq, Repr
inductive KBranch where | alt | cat | rep deriving DecidableEq, Repr
/-- (leaf kind, boundary: 0 none / 1 separator / 2 component, is_rooting, is_capturing), evaluated from src/token/mod.rs -/
def leafKinds : List (KLeaf × Nat × Bool × Bool) := [(.lit, 0, false, false), (.sep, 1, true, false), (.cls, 0, false, true), (.one, 0, false, true), (.zom, 0, false, true), (.treeR, 2, true, true), (.treeU, 2, false, true)]
/-- (branch kind, is_capturing) -/
def branchKinds : List (KBranch × Bool) := [(.alt, true), (.cat, false), (.rep, true)]

end Wax.Generated
