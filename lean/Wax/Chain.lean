import Wax.Walk
/-!
The separating-filter chain of the crate at ITERATOR level (filter.rs, walk/mod.rs, walk/glob.rs),
over the walkdir machine of `Wax/Walk.lean`.

`Wax/Walk.lean` collapses the chain: `Pipeline.decide` applies the verdict functions of all layers
to an entry at once and hands one Boolean to the machine.  Here nothing is collapsed:

* `MState` is `WalkTree` (walk/mod.rs:411-473): walkdir's stack (`step` of `Wax/Walk.lean`), the
  root entry walkdir yields before it reads anything, and the flag `is_dir` of the most recently
  yielded item.  `MState.pull` is `WalkTree::next` (walkdir's loop runs until it has an item),
  `MState.cancel` is `WalkTree::cancel_walk_tree`: `skip_current_dir` guarded by `is_dir`.
* `Sep` is `Separation<(Result<T, WalkError>, TreeResidue<TreeEntry>)>` with its payload: a filtrate
  entry knows the pivot if it is a `GlobEntry`; residue is a `TreeEntry` and has lost it
  (`From<GlobEntry> for TreeEntry`).
* a `Stage` is one adaptor: `FilterMapTree` with the `GlobWalker` closure, or `Not` / `FilterEntry`
  (both `transpose_filtrate` + `Separation::filter_tree_by_substituent`).  `Stage.apply` is what the
  body of its `feed` does with the separation it has pulled from its input: whether the user
  function is called (and on what), the new separation, and each call of `cancel_walk_tree` — which
  every adaptor forwards to its input (`self.input.cancel_walk_tree()`), so that it acts on the
  machine NOW, before anything else is pulled.
* `Chain.feed` is `SeparatingFilter::feed` of the outermost adaptor: it calls `feed` of its input,
  and so on down to `WalkTree` (`SeparatingFilterInput`: every item is a filtrate).
* `Chain.next` is `filter::filtrate` (the `Iterator::next` of every adaptor: feed until a filtrate),
  `Chain.collect` the consumer's `for` loop; `Chain.run` is the trace of all the feeds of that loop.

What is recorded of a feed (`Obs`): the separation handed up, for every stage the separation its
function was called on (if it was called), and the number of `cancel_walk_tree` calls.

`Wax/Proofs/ChainRefines.lean` proves that this chain and the collapsed model agree.
-/
namespace Wax.Chain
open Wax Wax.Walk

/-! ### `WalkTree` -/

/-- walkdir's `next`: iterate `step` until an item is yielded (`pop` and `skip` yield nothing).
    Returns the item, the `is_dir` that `WalkTree::next` sets, and the new stack.  `none` = the
    iterator is exhausted.  Fuel: `stackSize s` suffices (`next_fuel`). -/
def next (mn : Nat) (mx : Option Nat) : Nat → List Frame → Option (Item × Bool × List Frame)
  | 0, _ => none
  | k + 1, s =>
    match step mn mx s with
    | .done => none
    | .pop s' => next mn mx k s'
    | .skip s' => next mn mx k s'
    | .yield it d s' => some (it, d, s')

/-- `WalkTree { is_dir, input }` -/
structure MState where
  /-- the item walkdir yields for the path the walk starts from (`self.start.take()`), while it has
      not been yielded, with the `is_dir` it sets -/
  root : Option (Item × Bool)
  stack : List Frame
  isDir : Bool

/-- `WalkTree::with_pivot_and_behavior` on a root as walkdir sees it (as `walkItems`): the root
    entry is not yielded when `min_depth > 0`; a root that is a link to a directory under `ReadFile`
    is reported as a link (`is_dir` false) and read nevertheless -/
def MState.init (mn : Nat) : RootView → MState
  | .err anon => ⟨some (.err [] anon, false), [], false⟩
  | .leaf k => ⟨if 0 < mn then none else some (.ok ⟨[], k.kind⟩, false), [], false⟩
  | .dir cs => ⟨if 0 < mn then none else some (.ok ⟨[], .d⟩, true), [⟨[], cs⟩], false⟩
  | .link cs => ⟨if 0 < mn then none else some (.ok ⟨[], .l⟩, false), [⟨[], cs⟩], false⟩

/-- `WalkTree::next`: the next item, `is_dir` set from it -/
def MState.pull (mn : Nat) (mx : Option Nat) (m : MState) : Option (Item × MState) :=
  match m.root with
  | some (it, d) => some (it, ⟨none, m.stack, d⟩)
  | none =>
    match next mn mx (stackSize m.stack) m.stack with
    | none => none
    | some (it, d, s') => some (it, ⟨none, s', d⟩)

/-- `WalkTree::cancel_walk_tree`: `if self.is_dir { self.input.skip_current_dir() }` — pops the
    directory walkdir has just pushed; `is_dir` is left as it is -/
def MState.cancel (m : MState) : MState := { m with stack := Walk.cancel m.isDir m.stack }

/-- a bound on the number of items still to come -/
def MState.size (m : MState) : Nat := (if m.root.isSome then 1 else 0) + stackSize m.stack

/-! ### separations with their payload -/

/-- what a `&dyn Entry` shows: the walkdir entry, and the pivot if it is a `GlobEntry` (0 for a
    `TreeEntry`); `root_relative_paths` splits the path at `depth + pivot` -/
structure Sub where
  entry : Entry
  pivot : Nat
deriving DecidableEq, Repr, Inhabited

/-- `Separation<(Result<T, WalkError>, TreeResidue<TreeEntry>)>` -/
inductive Sep where
  /-- `Filtrate(Ok(entry))` -/
  | filtrate (x : Sub)
  /-- `Filtrate(Err(error))` -/
  | error (names : List Str) (anon : Bool)
  /-- `Residue(TreeResidue::Node(entry))` -/
  | node (e : Entry)
  /-- `Residue(TreeResidue::Tree(entry))` -/
  | tree (e : Entry)
deriving DecidableEq, Repr, Inhabited

/-- `SeparatingFilterInput for WalkTree`: `self.next().map(Separation::from_inner_filtrate)` -/
def Sep.ofItem : Item → Sep
  | .ok e => .filtrate ⟨e, 0⟩
  | .err p a => .error p a

/-- the item of the machine a separation carries -/
def Sep.item : Sep → Item
  | .filtrate x => .ok x.entry
  | .error p a => .err p a
  | .node e => .ok e
  | .tree e => .ok e

/-- `Separation::filtrate()`: what `filter::filtrate` hands to the consumer -/
def Sep.yield? : Sep → Option Item
  | .filtrate x => some (.ok x.entry)
  | .error p a => some (.err p a)
  | _ => none

/-- the separation without its payload; `none` for an error filtrate -/
def Sep.state? : Sep → Option (Entry × Sepn)
  | .filtrate x => some (x.entry, .filtrate)
  | .error .. => none
  | .node e => some (e, .node)
  | .tree e => some (e, .tree)

/-! ### one adaptor -/

inductive Stage where
  /-- `FilterMapTree` with the closure of `GlobWalker::walk_with_behavior` (walk/glob.rs:275-391):
      `f` is the outcome of the component loop and the complete program on a `TreeEntry` -/
  | glob (pivot : Nat) (f : Entry → Verdict)
  /-- `Not` and `FilterEntry` (walk/mod.rs:664-686, 734-755): `f` is `FilterAny::residue` resp.
      the user's function, on the substituent -/
  | sub (f : Sub → Verdict)

/-- the outcome of the body of one adaptor's `feed` -/
structure Applied where
  sep : Sep
  /-- the separation whose substituent the function was called on, if it was called -/
  call : Option Sep
  /-- calls of `cancel_walk_tree` -/
  cancels : Nat
  m : MState

/-- `Not::feed` / `FilterEntry::feed` after `self.input.feed()`:
    `transpose_filtrate` passes an error filtrate on without calling the function; otherwise
    `filter_tree_by_substituent` calls `f(self.substituent())` — on a filtrate and on residue
    alike — and then (filter.rs:304-347, as repaired by 06499ed)
    * `None`: the separation is unchanged;
    * `Node`: `filter_map_node` — a filtrate becomes node residue (`From<T> for R` drops the pivot),
      residue is unchanged;
    * `Tree`: `filter_map_tree` — a filtrate and node residue become tree residue after
      `cancellation.cancel_walk_tree()`; tree residue is unchanged and nothing is cancelled. -/
def applySub (f : Sub → Verdict) (sep : Sep) (m : MState) : Applied :=
  match sep with
  | .error p a => ⟨.error p a, none, 0, m⟩
  | .filtrate x =>
    match f x with
    | .keep => ⟨.filtrate x, some (.filtrate x), 0, m⟩
    | .file => ⟨.node x.entry, some (.filtrate x), 0, m⟩
    | .tree => ⟨.tree x.entry, some (.filtrate x), 1, m.cancel⟩
  | .node e =>
    match f ⟨e, 0⟩ with
    | .keep => ⟨.node e, some (.node e), 0, m⟩
    | .file => ⟨.node e, some (.node e), 0, m⟩
    | .tree => ⟨.tree e, some (.node e), 1, m.cancel⟩
  | .tree e =>
    match f ⟨e, 0⟩ with
    | .keep => ⟨.tree e, some (.tree e), 0, m⟩
    | .file => ⟨.tree e, some (.tree e), 0, m⟩
    | .tree => ⟨.tree e, some (.tree e), 0, m⟩

/-- the `GlobWalker` closure: an error filtrate is passed on; an entry is matched and either mapped
    to a `GlobEntry` (which carries the pivot), or `filter_node()`, or `filter_tree(cancellation)`
    (`Filtrate::filter_map_tree`: cancel, then tree residue).  Its input is `WalkTree`, which yields
    no residue (`unreachable!()`, walk/glob.rs:287): residue is passed on untouched here, and
    `Spec.no_unreachable` (`Wax/Proofs/ChainRefines.lean`) shows that the arm is not reached. -/
def applyGlob (pivot : Nat) (f : Entry → Verdict) (sep : Sep) (m : MState) : Applied :=
  match sep with
  | .error p a => ⟨.error p a, none, 0, m⟩
  | .filtrate x =>
    match f x.entry with
    | .keep => ⟨.filtrate ⟨x.entry, pivot⟩, some (.filtrate x), 0, m⟩
    | .file => ⟨.node x.entry, some (.filtrate x), 0, m⟩
    | .tree => ⟨.tree x.entry, some (.filtrate x), 1, m.cancel⟩
  | .node e => ⟨.node e, none, 0, m⟩
  | .tree e => ⟨.tree e, none, 0, m⟩

def Stage.apply : Stage → Sep → MState → Applied
  | .glob pivot f => applyGlob pivot f
  | .sub f => applySub f

/-! ### the chain -/

/-- the adaptors of a walk, OUTERMOST first: the head is the adaptor the consumer holds, `[]` is
    `WalkTree` itself -/
abbrev Chain := List Stage

/-- what one `feed` of the outermost adaptor did -/
structure Obs where
  /-- the separation handed to the consumer -/
  sep : Sep
  /-- for every stage, INNERMOST first, the separation its function was called on during this
      feed, if it was called -/
  calls : List (Option Sep)
  /-- how often `cancel_walk_tree` reached `WalkTree` during this feed -/
  cancels : Nat
deriving DecidableEq, Repr

/-- `SeparatingFilter::feed`: the outermost adaptor pulls one separation from its input by `feed`
    and applies itself to it; `WalkTree` pulls walkdir -/
def Chain.feed (mn : Nat) (mx : Option Nat) : Chain → MState → Option (Obs × MState)
  | [], m =>
    match m.pull mn mx with
    | none => none
    | some (it, m') => some (⟨Sep.ofItem it, [], 0⟩, m')
  | st :: input, m =>
    match Chain.feed mn mx input m with
    | none => none
    | some (o, m') =>
      let r := st.apply o.sep m'
      some (⟨r.sep, o.calls ++ [r.call], o.cancels + r.cancels⟩, r.m)

/-- the trace of a consumer that feeds until the chain is exhausted.  Fuel: `m.size` suffices
    (`Chain.run_fuel`). -/
def Chain.run (mn : Nat) (mx : Option Nat) (c : Chain) : Nat → MState → List Obs
  | 0, _ => []
  | k + 1, m =>
    match c.feed mn mx m with
    | none => []
    | some (o, m') => o :: Chain.run mn mx c k m'

/-- `filter::filtrate`, the `Iterator::next` of the outermost adaptor: feed until a filtrate -/
def Chain.next (mn : Nat) (mx : Option Nat) (c : Chain) : Nat → MState → Option (Item × MState)
  | 0, _ => none
  | k + 1, m =>
    match c.feed mn mx m with
    | none => none
    | some (o, m') =>
      match o.sep.yield? with
      | some it => some (it, m')
      | none => Chain.next mn mx c k m'

/-- the consumer's loop: `next` until `None` -/
def Chain.collect (mn : Nat) (mx : Option Nat) (c : Chain) : Nat → MState → List Item
  | 0, _ => []
  | k + 1, m =>
    match c.next mn mx (k + 1) m with
    | none => []
    | some (it, m') => it :: Chain.collect mn mx c k m'

/-! ### reading a trace -/

/-- the separation the function of stage `j` (innermost = 0) was called on in a feed -/
def Obs.callOf (j : Nat) (o : Obs) : Option Sep := (o.calls[j]?).join

/-- the call log of the function of stage `j` over a trace -/
def callLog (j : Nat) (trace : List Obs) : List Sep := trace.filterMap (Obs.callOf j)

/-- the items pulled from `WalkTree` -/
def pulled (trace : List Obs) : List Item := trace.map (fun o => o.sep.item)

/-- the items the consumer receives -/
def yielded (trace : List Obs) : List Item := trace.filterMap (fun o => o.sep.yield?)

/-! ### the chains of the model's walks -/

/-- the function of a `Not` / `FilterEntry` layer on a substituent: `FilterAny::residue` matches
    `entry.root_relative_paths().1`, the harness function looks at the file name -/
def layerFn (π : Pipeline) : Layer → Sub → Verdict
  | .not p => fun x => p.residue π.σ (Path.splitAtDepth (π.path x.entry) (x.entry.depth + x.pivot)).2
  | .filter rules => fun x => ruleVerdict (Path.fileName (π.path x.entry)) rules

def globStage (π : Pipeline) : List Stage :=
  match π.glob with
  | some g => [.glob g.pivot (fun e => (globVerdict π.σ g (π.path e) e.depth).1)]
  | none => []

/-- the chain of a walk of the model: `π.layers` is innermost first -/
def ofPipeline (π : Pipeline) : Chain :=
  (π.layers.map (fun l => Stage.sub (layerFn π l))).reverse ++ globStage π

end Wax.Chain
