import Wax.Regex
import Wax.Text
/-!
The concrete instance of the *modelled* Unicode tables used by the executable driver: simple case
folding (`Sem.ceq`, what the `regex` crate does under `(?i)`) and `char::has_casing`
(`Casing.hasCasing`).  The theorems are stated for an arbitrary `Sem` / `Casing`; this instance is
only what the driver runs, and it is exact on the *driver alphabet* only.  The check validates
every character of that alphabet against regex-syntax and std on every run (harness command `FO`).
-/
namespace Wax

/-- fold key on the driver alphabet: ASCII and Latin-1 letters, and the special orbits
    {k, K, KELVIN SIGN}, {s, S, LONG S}, {ǆ, ǅ, Ǆ}, {σ, ς, Σ} -/
def foldKey (c : Char) : Nat :=
  let n := c.toNat
  if 0x41 ≤ n && n ≤ 0x5a then n + 0x20
  else if n == 0x212a then 0x6b
  else if n == 0x17f then 0x73
  else if (0xc0 ≤ n && n ≤ 0xde) && n != 0xd7 then n + 0x20
  else if n == 0x1c4 || n == 0x1c5 then 0x1c6
  else if n == 0x3a3 || n == 0x3c2 then 0x3c3
  else n

def drvCeq (a b : Char) : Bool := foldKey a == foldKey b

/-- the characters the generators may use in expressions and paths -/
def drvAlphabet : List Char :=
  "abcdefghijklmnopqrstuvwxyzABCDEFGHIJKLMNOPQRSTUVWXYZ0123456789 ._-~!@#%&=+;'\"\n\t/\\?*$:<>()[]{},^|".toList ++
  [Char.ofNat 0xe9, Char.ofNat 0xc9, Char.ofNat 0xdf, Char.ofNat 0x212a, Char.ofNat 0x17f,
   Char.ofNat 0x1c4, Char.ofNat 0x1c5, Char.ofNat 0x1c6, Char.ofNat 0x3c3, Char.ofNat 0x3c2, Char.ofNat 0x3a3,
   Char.ofNat 0x4e2d, Char.ofNat 0x6587, Char.ofNat 0x1f600, Char.ofNat 0x0, Char.ofNat 0x7f, Char.ofNat 0x10ffff]

/-- `char::has_casing` after the repair: some case mapping changes the character.  On the driver
    alphabet that is "has a fold partner, or is ß" (ß uppercases to SS) -/
def drvHasCasing (c : Char) : Bool :=
  drvAlphabet.any (fun d => d != c && drvCeq c d) || c.toNat == 0xdf

def drvSem : Sem := { ceq := drvCeq, dotall := true }
def drvCasing : Casing := ⟨drvHasCasing⟩

end Wax
