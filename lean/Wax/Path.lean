import Wax.Basic
/-!
`std::path` on unix as total functions on `Str`: components (with the rule that a `.` which is not
the very first component of a relative path is dropped), `join`, `is_absolute`, `file_name`, and
the two helpers of walk/mod.rs built on `ancestors` / `strip_prefix`: `split_at_depth` and
`join_and_get_depth` (with its off-by-one for absolute paths, reproduced as is).
-/
namespace Wax.Path
open Wax

inductive Comp where
  | root | cur | parent | normal (s : Str)
deriving DecidableEq, BEq, Repr, Inhabited

/-- the pieces between separators (`"a//b/"` gives `a`, ``, `b`, ``) -/
def splitSep : Str → List Str
  | [] => [[]]
  | c :: cs =>
    if c == '/' then [] :: splitSep cs
    else match splitSep cs with
      | p :: ps => (c :: p) :: ps
      | [] => [[c]]

/-- pieces with the offset (in characters) at which each starts -/
def piecesFrom (start : Nat) : List Str → List (Nat × Str)
  | [] => []
  | p :: ps => (start, p) :: piecesFrom (start + p.length + 1) ps

/-- the component a piece stands for, if any; `first` = it is the first piece of a relative path -/
def pieceComp (first : Bool) (s : Str) : Option Comp :=
  if s.isEmpty then none
  else if s == ['.'] then (if first then some .cur else none)
  else if s == ['.', '.'] then some .parent
  else some (.normal s)

def bodySpans (first : Bool) : List (Nat × Str) → List (Comp × Nat × Nat)
  | [] => []
  | (st, s) :: rest =>
    match pieceComp first s with
    | some c => (c, st, st + s.length) :: bodySpans false rest
    | none => bodySpans false rest

def isAbsolute (p : Str) : Bool := p.head? == some '/'

/-- `Path::components` with the character range `[start, end)` of each component in `p` -/
def compSpans (p : Str) : List (Comp × Nat × Nat) :=
  let body := bodySpans (!isAbsolute p) (piecesFrom 0 (splitSep p))
  if isAbsolute p then (.root, 0, 1) :: body else body

def components (p : Str) : List Comp := (compSpans p).map (·.1)

/-- the `Component::Normal` components, in order -/
def normals : List Comp → List Str
  | [] => []
  | .normal s :: cs => s :: normals cs
  | _ :: cs => normals cs

/-- `Path::join` (`PathBuf::push`) -/
def join (base p : Str) : Str :=
  if isAbsolute p then p
  else if base.isEmpty then p
  else if base.getLast? == some '/' then base ++ p
  else base ++ '/' :: p

/-- `Path::file_name` as lossy text, the empty string when there is none -/
def fileName (p : Str) : Str :=
  match (components p).getLast? with
  | some (.normal s) => s
  | _ => []

/-- end offset of the last component: `Components::as_path` trims what follows it -/
def trimEnd (p : Str) : Nat :=
  match (compSpans p).getLast? with
  | some (_, _, e) => e
  | none => 0

/-- the path covering the first `k` components (`ancestors().nth(n - k)` for `k < n`) -/
def takeComps (p : Str) (k : Nat) : Str :=
  match k with
  | 0 => []
  | k + 1 =>
    match (compSpans p)[k]? with
    | some (_, _, e) => p.take e
    | none => p.take (trimEnd p)

/-- what `strip_prefix` leaves after the first `k` components: trimmed on both sides -/
def dropComps (p : Str) (k : Nat) : Str :=
  match (compSpans p).drop k with
  | [] => []
  | (_, st, _) :: _ => (p.drop st).take (trimEnd p - st)

/-- `Path::ancestors`: the path itself, then the paths covering ever fewer components, down to
    `/` for an absolute path and to the empty path for a relative one -/
def ancestors (p : Str) : List Str :=
  let n := (components p).length
  let lower := if isAbsolute p then 1 else 0
  p :: ((List.range (n - lower)).reverse.map (fun i => takeComps p (i + lower)))

def isPrefixOf : List Comp → List Comp → Bool
  | [], _ => true
  | _ :: _, [] => false
  | a :: as, b :: bs => a == b && isPrefixOf as bs

/-- `Path::strip_prefix`: component-wise; what remains is trimmed on both sides -/
def stripPrefix (p base : Str) : Option Str :=
  if isPrefixOf (components base) (components p) then some (dropComps p (components base).length)
  else none

/-- `SplitAtDepth::split_at_depth`: `(ancestors().nth(depth).unwrap_or(""), strip_prefix(that))` -/
def splitAtDepth (p : Str) (depth : Nat) : Str × Str :=
  let ancestor := (ancestors p)[depth]?.getD []
  (ancestor, (stripPrefix p ancestor).getD [])

/-- `JoinAndGetDepth::join_and_get_depth` -/
def joinAndGetDepth (base p : Str) : Str × Nat :=
  let joined := join base p
  let depth := (components joined).length
  if isAbsolute p then (joined, depth + 1) else (joined, depth - (components base).length)

/-- the path walkdir reports for an entry: the root joined with the names below it, one by one -/
def joinAll (root : Str) : List Str → Str
  | [] => root
  | n :: ns => joinAll (join root n) ns

end Wax.Path
