import Wax.Regex
/-! Token trees of wax (token/mod.rs). -/
namespace Wax

structure Span where
  start : Nat
  len : Nat
deriving Repr, BEq, Inhabited

inductive Tok where
  | lit (sp : Span) (text : Str) (ci : Bool)
  | sep (sp : Span)
  | cls (sp : Span) (neg : Bool) (items : List Arch)
  | one (sp : Span)
  | zom (sp : Span) (lazy : Bool)
  | tree (sp : Span) (hasRoot : Bool)
  | alt (sp : Span) (branches : List Tok)      -- each branch is a `cat`
  | cat (sp : Span) (toks : List Tok)
  | rep (sp : Span) (body : Tok) (lo : Nat) (hi : Option Nat)
deriving Inhabited

def Tok.concatenation : Tok → List Tok
  | .cat _ ts => ts
  | t => [t]

def hexNat (n : Nat) : String := String.ofList (Nat.toDigits 16 n)

def hexStr (s : Str) : String :=
  if s.isEmpty then "-" else ".".intercalate (s.map (fun c => hexNat c.toNat))

def Span.dump (s : Span) : String := s!"@{s.start}+{s.len}"

partial def Tok.dump : Tok → String
  | .lit sp t ci => s!"(lit{sp.dump} {hexStr t} {if ci then 1 else 0})"
  | .sep sp => s!"(sep{sp.dump})"
  | .cls sp neg items =>
    let its := items.map fun
      | .chr c => s!" (c {hexNat c.toNat})"
      | .rng a b => s!" (r {hexNat a.toNat} {hexNat b.toNat})"
    s!"(cls{sp.dump} {if neg then 1 else 0}{String.join its})"
  | .one sp => s!"(one{sp.dump})"
  | .zom sp l => s!"(zom{sp.dump} {if l then "lazy" else "eager"})"
  | .tree sp r => s!"(tree{sp.dump} {if r then 1 else 0})"
  | .alt sp bs => s!"(alt{sp.dump}{String.join (bs.map (fun b => " " ++ b.dump))})"
  | .cat sp ts => s!"(cat{sp.dump}{String.join (ts.map (fun b => " " ++ b.dump))})"
  | .rep sp b lo hi =>
    let h := match hi with | none => "inf" | some n => toString n
    s!"(rep{sp.dump} {lo} {h} {b.dump})"

end Wax
