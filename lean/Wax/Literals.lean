import Wax.Partition
/-!
`Token::literals` / `Glob::has_semantic_literals` and `Glob::captures` (token/mod.rs, lib.rs).

`components` splits a token sequence at separators; a tree wildcard is a component of its own.  A
component that consists of literals only is a `LiteralSequence` (its text is the concatenation of
the literal texts); any other component is searched through its branch tokens, whose children are
split into components again (for an alternation the *list of alternatives* is split, as the code
does).  `has_semantic_literals` asks whether some literal sequence found this way is `.` or `..`;
the order of the search (a queue in the code) is irrelevant to that question.
-/
namespace Wax

/-- `LiteralSequence::is_semantic_literal` (unix / windows) -/
def isSemanticText (s : Str) : Bool := s == ['.'] || s == ['.', '.']

/-- a finished component: non-empty; all literals → test its text, otherwise the result of the
    search below its branch tokens -/
def semFinish (nonEmpty allLit : Bool) (text : Str) (sub : Bool) : Bool :=
  nonEmpty && (if allLit then isSemanticText text else sub)

mutual
  /-- `components([t])` for a single token (the child of a repetition, or a tree that is not a
      concatenation): a literal is a literal sequence, a branch token is searched -/
  def semOne : Tok → Bool
    | .lit _ s _ => isSemanticText s
    | .alt _ bs => semRun bs false true [] false
    | .cat _ ts => semRun ts false true [] false
    | .rep _ b _ _ => semOne b
    | _ => false
  /-- scan a token sequence, accumulating the current component: whether it is non-empty, all
      literals, its literal text, and the result of the search below its branch tokens -/
  def semRun : List Tok → Bool → Bool → Str → Bool → Bool
    | [], ne, al, tx, sub => semFinish ne al tx sub
    | .sep _ :: ts, ne, al, tx, sub => semFinish ne al tx sub || semRun ts false true [] false
    | .tree .. :: ts, ne, al, tx, sub => semFinish ne al tx sub || semRun ts false true [] false
    | .lit _ s _ :: ts, _, al, tx, sub => semRun ts true al (tx ++ s) sub
    | .cls .. :: ts, _, _, tx, sub => semRun ts true false tx sub
    | .one _ :: ts, _, _, tx, sub => semRun ts true false tx sub
    | .zom .. :: ts, _, _, tx, sub => semRun ts true false tx sub
    | .alt _ bs :: ts, _, _, tx, sub =>
      semRun ts true false tx (sub || semRun bs false true [] false)
    | .cat _ cs :: ts, _, _, tx, sub =>
      semRun ts true false tx (sub || semRun cs false true [] false)
    | .rep _ b _ _ :: ts, _, _, tx, sub => semRun ts true false tx (sub || semOne b)
end

/-- `Glob::has_semantic_literals`: the search starts from `token.concatenation()` -/
def hasSemanticLiterals : Tok → Bool
  | .cat _ ts => semRun ts false true [] false
  | t => semOne t

/-- `Token::is_capturing` -/
def Tok.isCapturing : Tok → Bool
  | .cls .. | .one _ | .zom .. | .tree .. | .alt .. | .rep .. => true
  | _ => false

def capturesFrom : Nat → List Tok → List (Nat × Span)
  | _, [] => []
  | i, t :: ts => if t.isCapturing then (i, t.span) :: capturesFrom (i + 1) ts else capturesFrom i ts

/-- `Glob::captures`: the capturing tokens of the top-level concatenation, numbered from 1 -/
def captures (t : Tok) : List (Nat × Span) := capturesFrom 1 t.concatenation

/-- `Glob::is_empty`: the tree is the empty literal (`Literal::EMPTY`) -/
def isEmptyTok : Tok → Bool
  | .lit _ s ci => s.isEmpty && !ci
  | _ => false

end Wax
