import Wax.Parse
import Wax.Encode
import Wax.RuleS
import Wax.Unicode
import Wax.Exec
import Wax.Hir
/-!
Driver command `M <exprhex> <pathhex>`: the captures `Glob::matched` reports, from the model:
parse, rule check, encode, normalise as `regex-syntax` does (`Re.hirNorm`: this is where a common
prefix of the branches of an alternation is factored out), run the leftmost-first semantics.
`M0` is the same without the normalisation (leftmost-first on the pattern as printed).
-/
namespace Wax

/-- `-` = empty, else scalar values in hex joined by `.` -/
def cmdUnhex (s : String) : Str :=
  if s == "-" then [] else
  (s.splitOn ".").map fun h =>
    let n := h.toList.foldl (fun a c =>
      let d := if c.isDigit then c.toNat - '0'.toNat else c.toNat - 'a'.toNat + 10
      a * 16 + d) 0
    Char.ofNat n

/-- simple case folding orbit on the driver alphabet (`ß` folds with U+1E9E, which is outside it) -/
def drvOrbit (c : Char) : List Char :=
  (drvAlphabet.filter (fun d => drvCeq c d)).eraseDups ++ (if c.toNat == 0xdf then [Char.ofNat 0x1e9e] else [])

def capStr : Option Str → String
  | some t => "s:" ++ hexStr t
  | none => "n"

/-- `err` | `nomatch` | `match <cap 0> … <cap n+1>`, `n` = number of capturing tokens; the last index
    is out of range and always `n` -/
def cmdMWith (norm : Bool) (exprHex pathHex : String) : String :=
  match parse (cmdUnhex exprHex) with
  | .err _ => "err"
  | .ok t =>
    if !checkS t then "err" else
    let r := encodeTop t
    let r := if norm then r.hirNorm drvOrbit drvSem else r
    match r.exec drvSem (cmdUnhex pathHex) with
    | none => "nomatch"
    | some caps => "match " ++ " ".intercalate (caps.map capStr ++ ["n"])

def cmdM (exprHex pathHex : String) : String := cmdMWith true exprHex pathHex

/-- leftmost-first captures of the pattern as printed (no prefix factoring) -/
def cmdM0 (exprHex pathHex : String) : String := cmdMWith false exprHex pathHex

/-- `N <exprhex>`: the normalised pattern -/
def cmdN (exprHex : String) : String :=
  match parse (cmdUnhex exprHex) with
  | .err _ => "err"
  | .ok t => "ok " ++ hexStr ((encodeTop t).hirNorm drvOrbit drvSem).print.toList

end Wax
