import Wax.Behavior
import Wax.Walk
import Wax.Parse
import Wax.RuleS
/-!
Driver commands for the walk model: `W` (a walk over a recorded tree), `WP` (root, pivot and
component programs), `NP` (the programs of a negation).  Line formats as the harness `waxh`.
-/
namespace Wax
open Wax.Path Wax.Walk

namespace Cmd

def unhex (s : String) : Str :=
  if s == "-" then [] else
  (s.splitOn ".").map fun h =>
    let n := h.toList.foldl (fun a c =>
      let d := if c.isDigit then c.toNat - '0'.toNat else c.toNat - 'a'.toNat + 10
      a * 16 + d) 0
    Char.ofNat n

/-- `Glob::new`: parse, then the rules -/
def build (e : Str) : Option Tok :=
  match parse e with
  | .ok t => if checkS t then some t else none
  | .err _ => none

def buildAll : List Str → Option (List Tok)
  | [] => some []
  | e :: es =>
    match build e, buildAll es with
    | some t, some ts => some (t :: ts)
    | _, _ => none

/-- the token a `not` receives: one expression, or `any([..])` of several -/
def notToken (es : List Str) : Option Tok :=
  match es with
  | [e] => build e
  | _ => (buildAll es).map (fun ts => Tok.alt ⟨0, 0⟩ ts)

def optNat (s : String) : Option Nat := if s == "-" then none else s.toNat?

def joinOr (sep : String) (l : List String) : String := if l.isEmpty then "-" else sep.intercalate l

/-- rebuild the children at `depth` from the pre-order list of `(depth, kind, name)`; the fuel is
    the length of the list (every call consumes an element) -/
def buildTree : Nat → Nat → List (Nat × String × Str) → List RNode × List (Nat × String × Str)
  | 0, _, rest => ([], rest)
  | _ + 1, _, [] => ([], [])
  | fuel + 1, depth, (d, k, name) :: rest =>
    if d < depth then ([], (d, k, name) :: rest)
    else
      let (kids, rest) : List RNode × List (Nat × String × Str) :=
        if k == "d" || k == "lt" then buildTree fuel (depth + 1) rest else ([], rest)
      let node : RNode :=
        if k == "d" then .dir name kids
        else if k == "lt" then .linkDir name kids
        else if k == "u" then .unreadable name
        else if k == "ld" then .linkDangling name
        else if k == "lf" then .linkFile name
        else if k == "lc" then .linkCycle name
        else if k == "lu" then .linkUnreadable name
        else .file name
      let (sibs, rest) := buildTree fuel depth rest
      (node :: sibs, rest)

def parseRec (s : String) : List RNode :=
  if s == "-" then [] else
  let entries := (s.splitOn ";").filterMap fun e =>
    match e.splitOn ":" with
    | [d, k, n] => some (d.toNat!, k, unhex n)
    | _ => none
  (buildTree entries.length 1 entries).1

def parseLayer (s : String) : Option Layer :=
  match s.splitOn ":" with
  | ["n", es] => (notToken ((es.splitOn "+").map unhex)).map (fun t => Layer.not (notProgram t))
  | ["f", rs] =>
    some (.filter ((rs.splitOn ",").filterMap fun r =>
      if r.isEmpty || r == "-" then none else
      match r.splitOn "=" with
      | [n, v] => some (unhex n, v == "T")
      | _ => none))
  | _ => none

def parseStack (s : String) : Option (List Layer) :=
  if s == "-" then some [] else
  (s.splitOn ";").foldr (fun l acc =>
    match parseLayer l, acc with
    | some x, some xs => some (x :: xs)
    | _, _ => none) (some [])

def kindLetter : Kind → String | .d => "d" | .f => "f" | .l => "l"

def showItem (π : Pipeline) : Item → Option String
  | .err names anon =>
    some s!"err:{if anon then "-" else hexStr (joinAll π.root names)}:{names.length}"
  | .ok e =>
    if (π.decide e).1 = .filtrate then
      let path := π.path e
      let (rootSeg, rel) := splitAtDepth path (e.depth + π.pivot)
      let common := s!"ok:{hexStr path}:{hexStr rootSeg}:{hexStr rel}:{e.depth + π.pivot}:{kindLetter e.kind}"
      some (match π.glob with
        | some _ => s!"{common}:{hexStr rel}:{hexStr rel}"
        | none => common)
    else none

def showLog (π : Pipeline) : Item → Option String
  | .ok e => some s!"{hexStr (π.path e)}:{if e.isDir then 1 else 0}"
  | .err .. => none

end Cmd

open Cmd

/-- the minimum field of a walk request names the constructor the behaviour is built with:
    no letter `DepthBehavior::bounded` (or `Unbounded` when both are open), `x`
    `DepthMinMax::from_depths_or_max`, `m` `DepthMin::from_min_or_unbounded`, `v<min>@<lower>`
    `DepthBehavior::bounded_at_depth_variance` with the lower depth of the pattern -/
def parseRoute (minS : String) : DepthBehavior.Route × String :=
  match minS.toList with
  | 'x' :: r => (.depthsOrMax, String.ofList r)
  | 'm' :: r => (.minOrUnbounded, String.ofList r)
  | 'v' :: r =>
    match (String.ofList r).splitOn "@" with
    | [a, l] => (.atVariance (l.toNat?.getD 0), a)
    | _ => (.atVariance 0, String.ofList r)
  | _ => (.bounded, minS)

def behaviourOf (minS maxS : String) : Option DepthBehavior :=
  let (route, mnS) := parseRoute minS
  DepthBehavior.ofRoute route (optNat mnS) (optNat maxS)

/-- `W <mode> <base> <expr> <link> <min> <max> <stack> <root> <rec>`; with `stats` the number of
    entries that cancelled the walk of a directory is appended (for the coverage histogram) -/
def cmdWith (stats : Bool) (args : List String) : String :=
  match args with
  | [mode, baseH, exprH, linkS, minS, maxS, stackS, rootH, recS] =>
    let follow := linkS == "t"
    -- the harness rejects the depth bounds before anything else
    let glob? : Option (Option Tok) := if mode == "g" then (build (unhex exprH)).map some else some none
    -- `bounded_at_depth_variance` needs the glob: its build error comes first on that route
    if minS.startsWith "v" && glob?.isNone then "globerr" else
    match behaviourOf minS maxS with
    | none => "depthnone"
    | some behaviour =>
    match glob? with
    | none => "globerr"
    | some glob =>
    match parseStack stackS with
    | none => "noterr"
    | some layers =>
      let base := unhex baseH
      let rootPath := unhex rootH
      let (walkRoot, prog) : Str × Option GlobProgram :=
        match glob with
        | some t =>
          let (r, pivot) := anchor drvCasing t base
          (r, some ⟨encodeTop t, walkPrograms t, pivot⟩)
        | none => (base, none)
      let π : Pipeline := { σ := drvSem, root := walkRoot, glob := prog, layers := layers }
      match some (behaviour.atPivot π.pivot) with
      | none => "depthnone"
      | some (mn, mx) =>
        let absolute : Option Str :=
          if isAbsolute walkRoot then some walkRoot
          else if walkRoot.isEmpty then none
          else some (rootPath ++ '/' :: walkRoot)
        let rv : Option RootView :=
          match absolute.bind (resolve rootPath (parseRec recS)) with
          | none => some (.err false)
          | some (node, final) => rootView follow final node
        match rv with
        | none => "unsupported"
        | some rv =>
          let items := π.items mn mx rv
          let nfilters := (layers.filter (fun l => match l with | .filter _ => true | _ => false)).length
          let log := joinOr ";" (items.filterMap (showLog π))
          let logs := if nfilters == 0 then "-" else "|".intercalate (List.replicate nfilters log)
          let cancelled := (items.filter (fun i => match i with
            | .ok e => e.isDir && π.cancels e
            | _ => false)).length
          s!"items={joinOr ";" (items.filterMap (showItem π))} logs={logs}" ++
            (if stats then s!" cancelled={cancelled}" else "")
  | _ => "bad-args"

def cmdW (args : List String) : String :=
  match args with
  | [a1, a2, a3, a4, a5, a6, a7, a8, a9, "s"] => cmdWith true [a1, a2, a3, a4, a5, a6, a7, a8, a9]
  | _ => cmdWith false args

/-- `WP <base> <expr>` -/
def cmdWP (args : List String) : String :=
  match args with
  | [baseH, exprH] =>
    match build (unhex exprH) with
    | none => "globerr"
    | some t =>
      let (root, pivot) := anchor drvCasing t (unhex baseH)
      s!"root={hexStr root} pivot={pivot} progs={joinOr ";" ((walkPrograms t).map (fun r => hexStr (programText r).toList))}"
  | _ => "bad-args"

/-- `NP <k> <e1> .. <ek>` -/
def cmdNP (args : List String) : String :=
  match args with
  | _ :: es =>
    if es.isEmpty then "bad-args" else
    match notToken (es.map unhex) with
    | none => "err"
    | some t =>
      let p := notProgram t
      let sh : Option Re → String := fun r => match r with
        | some r => hexStr (programText r).toList
        | none => "none"
      s!"ex={sh p.exhaustive} nx={sh p.nonexhaustive}"
  | _ => "bad-args"

end Wax
