import Wax.Cmd.Frag
import Wax.Proofs.ExhSound
import Wax.Proofs.TextMatches
import Wax.Proofs.DepthFlat
import Wax.Proofs.Escape
import Wax.Generated
import Wax.RuleS
import Wax.Proofs.RuleSpecEquiv
import Wax.Proofs.DepthTree
import Wax.Proofs.ExhShape
import Wax.Proofs.PartitionAll
import Wax.Proofs.DepthBranchTree
/-! Executable fragment tests of the query theorems (`exhaustive_sound_partial`,
`depth_sound_partial`, `text_exact`), used as classifiers by the checks. -/
namespace Wax

/-- the fragment of `exhaustive_sound_branch_partial` (`F09b`, which contains `F09a`) plus `F01` for
    the compiled program; second field: is the conclusion also proved for the matched paths "" and
    "/" (`exhaustive_beneath_root` / `exhaustive_beneath_branch_root`: `emptyOkS`/`rootOkS` when the
    last token is a tree wildcard, `nonRootS` otherwise) -/
def cmdF09 (t : Tok) : String :=
  let ts := t.concatenation
  let own : List String :=
    if F09b ts then [] else
    match lastTok ts with
    | none => []
    | some l =>
      match l with
      | .sep _ => ["K-EXH-LAST-SEP"]
      | .zom .. => ["K-EXH-LAST-ZOM"]
      | _ => ["K-EXH-LAST-BRANCH"]
  let rootOk : Bool := match lastTok ts with
    | some l => (isTreeTok l && emptyOkS ts && rootOkS ts) || nonRootS ts
    | none => false
  showFrag (own ++ encTags t) ++ (if rootOk then " root-ok" else " root-open")

/-- hypothesis of `text_exact_compiled` -/
def cmdF11 (t : Tok) : String :=
  showFrag ((if wellT t then [] else ["K-TEXT-SEPCLASS"]) ++ encTags t)

def splitRuns : List Tok → List (List Tok)
  | [] => [[]]
  | .sep _ :: ts => [] :: splitRuns ts
  | t :: ts => match splitRuns ts with
    | r :: rs => (t :: r) :: rs
    | [] => [[t]]

/-- hypotheses of `depth_sound_partial`: runs of literals, classes and wildcards joined by
separators, every run empty (only at either end) or containing a token that cannot match "" -/
def cmdF10 (t : Tok) : String :=
  -- `depth_sound_branch_tree_partial`: `F10c` contains the flat fragments of `depth_sound_partial` and
  -- `depth_sound_tree_partial` and the branch fragments of `DepthBranch` / `DepthBranchTree`
  if F10c t then showFrag (encTags t) else
  let ts := t.concatenation
  let isRun : Tok → Bool := fun x => match x with | .lit .. | .cls .. | .one _ | .zom .. => true | _ => false
  let isSp : Tok → Bool := fun x => match x with | .sep _ => true | _ => false
  let own : List String :=
    if !ts.all (fun x => isRun x || isSp x) then
      (if ts.all (fun x => match x with | .alt .. | .rep .. | .cat .. => false | _ => true) then
        (if flatTreeOk ts then [] else ["K-DEPTH-TREE"])      -- `depth_sound_tree_partial`
       else ["K-DEPTH-BRANCH"])
    else
      let runs := splitRuns ts
      let n := runs.length
      let midOk := ((List.range n).zip runs).all (fun (i, r) => (i == 0 || i + 1 == n) || !r.isEmpty)
      let solidOk := runs.all (fun r => r.isEmpty || r.any solid)
      if !midOk then ["K-DEPTH-ADJACENT-SEP"] else if !solidOk then ["K-DEPTH-NULLABLE"] else []
  showFrag (own ++ encTags t)

/-- hypothesis of `partition_lang_all_partial` (`partOk`), plus `F01` of the glob and of the postfix
    for the compiled programs -/
def cmdFP (κ : Casing) (t : Tok) : String :=
  let own : List String :=
    if partOk κ t then [] else
    if firstRootedVariant κ t.concatenation then ["K-PART-ROOTED-BRANCH"]
    else if !wellL (cutToks κ t) then ["K-PART-SEPCLASS"]
    else if !keptUnrooted κ t then ["K-PART-ROOTED-BRANCH"]
    else ["K-PART-LEAD-TREE"]
  let post : List String := match (partition κ t).2.2 with
    | some q => encTags q
    | none => []
  showFrag (own ++ encTags t ++ post)

def cmdESC (s : Str) : String :=
  let bits : String := String.ofList (s.map fun c =>
    match Generated.metaChars.contains c, Generated.contextualMetaChars.contains c with
    | true, true => 'B' | true, false => 'M' | false, true => 'C' | false, false => '-')
  s!"escaped={hexStr (escape s)} meta={if bits.isEmpty then "-" else bits}"

end Wax

namespace Wax

mutual
  /-- some repetition that can iterate twice has a branch token as first or last token of its body:
      the site of finding K-RULE-REP-NESTED (`check_repetition` looks at leaf terminals only) -/
  def repBranchTerminal : Tok → Bool
    | .alt _ bs => repBranchTerminalL bs
    | .cat _ ts => repBranchTerminalL ts
    | .rep _ b _ hi =>
      ((match hi with | some h => decide (2 ≤ h) | none => true) &&
        (match terminals b.concatenation with
          | some ts => ts.start.isBranchT || ts.end_.isBranchT
          | none => false)) || repBranchTerminal b
    | _ => false
  def repBranchTerminalL : List Tok → Bool
    | [] => false
    | t :: ts => repBranchTerminal t || repBranchTerminalL ts
end

/-- the fragment of `build_eq_wfSpec_partial` (the structural verdict EQUALS the declarative rules):
    outside `repsSafe` the listed finding K-RULE-REP-NESTED, outside `onceOpen` the listed finding
    K-RULE-ONCE-REP (a once-only repetition whose body starts and ends with a boundary is rejected) -/
def cmdF06 (t : Tok) : String :=
  showFrag ((if AdjN.repsSafe Tok.isBoundaryT t then [] else ["K-RULE-REP-NESTED"]) ++
            (if AdjN.onceOpen Tok.isBoundaryT t then [] else ["K-RULE-ONCE-REP"]))

/-! `NV <op> <lhs> <rhs>`: one operation of the variance algebra on canonical text forms (the crate's
`verif_variance_op` hook): `inv:N`, `unb`, `lower:N`, `upper:N`, `both:LOWER:EXTENT`. -/

def parseNVarFields (fs : List String) : Option (Sum NVar Unit) :=
  match fs with
  | ["inv", n] => n.toNat?.map (fun k => .inl (.inv k))
  | ["unb"] => some (.inl .unb)
  | ["lower", n] => n.toNat?.bind (fun k => if k == 0 then none else some (.inl (.bnd (.lower k))))
  | ["upper", n] => n.toNat?.bind (fun k => if k == 0 then none else some (.inl (.bnd (.upper k))))
  | ["both", a, b] => match a.toNat?, b.toNat? with
    | some x, some y => if x == 0 || y == 0 then none else some (.inl (.bnd (.both x y)))
    | _, _ => none
  | _ => none

def parseNVar (s : String) : Option NVar :=
  match parseNVarFields (s.splitOn ":") with
  | some (.inl v) => some v
  | _ => none

def NVar.toRange : NVar → NRange
  | .inv n => .inv n
  | .unb => .var .unbounded
  | .bnd r => .var (.bounded r)

def showNVar : NVar → String
  | .inv n => s!"inv:{n}"
  | .unb => "unb"
  | .bnd (.lower n) => s!"lower:{n}"
  | .bnd (.upper n) => s!"upper:{n}"
  | .bnd (.both a b) => s!"both:{a}:{b}"

def showPN : P NVar → String
  | .ok v => showNVar v
  | .error e => "panic:" ++ e

def cmdNV (op l r : String) : String :=
  match parseNVar l, parseNVar r with
  | some a, some b =>
    match op with
    | "conj" => showPN (a.conj b)
    | "disj" => showPN (a.disj b)
    | "prod" => showPN (a.prod b.toRange)
    | "upper" => toString a.hasUpper
    | _ => "bad-op"
  | _, _ => "bad-args"

end Wax
