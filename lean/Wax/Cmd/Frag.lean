import Wax.Fragment
/-!
Site tags: for a tree outside `F01`, *which* tagged-defective sites of the encoder it goes through.
Only a classifier (it maps a failure to a listed finding); the theorem hypothesis is `F01` itself.
A tree outside `F01` with no tag is reported as unattributed, i.e. as a violation.
-/
namespace Wax

def treeTag (inRep : Bool) (sup : Option Pos) (p : Pos) (hasRoot : Bool) : String :=
  if inRep then "K-ENC-SUPERPOSITION-REP"
  else if p == .first && !supMidLast sup && hasRoot then "K-ENC-ROOTED-FIRST"
  else "K-ENC-SUPERPOSITION"

mutual
  def tagsTok (inRep : Bool) (sup : Option Pos) (p : Pos) (c : Ctx) : Tok → List String
    | .cls _ _ items => if classValid items then [] else ["K-ENC-CLASS-REVERSED"]
    | .tree _ hasRoot => if treeOk sup p c hasRoot then [] else [treeTag inRep sup p hasRoot]
    | .alt _ bs => tagsBranches inRep (supOr sup p) c bs
    | .rep _ body _ hi =>
      let go (r : Bool) (c : Ctx) : List String := match body with
        | .cat _ ts => tagsList r (supOr sup p) c ts 0 ts.length
        | other => tagsTok r (supOr sup p) .only c other
      go inRep c ++ (if iterates hi then go true ⟨c.first, false⟩ ++ go true ⟨false, false⟩ ++ go true ⟨false, c.last⟩ else [])
    | .cat _ ts => tagsList inRep sup c ts 0 ts.length
    | _ => []
  def tagsList (inRep : Bool) (sup : Option Pos) (c : Ctx) : List Tok → Nat → Nat → List String
    | [], _, _ => []
    | t :: ts, i, n =>
      tagsTok inRep sup (posOf i n) ⟨c.first && i == 0, c.last && i + 1 == n⟩ t ++ tagsList inRep sup c ts (i + 1) n
  def tagsBranches (inRep : Bool) (sup : Option Pos) (c : Ctx) : List Tok → List String
    | [] => []
    | b :: bs =>
      (match b with
        | .cat _ ts => tagsList inRep sup c ts 0 ts.length
        | other => tagsTok inRep sup .only c other) ++ tagsBranches inRep sup c bs
end

def f01Tags (t : Tok) : List String :=
  (match t with
  | .cat _ ts => tagsList false none ⟨true, true⟩ ts 0 ts.length
  | other => tagsTok false none .only ⟨true, true⟩ other).eraseDups

def cmdF (t : Tok) : String :=
  if F01 t then "in" else
    let tags := f01Tags t
    "out:" ++ (if tags.isEmpty then "UNATTRIBUTED" else ",".intercalate tags)

end Wax

namespace Wax

/-- tags of a tree outside the fragment of a query theorem that needs the encoder to be faithful -/
def encTags (t : Tok) : List String := if F01 t then [] else
  let tags := f01Tags t
  if tags.isEmpty then ["UNATTRIBUTED"] else tags

def showFrag (tags : List String) : String :=
  if tags.isEmpty then "in" else "out:" ++ ",".intercalate tags

end Wax
