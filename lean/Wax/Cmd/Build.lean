import Wax.Parse
import Wax.Encode
import Wax.Query
import Wax.Text
import Wax.DepthFold
import Wax.ExhFold
import Wax.Rule
import Wax.Literals
import Wax.Unicode
import Wax.Nest
/-!
The `B` (build) line of the model driver: what `Glob::new` answers for an expression, printed in
the format of the harness (`waxh`): parse errors with their spans, the rule error that fires first
with its span, or the token tree, the pattern text and every query.
-/
namespace Wax

def unhexStr (s : String) : Str :=
  if s == "-" then [] else
  (s.splitOn ".").map fun h =>
    let n := h.toList.foldl (fun a c =>
      let d := if c.isDigit then c.toNat - '0'.toNat else c.toNat - 'a'.toNat + 10
      a * 16 + d) 0
    Char.ofNat n

/-- UTF-8 width of the character that starts at byte offset `loc` (0 at the end of input):
    `ErrorEntry::span` -/
def widthAt : Str → Nat → Nat
  | [], _ => 0
  | c :: cs, loc => if loc < c.utf8Size then (if loc == 0 then c.utf8Size else 0) else widthAt cs (loc - c.utf8Size)

def commaJoin (l : List String) : String := ",".intercalate l

def whenStr : When → String
  | .always => "always" | .sometimes => "sometimes" | .never => "never"

def depthStr : NVar → String
  | .inv n => s!"inv_{n}"
  | .unb => "unb"
  | .bnd r =>
    let lo := match r.lowerB with | .bnd n => toString n | _ => "-"
    let hi := match r.upperB with | .ok (.bnd n) => toString n | _ => "-"
    s!"rng_{lo}_{hi}"

/-- what evaluating `variance::<Text>` costs in the implementation: a repetition with an
    invariant count clones the fragments of an invariant body (`Text::repeated`), which panics
    when the fragment count overflows and is not reproducible when it is merely enormous -/
inductive Risk where | fine | panic | huge
deriving DecidableEq

def Risk.worst : Risk → Risk → Risk
  | .huge, _ => .huge | _, .huge => .huge
  | .panic, _ => .panic | _, .panic => .panic
  | .fine, .fine => .fine

def repRisk (κ : Casing) (body : Tok) (lo : Nat) (hi : Option Nat) : Risk :=
  match textTok κ body, NRange.fromClosedOpen lo hi with
  | .inv fs, .inv n =>
    if n == 0 then .fine
    else if (n - 1) * fs.length ≥ usizeLim then .panic
    else if n * fs.length > 65536 then .huge
    else .fine
  | _, _ => .fine

mutual
  def textRisk (κ : Casing) : Tok → Risk
    | .alt _ bs => textRiskL κ bs
    | .cat _ ts => textRiskL κ ts
    | .rep _ b lo hi => match textRisk κ b with | .fine => repRisk κ b lo hi | r => r
    | _ => .fine
  def textRiskL (κ : Casing) : List Tok → Risk
    | [] => .fine
    | t :: ts => (textRisk κ t).worst (textRiskL κ ts)
end

def textStr (κ : Casing) (t : Tok) : String :=
  match textRisk κ t with
  | .panic => "panic"
  | .huge => "huge"
  | .fine =>
    match textTok κ t with
    | .inv fs => "inv:" ++ hexStr (fragsToStr fs)
    | _ => "var"

def queriesStr (t : Tok) : String :=
  let root := whenStr (hasRoot t)
  let exh := match isExhaustive t with | .ok w => whenStr w | .error _ => "panic"
  let depth := match depthVariance t with | .ok d => depthStr d | .error _ => "panic"
  s!"root={root} exh={exh} depth={depth} text={textStr drvCasing t}"

def capsStr (t : Tok) : String :=
  commaJoin ((captures t).map fun (i, s) => s!"{i}:{s.start}+{s.len}")

/-- `encode::compile` panics ("failed to compile glob") on any error of the regular expression
    engine other than `CompiledTooBig`; the one such error a checked tree can provoke is a
    repetition count that does not fit `u32` (regex-syntax: "repetition count is too big") -/
def u32Max : Nat := 4294967295

mutual
  def compilePanics : Tok → Bool
    | .alt _ bs => compilePanicsL bs
    | .cat _ ts => compilePanicsL ts
    | .rep _ b lo hi => decide (lo > u32Max) || decide (hi.getD 0 > u32Max) || compilePanics b
    | _ => false
  def compilePanicsL : List Tok → Bool
    | [] => false
    | t :: ts => compilePanics t || compilePanicsL ts
end

/-- the full `B` line -/
def buildLine (e : Str) : String :=
  match parse e with
  | .err locs => s!"err parse [{commaJoin (locs.map fun l => s!"{l}+{widthAt e l}")}]"
  | .ok t =>
    match check t with
    | .error _ => "panic"
    | .ok (some (k, sp)) => s!"err rule:{k.code} [{sp.start}+{sp.len}]"
    | .ok none =>
      -- a repetition bound beyond u32 or a nesting depth beyond the regex parser's limit: `compile` reports an
      -- oversized program (until repair 13 this was the panic "failed to compile glob")
      if compilePanics t || nestPanics t then "err compile []" else
      s!"ok {t.dump} | {hexStr (compilePattern t).toList} | {queriesStr t} sem={if hasSemanticLiterals t then 1 else 0} empty={if isEmptyTok t then 1 else 0} caps=[{capsStr t}]"

def cmdB (exprHex : String) : String := buildLine (unhexStr exprHex)

end Wax
