import Wax.Generated
/-! GENERATED from the Rust sources by tools/extract.py; do not edit. -/
namespace Wax.Generated

inductive W where | always | sometimes | never deriving DecidableEq, Repr
def whenAnd : List (W × W × W) := [(.always, .always, .always), (.always, .sometimes, .sometimes), (.always, .never, .never), (.sometimes, .always, .sometimes), (.sometimes, .sometimes, .sometimes), (.sometimes, .never, .never), (.never, .always, .never), (.never, .sometimes, .never), (.never, .never, .never)]
def whenOr : List (W × W × W) := [(.always, .always, .always), (.always, .sometimes, .always), (.always, .never, .always), (.sometimes, .always, .always), (.sometimes, .sometimes, .sometimes), (.sometimes, .never, .sometimes), (.never, .always, .always), (.never, .sometimes, .sometimes), (.never, .never, .never)]
def whenCertainty : List (W × W × W) := [(.always, .always, .always), (.always, .sometimes, .sometimes), (.always, .never, .sometimes), (.sometimes, .always, .sometimes), (.sometimes, .sometimes, .sometimes), (.sometimes, .never, .sometimes), (.never, .always, .sometimes), (.never, .sometimes, .sometimes), (.never, .never, .never)]

end Wax.Generated
