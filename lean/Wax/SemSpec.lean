import Wax.Syntax
/-!
Semantic literals, structurally (the specification side of C12's last clause): some component, at
any nesting depth, all of whose tokens are literals spelling `.` or `..`.  A component is a maximal
run of tokens between component boundaries (separators, tree wildcards) of one concatenation; the
children of a branch token form concatenations of their own.
-/
namespace Wax

def Tok.isLitT : Tok → Bool | .lit .. => true | _ => false
def Tok.litText : Tok → Str | .lit _ s _ => s | _ => []
def Tok.isBoundaryS : Tok → Bool | .sep _ | .tree .. => true | _ => false

/-- maximal boundary-free runs (tree wildcards are components of their own and never literal) -/
def splitComps : List Tok → List (List Tok)
  | [] => [[]]
  | t :: ts =>
    if t.isBoundaryS then [] :: splitComps ts
    else match splitComps ts with
      | c :: cs => (t :: c) :: cs
      | [] => [[t]]

def isSemComp (c : List Tok) : Bool :=
  !c.isEmpty && c.all Tok.isLitT &&
    (let s := (c.map Tok.litText).flatten; s == ['.'] || s == ['.', '.'])

mutual
  def semTok : Tok → Bool
    | .alt _ bs => semToks bs
    | .cat _ ts => semList ts
    | .rep _ b _ _ => semTok b
    | _ => false
  /-- some token of the list has a semantic literal inside it -/
  def semToks : List Tok → Bool
    | [] => false
    | t :: ts => semTok t || semToks ts
  /-- a concatenation: one of its components is semantic, or a branch token inside it has one -/
  def semList (ts : List Tok) : Bool := (splitComps ts).any isSemComp || semToks ts
end

def semSpec (t : Tok) : Bool := semList t.concatenation

end Wax
