import Wax.Syntax
/-! `Token::has_root` (token/mod.rs:508-546) as structural recursion. -/
namespace Wax

inductive When where | always | sometimes | never
deriving DecidableEq, Repr, Inhabited

def When.or : When → When → When
  | .always, _ => .always | _, .always => .always
  | .sometimes, _ => .sometimes | _, .sometimes => .sometimes
  | .never, .never => .never
def When.and : When → When → When
  | .never, _ => .never | _, .never => .never
  | .sometimes, _ => .sometimes | _, .sometimes => .sometimes
  | .always, .always => .always
def When.certainty : When → When → When
  | .always, .always => .always
  | .never, .never => .never
  | _, _ => .sometimes

/-- `repetition.variance().lower().into_bound().is_unbounded()` -/
def lowerUnbounded (lo : Nat) (hi : Option Nat) : Bool :=
  match hi with
  | none => lo == 0
  | some h => (min lo h == 0) && (max lo h != 0)

mutual
  /-- the `IsRooting` fold with the `Starting` sequencer -/
  def rootTok : Tok → Option When
    | .sep _ => some .always
    | .tree _ r => some (if r then .always else .never)
    | .lit .. => some .never
    | .cls .. => some .never
    | .one _ => some .never
    | .zom .. => some .never
    | .alt _ bs => rootBranches bs
    | .cat _ ts => rootFirst ts
    | .rep _ body lo hi =>
      match rootTok body with
      | some x => some (if lowerUnbounded lo hi then x.and .sometimes else x)
      | none => none
  /-- a conjunctive branch looks at its first child only -/
  def rootFirst : List Tok → Option When
    | [] => none
    | t :: _ => rootTok t
  /-- a disjunctive branch reduces its children with `certainty` -/
  def rootBranches : List Tok → Option When
    | [] => none
    | b :: bs =>
      match rootTok b, rootBranches bs with
      | some x, some y => some (x.certainty y)
      | some x, none => some x
      | none, y => y
end

def hasRoot (t : Tok) : When := (rootTok t).getD .never

end Wax
