import Wax.DepthFold
/-!
Size variance (`Token::variance::<Size>`, token/mod.rs): the general fold with the `Forward`
sequencer as structural recursion.  Concatenations reduce with `conjunction`, alternations with
`disjunction`, repetitions multiply the term of their body by their bounds.  Arithmetic overflow
panics are `Except.error` (`P`).
-/
namespace Wax

def utf8Len : Str → Nat
  | [] => 0
  | c :: cs => c.utf8Size + utf8Len cs

/-- `Class::term` for `Size`: the archetype terms (all `Invariant(4)`) reduced with `disjunction`,
    `Zero::zero` for an empty class -/
def classSize : List Arch → NVar
  | [] => .inv 0
  | _ :: _ => .inv 4

mutual
  def sizeTok : Tok → P (Option NVar)
    | .alt _ bs => do reduceP NVar.disj (← sizeAll bs)
    | .cat _ ts => do reduceP NVar.conj (← sizeAll ts)
    | .rep _ b lo hi => do
      match ← sizeTok b with
      | some x => pure (some (← x.prod (NRange.fromClosedOpen lo hi)))
      | none => pure none
    | .lit _ s _ => pure (some (.inv (utf8Len s)))
    | .sep _ => pure (some (.inv 1))
    | .cls _ _ items => pure (some (classSize items))
    | .one _ => pure (some (.inv 4))
    | .zom .. => pure (some .unb)
    | .tree .. => pure (some .unb)
  def sizeAll : List Tok → P (List NVar)
    | [] => pure []
    | t :: ts => do
      let x ← sizeTok t
      let xs ← sizeAll ts
      pure (match x with | some d => d :: xs | none => xs)
end

/-- `Token::variance::<Size>()` -/
def sizeVariance (t : Tok) : P NVar := do
  match ← sizeTok t with
  | some x => pure x
  | none => pure (.inv 0)

end Wax
