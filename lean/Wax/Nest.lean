import Wax.Encode
/-!
Nesting depth of the emitted regular expression as regex-syntax's parser counts it (`nest_limit`,
default 250): groups, repetitions, alternations, concatenations, bracketed classes and class-set
operations each add a level.  `Glob::new` panics ("failed to compile glob") when the limit is
exceeded, because only the *size* error of the regex crate is mapped to a `BuildError`.
-/
namespace Wax

def nestLimit : Nat := 250

def CharPred.nest : CharPred → Nat
  | .sepc => 1          -- `[/]`
  | .nsep => 1          -- `[^/]`
  | .dot => 0
  | .cls false _ => 3   -- `[items&&[^/]]`: bracketed, binary operation, nested bracketed
  | .cls true _ => 2    -- `[^items/]`: bracketed, union

def maxL : List Nat → Nat
  | [] => 0
  | x :: xs => max x (maxL xs)

mutual
  def Re.nest : Re → Nat
    | .lit s _ => if s.length ≥ 2 then 2 else 1      -- `(?i:..)`: group, concatenation
    | .chr p => p.nest
    | .never => 2                                    -- `[a&&b]`
    | .cat l => Re.nestCat l
    | .alt l => Re.nestAlt l
    | .star r => 1 + r.nest
    | .lazyStar r => 1 + r.nest
    | .opt r => 1 + r.nest
    | .rep r _ _ => 1 + r.nest
    | .cap r => 1 + r.nest
    | .grp r => 1 + r.nest
  /-- elements of a concatenation, nested concatenations flattened as printing does -/
  def Re.flat : List Re → List Nat
    | [] => []
    | .cat l :: rs => Re.flat l ++ Re.flat rs
    | r :: rs => r.nest :: Re.flat rs
  def Re.nestCat (l : List Re) : Nat :=
    match Re.flat l with
    | [] => 0
    | [n] => n
    | ns => 1 + maxL ns
  def Re.nestAlts : List Re → List Nat
    | [] => []
    | r :: rs => r.nest :: Re.nestAlts rs
  def Re.nestAlt (l : List Re) : Nat :=
    match Re.nestAlts l with
    | [] => 0
    | [n] => n
    | ns => 1 + maxL ns
end

/-- `(?s)^ .. $`: the top-level concatenation always has the flag and the two anchors -/
def patternNest (t : Tok) : Nat :=
  match encodeTop t with
  | .cat l => 1 + maxL (Re.flat l)
  | r => 1 + r.nest

def nestPanics (t : Tok) : Bool := decide (patternNest t > nestLimit)

end Wax
