import Wax.Generated
/-! GENERATED from the Rust sources by tools/extract.py + tools/rs2lean.py; do not edit. -/
namespace Wax.Generated

def depthMinMaxMax (self_min : Nat) (self_extent : Nat) : Nat :=
  (satAdd self_min self_extent)
def minAtPivot (self_0 : Nat) (pivot : Nat) : Nat :=
  (satSub self_0 pivot)
def maxAtPivot (self_0 : Nat) (pivot : Nat) : Nat :=
  (satSub self_0 pivot)
def minMaxAtPivot (self_min : Nat) (self_extent : Nat) (pivot : Nat) : Nat × Nat :=
  ((satSub self_min pivot), (satSub (depthMinMaxMax self_min self_extent) pivot))

end Wax.Generated
