import Wax.Generated
/-! GENERATED from the Rust sources by tools/extract.py + tools/rs2lean.py; do not edit. -/
namespace Wax.Generated

def joinDepth (pathIsAbsolute : Bool) (joinedCount : Nat) (selfCount : Nat) : Nat :=
  (let depth_1 := joinedCount; (let depth_2 := (if pathIsAbsolute then (checkedAddExpect depth_1 1) else (satSub depth_1 selfCount)); depth_2))

end Wax.Generated
