/-! Natural ranges of wax (token/variance/natural.rs). Panics are `Except.error`. -/
namespace Wax

abbrev P := Except String

def usizeLim : Nat := 18446744073709551616

def cadd (what : String) (a b : Nat) : P Nat :=
  if a + b < usizeLim then pure (a + b) else throw s!"overflow {what}"
def cmul (what : String) (a b : Nat) : P Nat :=
  if a * b < usizeLim then pure (a * b) else throw s!"overflow {what}"

/-- BoundedVariantRange: all payloads non-zero -/
inductive BVR where
  | lower (n : Nat) | upper (n : Nat) | both (lo ext : Nat)
deriving BEq, Repr, Inhabited

inductive VRange where
  | unbounded | bounded (r : BVR)
deriving BEq, Repr, Inhabited

/-- NaturalRange = Variance<usize, VariantRange> -/
inductive NRange where
  | inv (n : Nat) | var (v : VRange)
deriving BEq, Repr, Inhabited

/-- NaturalBound = Variance<Zero, Boundedness<NonZeroUsize>> -/
inductive NBound where
  | zero | unb | bnd (n : Nat)
deriving BEq, Repr, Inhabited

def NBound.ofNat (n : Nat) : NBound := if n == 0 then .zero else .bnd n

def BVR.tryFrom (lower : Nat) (upper : Option Nat) : Option BVR :=
  let u := upper.getD 0
  if lower == 0 && u == 0 then none
  else if u == 0 then some (.lower lower)
  else if lower == 0 then some (.upper u)
  else if lower < u then some (.both lower (u - lower))
  else none

def NRange.fromClosedOpen (closed : Nat) (open_ : Option Nat) : NRange :=
  let (lower, upper) := match open_ with
    | some o => if closed > o then (o, some closed) else (closed, some o)
    | none => (closed, none)
  if lower == 0 && upper == none then .var .unbounded
  else match BVR.tryFrom lower upper with
    | some r => .var (.bounded r)
    | none => .inv lower

def BVR.lowerB : BVR → NBound
  | .lower n => .bnd n | .both lo _ => .bnd lo | .upper _ => .unb
def BVR.upperB : BVR → P NBound
  | .lower _ => pure .unb
  | .upper n => pure (.bnd n)
  | .both lo e => do pure (.bnd (← cadd "determining upper bound of range" lo e))

def NRange.lowerB : NRange → NBound
  | .inv n => NBound.ofNat n
  | .var .unbounded => .unb
  | .var (.bounded r) => r.lowerB
def NRange.upperB : NRange → P NBound
  | .inv n => pure (NBound.ofNat n)
  | .var .unbounded => pure .unb
  | .var (.bounded r) => r.upperB

def NBound.lowerUsize : NBound → Nat
  | .zero => 0 | .unb => 0 | .bnd n => n
def NBound.upperUsize : NBound → Option Nat
  | .zero => some 0 | .unb => none | .bnd n => some n

def NBound.conj : NBound → NBound → P NBound
  | .unb, _ => pure .unb
  | _, .unb => pure .unb
  | .zero, x => pure x
  | x, .zero => pure x
  | .bnd a, .bnd b => do pure (.bnd (← cadd "conjunction of natural bound" a b))

def NBound.prod : NBound → NBound → P NBound
  | .unb, _ => pure .unb
  | _, .unb => pure .unb
  | .zero, _ => pure .zero
  | _, .zero => pure .zero
  | .bnd a, .bnd b => do pure (.bnd (← cmul "product of natural bound" a b))

def NRange.byBound (l r : NRange) (f : NBound → NBound → P NBound) : P NRange := do
  let lo ← f l.lowerB r.lowerB
  let hi ← f (← l.upperB) (← r.upperB)
  pure (NRange.fromClosedOpen lo.lowerUsize hi.upperUsize)

def BVR.conj (a b : BVR) : P BVR := do
  match ← NRange.byBound (.var (.bounded a)) (.var (.bounded b)) NBound.conj with
  | .var (.bounded r) => pure r
  | _ => throw "unreachable natural.rs:740"

def BVR.prodB (a b : BVR) : P VRange := do
  match ← NRange.byBound (.var (.bounded a)) (.var (.bounded b)) NBound.prod with
  | .var v => pure v
  | _ => throw "unreachable natural.rs:777"

def BVR.prodN (a : BVR) (n : Nat) : P BVR := do
  match ← NRange.byBound (.var (.bounded a)) (.inv n) NBound.prod with
  | .var (.bounded r) => pure r
  | _ => throw "unreachable natural.rs:790"

/-- ordering of lower bounds through cobounds: unbounded is least -/
def lowerLe : NBound → NBound → Bool
  | .unb, _ => true
  | _, .unb => false
  | a, b => a.lowerUsize ≤ b.lowerUsize
/-- ordering of upper bounds: unbounded is greatest -/
def upperLe : NBound → NBound → Bool
  | _, .unb => true
  | .unb, _ => false
  | a, b => (a.upperUsize.getD 0) ≤ (b.upperUsize.getD 0)

def BVR.union (a : BVR) (o : NRange) : P VRange := do
  let s : NRange := .var (.bounded a)
  let lo := if lowerLe s.lowerB o.lowerB then s.lowerB else o.lowerB
  let su ← s.upperB
  let ou ← o.upperB
  let hi := if upperLe su ou then ou else su
  match NRange.fromClosedOpen lo.lowerUsize hi.upperUsize with
  | .var v => pure v
  | _ => throw "unreachable natural.rs:666"

def BVR.translation (a : BVR) (k : Nat) : P BVR := do
  match a with
  | .both lo e => pure (.both (← cadd "translation of range" lo k) e)
  | .lower n => pure (.lower (← cadd "translation of range" n k))
  | .upper n => pure (.upper (← cadd "translation of range" n k))

def BVR.openedUpper : BVR → VRange
  | .both lo _ => .bounded (.lower lo)
  | .upper _ => .unbounded
  | r => .bounded r

/-- natural.rs `Conjunction for BoundedVariantRange` as repaired -/
def BVR.conjFixed (a b : BVR) : P BVR := do
  let lo ← cadd "conjunction of unsigned word" a.lowerB.lowerUsize b.lowerB.lowerUsize
  let au ← a.upperB
  let bu ← b.upperB
  let hi ← match au.upperUsize, bu.upperUsize with
    | some x, some y => do pure (some (← cadd "conjunction of unsigned word" x y))
    | _, _ => pure none
  match BVR.tryFrom lo hi with
  | some r => pure r
  | none => throw "conjunction of bounded ranges is unbounded or invariant"


end Wax
