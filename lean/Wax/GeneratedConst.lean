import Wax.Generated
/-! GENERATED from the Rust sources by tools/extract.py; do not edit. -/
namespace Wax.Generated

def neverExpression : String := "[a&&b]"
def separatorClassExpression : String := "/"
def rootSeparatorExpression : String := "/"
def semanticLiterals : List String := [".", ".."]

end Wax.Generated
