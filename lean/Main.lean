import Wax.Parse
import Wax.Encode
import Wax.Fragment
import Wax.SpecEncode
import Wax.SpecRe
import Wax.Query
import Wax.Proofs.RootRule
import Wax.Text
import Wax.Depth
import Wax.DepthFold
import Wax.ExhFold
import Wax.RuleS
import Wax.Partition
import Wax.Proofs.Exhaustive
import Wax.Cmd.Frag2
import Wax.Cmd.Build
import Wax.Cmd.Match
import Wax.Cmd.Walk
import Wax.FoldMap
import Wax.Unicode
import Wax.SemSpec
import Wax.RuleSpec
open Wax

def unhex (s : String) : Str :=
  if s == "-" then [] else
  (s.splitOn ".").map fun h =>
    let n := h.toList.foldl (fun a c =>
      let d := if c.isDigit then c.toNat - '0'.toNat else c.toNat - 'a'.toNat + 10
      a * 16 + d) 0
    Char.ofNat n

/-- the tree of a combinator: a top-level alternation of the patterns' trees (`token::any`) -/
def anyTree (nested : Bool) (hs : List String) : Option Tok :=
  let ts := hs.map (fun h => parse (unhex h))
  if ts.any (fun r => match r with | .ok _ => false | _ => true) then none else
  let toks := ts.filterMap (fun r => match r with | .ok t => some t | _ => none)
  if nested then
    match toks with
    | t :: rest => some (.alt ⟨0, 0⟩ [.alt ⟨0, 0⟩ [t], .alt ⟨0, 0⟩ rest])
    | [] => none
  else some (.alt ⟨0, 0⟩ toks)

def anyCmd (cmd : String) (hs : List String) : String :=
  match anyTree (cmd == "AN" || cmd == "FAN") hs with
  | none => "err"
  | some t =>
    if cmd == "A" || cmd == "AN" then
      (if compilePanics t || nestPanics t then "err compile []" else s!"ok - | {hexStr (compilePattern t).toList}")
    else if cmd == "XA" then
      (match isExhaustive t with
       | .error _ => "panic"
       | .ok .always => "always"
       | .ok .sometimes => "sometimes"
       | .ok .never => "never")
    else if cmd == "F09A" then cmdF09 t
    else if cmd == "F10A" then cmdF10 t
    else if cmd == "F11A" then cmdF11 t
    else if cmd == "DGA" then
      (match depthVariance t with
       | .error _ => "panic"
       | .ok (.inv n) => s!"inv {n}"
       | .ok .unb => "unb"
       | .ok (.bnd r) =>
         let lo := match r.lowerB with | .bnd n => toString n | _ => "-"
         let hi := match r.upperB with | .ok (.bnd n) => toString n | _ => "-"
         s!"rng {lo} {hi}")
    else if cmd == "TA" then
      (match textTok drvCasing t with
       | .inv fs => "inv:" ++ hexStr (fragsToStr fs)
       | _ => "var")
    else if cmd == "RA" then
      (match hasRoot t with | .always => "always" | .sometimes => "sometimes" | .never => "never")
    else cmdF t

def handle (line : String) : String :=
  match line.trimAscii.toString.splitOn " " with
  | ["B", h] => cmdB h
  | ["B0", h] =>
    match parse (unhex h) with
    | .err locs => s!"err parse {locs}"
    | .ok t => s!"ok {t.dump} | {hexStr (compilePattern t).toList}"
  | ["BR", h] =>
    -- the structural verdict next to the one of the checker with error identity
    match parse (unhex h) with
    | .err _ => "err"
    | .ok t =>
      let c := match check t with | .error _ => "panic" | .ok none => "accept" | .ok (some (k, _)) => if k == RuleErr.oversized then "oversized" else "reject"
      s!"{if checkS t then "accept" else "reject"} {c}"
  | ["S", h] =>
    match parse (unhex h) with
    | .err _ => "err"
    | .ok t => s!"ok {hexStr (specPattern t).toList}"
  | ["S2", h] =>
    match parse (unhex h) with
    | .err _ => "err"
    | .ok t => s!"ok {hexStr (specPattern2 t).toList}"
  | ["RR", h] =>
    match parse (unhex h) with
    | .err _ => "err"
    | .ok t => s!"{shaped t} {rootRule true t}"
  | ["T", h] =>
    match parse (unhex h) with
    | .err _ => "err"
    | .ok t =>
      match textTok drvCasing t with
      | .inv fs => "inv:" ++ hexStr (fragsToStr fs)
      | _ => "var"
  | ["R", h] =>
    match parse (unhex h) with
    | .err _ => "err"
    | .ok t => match hasRoot t with | .always => "always" | .sometimes => "sometimes" | .never => "never"
  | ["E", h] =>
    match parse (unhex h) with
    | .err _ => "err"
    | .ok t => if endsList t.concatenation then "ends" else "no"
  | ["D", h] =>
    match parse (unhex h) with
    | .err _ => "err"
    | .ok t =>
      let isLeaf : Tok → Bool := fun x => match x with | .alt .. | .cat .. | .rep .. => false | _ => true
      let ts := t.concatenation
      if !ts.all isLeaf then "skip" else
      match depthFlat ts with
      | .error _ => "panic"
      | .ok (.inv n) => s!"inv {n}"
      | .ok .unb => "unb"
      | .ok (.bnd r) =>
        let lo := match r.lowerB with | .bnd n => toString n | _ => "-"
        let hi := match r.upperB with | .ok (.bnd n) => toString n | _ => "-"
        s!"rng {lo} {hi}"
  | ["X", h] =>
    match parse (unhex h) with
    | .err _ => "err"
    | .ok t =>
      match isExhaustive t with
      | .error _ => "panic"
      | .ok .always => "always"
      | .ok .sometimes => "sometimes"
      | .ok .never => "never"
  | ["F10", h] =>
    match parse (unhex h) with
    | .err _ => "err"
    | .ok t => cmdF10 t
  | ["F09", h] =>
    match parse (unhex h) with
    | .err _ => "err"
    | .ok t => cmdF09 t
  | ["F11", h] =>
    match parse (unhex h) with
    | .err _ => "err"
    | .ok t => cmdF11 t
  | ["ESC", h] => cmdESC (unhex h)
  | ["P", h] =>
    let e := unhex h
    match parse e with
    | .err _ => "err"
    | .ok t =>
      if !checkS t then "err" else
      let (pre, off, post) := partition drvCasing t
      match post with
      | none => s!"prefix={hexStr pre} post=none"
      | some q =>
        let bytes := (String.ofList e).toUTF8
        let rest := String.fromUTF8! (bytes.extract off bytes.size)
        let root := match hasRoot q with | .always => "always" | .sometimes => "sometimes" | .never => "never"
        s!"prefix={hexStr pre} post={hexStr rest.toList} tokens={q.dump} | pattern={hexStr (compilePattern q).toList} root={root}"
  | ["FP", h] =>
    match parse (unhex h) with
    | .err _ => "err"
    | .ok t => if !checkS t then "err" else cmdFP drvCasing t
  | ["C", h] =>
    match parse (unhex h) with
    | .err _ => "err"
    | .ok t => if checkS t then "accept" else "reject"
  | ["DG", h] =>
    match parse (unhex h) with
    | .err _ => "err"
    | .ok t =>
      match depthVariance t with
      | .error _ => "panic"
      | .ok (.inv n) => s!"inv {n}"
      | .ok .unb => "unb"
      | .ok (.bnd r) =>
        let lo := match r.lowerB with | .bnd n => toString n | _ => "-"
        let hi := match r.upperB with | .ok (.bnd n) => toString n | _ => "-"
        s!"rng {lo} {hi}"
  | ["SM", h, ph] =>
    match parse (unhex h) with
    | .err _ => "err"
    -- membership is decided by the backtracking executor, which `exec_isSome_eq_matchB` proves equal to the
    -- verified matcher `matchB` (and `matchB_iff` to `Matches`) for every pattern; it is the faster of the two on
    -- nested repetitions
    | .ok t => if ((specRe t).exec drvSem (unhex ph)).isSome then "1" else "0"
  | ["MM", h, ph] =>
    match parse (unhex h) with
    | .err _ => "err"
    | .ok t => if ((encodeTop t).exec drvSem (unhex ph)).isSome then "1" else "0"
  | "A" :: _ :: hs => anyCmd "A" hs
  | "AN" :: _ :: hs => anyCmd "AN" hs
  | "FA" :: _ :: hs => anyCmd "FA" hs
  | "FAN" :: _ :: hs => anyCmd "FAN" hs
  | "XA" :: _ :: hs => anyCmd "XA" hs
  | "F09A" :: _ :: hs => anyCmd "F09A" hs
  | "F10A" :: _ :: hs => anyCmd "F10A" hs
  | "F11A" :: _ :: hs => anyCmd "F11A" hs
  | "DGA" :: _ :: hs => anyCmd "DGA" hs
  | "TA" :: _ :: hs => anyCmd "TA" hs
  | "RA" :: _ :: hs => anyCmd "RA" hs
  | ["F06", h] =>
    match parse (unhex h) with
    | .err _ => "err"
    | .ok t => cmdF06 t
  | ["WF", h] =>
    match parse (unhex h) with
    | .err _ => "err"
    | .ok t => match wfSpec t with | some true => "accept" | some false => "reject" | none => "skip"
  | ["SL", h] =>
    match parse (unhex h) with
    | .err _ => "err"
    | .ok t => if semSpec t then "1" else "0"
  | ["F", h] =>
    match parse (unhex h) with
    | .err _ => "err"
    | .ok t => cmdF t
  | "W" :: rest => cmdW rest
  | "WP" :: rest => cmdWP rest
  | "NP" :: rest => cmdNP rest
  | ["NV", op, l, r] => cmdNV op l r
  | ["FM", h] =>
    -- `token::any` on one pattern: `fold_map(|_| ())` of the parsed tree, wrapped in an alternation
    match parse (unhex h) with
    | .err _ => "err"
    | .ok t =>
      match FoldMap.foldMap (fun _ => ()) (FoldMap.ofTok t) with
      | .error e => s!"panic {e}"
      | .ok t' => s!"ok (alt {t'.dump (fun _ => "")})"
  | ["FMI", h] =>
    -- `into_owned`: `fold_map` with the identity on annotations
    match parse (unhex h) with
    | .err _ => "err"
    | .ok t =>
      match FoldMap.foldMap id (FoldMap.ofTok t) with
      | .error e => s!"panic {e}"
      | .ok t' => s!"ok {t'.dump Span.dump}"
  | ["M", e, p] => cmdM e p        -- captures of Glob::matched (Re.exec on Re.hirNorm)
  | ["M0", e, p] => cmdM0 e p      -- same without the regex-syntax normalisation (plain leftmost-first on the printed pattern)
  | ["N", e] => cmdN e             -- the normalised pattern, printed
  | _ => "bad-op"

partial def loop (h : IO.FS.Stream) : IO Unit := do
  let line ← h.getLine
  if line.isEmpty then return ()
  IO.println (handle line)
  (← IO.getStdout).flush
  loop h

def main : IO Unit := do loop (← IO.getStdin)
