import Wax.Parse
import Wax.Encode
import Wax.Fragment
import Wax.SpecEncode
import Wax.SpecRe
import Wax.Query
import Wax.Proofs.RootRule
import Wax.Text
import Wax.Depth
import Wax.DepthFold
import Wax.ExhFold
import Wax.RuleS
import Wax.Partition
import Wax.Proofs.Exhaustive
import Wax.Cmd.Frag
import Wax.Unicode
open Wax

def unhex (s : String) : Str :=
  if s == "-" then [] else
  (s.splitOn ".").map fun h =>
    let n := h.toList.foldl (fun a c =>
      let d := if c.isDigit then c.toNat - '0'.toNat else c.toNat - 'a'.toNat + 10
      a * 16 + d) 0
    Char.ofNat n

def handle (line : String) : String :=
  match line.trimAscii.toString.splitOn " " with
  | ["B", h] =>
    match parse (unhex h) with
    | .err locs => s!"err parse {locs}"
    | .ok t => s!"ok {t.dump} | {hexStr (compilePattern t).toList}"
  | ["S", h] =>
    match parse (unhex h) with
    | .err _ => "err"
    | .ok t => s!"ok {hexStr (specPattern t).toList}"
  | ["S2", h] =>
    match parse (unhex h) with
    | .err _ => "err"
    | .ok t => s!"ok {hexStr (specPattern2 t).toList}"
  | ["RR", h] =>
    match parse (unhex h) with
    | .err _ => "err"
    | .ok t => s!"{shaped t} {rootRule true t}"
  | ["T", h] =>
    match parse (unhex h) with
    | .err _ => "err"
    | .ok t =>
      let κ : Casing := ⟨fun c => c.isAlpha || c == 'é' || c == 'É' || c == 'ǆ' || c == 'Ǆ'⟩
      match textTok κ t with
      | .inv fs => "inv:" ++ hexStr (fragsToStr fs)
      | _ => "var"
  | ["R", h] =>
    match parse (unhex h) with
    | .err _ => "err"
    | .ok t => match hasRoot t with | .always => "always" | .sometimes => "sometimes" | .never => "never"
  | ["E", h] =>
    match parse (unhex h) with
    | .err _ => "err"
    | .ok t => if endsList t.concatenation then "ends" else "no"
  | ["D", h] =>
    match parse (unhex h) with
    | .err _ => "err"
    | .ok t =>
      let isLeaf : Tok → Bool := fun x => match x with | .alt .. | .cat .. | .rep .. => false | _ => true
      let ts := t.concatenation
      if !ts.all isLeaf then "skip" else
      match depthFlat ts with
      | .error _ => "panic"
      | .ok (.inv n) => s!"inv {n}"
      | .ok .unb => "unb"
      | .ok (.bnd r) =>
        let lo := match r.lowerB with | .bnd n => toString n | _ => "-"
        let hi := match r.upperB with | .ok (.bnd n) => toString n | _ => "-"
        s!"rng {lo} {hi}"
  | ["X", h] =>
    match parse (unhex h) with
    | .err _ => "err"
    | .ok t =>
      match isExhaustive t with
      | .error _ => "panic"
      | .ok .always => "always"
      | .ok .sometimes => "sometimes"
      | .ok .never => "never"
  | ["F10", h] =>
    match parse (unhex h) with
    | .err _ => "err"
    | .ok t =>
      let ts := t.concatenation
      let isRun : Tok → Bool := fun x => match x with | .lit .. | .cls .. | .one _ | .zom .. => true | _ => false
      let isSp : Tok → Bool := fun x => match x with | .sep _ => true | _ => false
      let solidT : Tok → Bool := fun x => match x with | .lit _ s _ => !s.isEmpty | .cls .. => true | .one _ => true | _ => false
      if !ts.all (fun x => isRun x || isSp x) then
        (if ts.any (fun x => match x with | .tree .. => true | _ => false) && ts.all (fun x => match x with | .alt .. | .rep .. | .cat .. => false | _ => true) then "out:tree" else "out:branch")
      else
        -- runs between separators
        let runs : List (List Tok) := (ts.foldr (fun x acc => if isSp x then [] :: acc else match acc with | r :: rs => (x :: r) :: rs | [] => [[x]]) [[]])
        let n := runs.length
        let idx := List.range n
        let midOk := (idx.zip runs).all (fun (i, r) => (i == 0 || i + 1 == n) || !r.isEmpty)
        let solidOk := runs.all (fun r => r.isEmpty || r.any solidT)
        if !midOk then "out:adjacent-sep" else if !solidOk then "out:nullable-run" else "in"
  | ["P", h] =>
    let e := unhex h
    match parse e with
    | .err _ => "err"
    | .ok t =>
      if !checkS t then "err" else
      let κ : Casing := ⟨fun c => c.isAlpha || c == 'é' || c == 'É' || c == 'ǆ' || c == 'Ǆ' || c == 'ǅ'⟩
      let (pre, off, post) := partition κ t
      match post with
      | none => s!"prefix={hexStr pre} post=none"
      | some q =>
        let bytes := (String.ofList e).toUTF8
        let rest := String.fromUTF8! (bytes.extract off bytes.size)
        let root := match hasRoot q with | .always => "always" | .sometimes => "sometimes" | .never => "never"
        s!"prefix={hexStr pre} post={hexStr rest.toList} tokens={q.dump} | pattern={hexStr (compilePattern q).toList} root={root}"
  | ["C", h] =>
    match parse (unhex h) with
    | .err _ => "err"
    | .ok t => if checkS t then "accept" else "reject"
  | ["DG", h] =>
    match parse (unhex h) with
    | .err _ => "err"
    | .ok t =>
      match depthVariance t with
      | .error _ => "panic"
      | .ok (.inv n) => s!"inv {n}"
      | .ok .unb => "unb"
      | .ok (.bnd r) =>
        let lo := match r.lowerB with | .bnd n => toString n | _ => "-"
        let hi := match r.upperB with | .ok (.bnd n) => toString n | _ => "-"
        s!"rng {lo} {hi}"
  | ["SM", h, ph] =>
    match parse (unhex h) with
    | .err _ => "err"
    | .ok t => if (specRe t).matchB drvSem (unhex ph) then "1" else "0"
  | ["MM", h, ph] =>
    match parse (unhex h) with
    | .err _ => "err"
    | .ok t => if (encodeTop t).matchB drvSem (unhex ph) then "1" else "0"
  | ["F", h] =>
    match parse (unhex h) with
    | .err _ => "err"
    | .ok t => cmdF t
  | _ => "bad-op"

partial def loop (h : IO.FS.Stream) : IO Unit := do
  let line ← h.getLine
  if line.isEmpty then return ()
  IO.println (handle line)
  loop h

def main : IO Unit := do loop (← IO.getStdin)
