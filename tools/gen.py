"""Generators: expressions are generated as token trees with the rule checker's constraints built
into the printer (mostly valid by construction), plus a separate malformed stream. Every choice
derives from one PRNG, so a case is a function of (seed, index)."""
import random

LITS = ["a", "b", "ab", "A", "x.y", "..", ".", "é", "É", "c", "B", "1", "a b", "ǆ", "s", "k", "中", "\\*", "\\[x\\]", "-",
        "a+b", "x|y", "^a", "a#", "R&D", "~a", "a&&b", "a~~b", "\\{a\\}", "a\\,b", "%", "=", "@", "!a", "a-b", ";", "'", "\""]
CLASS_CHARS = list("abcxyzABC019") + list("&~^|.+#$*?(){},:<> !%=@;'\"_") + ["é", "É", "ǆ", "中", "/", "[", "]", "-", "&&", "~~", "--"]
CLASSES = ["[ab]", "[!a]", "[a-c]", "[\\[\\]]", "[/]", "[c-ax]", "[!/]", "[a\\-z]", "[A-Z]", "[é]", "[!a-c]", "[a/]",
           "[é-a]", "[é-ax]", "[a-é]", "[😀-a]", "[€-z]x", "[!é-a]", "[a-a]", "[愛-愛]", "[0-9_-_]"]
BOUNDS = ["", ":", ":1", ":2", ":0,1", ":1,", ":0,", ":1,3", ":2,4", ":3", ":0,2", ":1,1", ":2,"]
BAD_BOUNDS = [":3,1", ":0,0", ":0", ":01", ":18446744073709551616", ":4294967296", ":1,4294967296"]


class Item:
    __slots__ = ("text", "sb", "eb", "sz", "ez", "flag")

    def __init__(self, text, sb=False, eb=False, sz=False, ez=False, flag=False):
        self.text, self.sb, self.eb, self.sz, self.ez, self.flag = text, sb, eb, sz, ez, flag


def class_escape(c):
    return "".join("\\" + x if x in "[]-" else x for x in c)


class ExprGen:
    def random_class(self):
        """a class with 1-4 items over an alphabet that includes every character special to the regex
        back end (set operators && ~~ --, ^, ranges) and to the glob syntax"""
        r = self.r
        items = []
        for _ in range(r.randint(1, 4)):
            if r.random() < 0.25:
                a, b = r.choice("abcxyzABC019&~^"), r.choice("abcxyzABC019&~^")
                if self.bad_classes or ord(a) <= ord(b):
                    items.append(class_escape(a) + "-" + class_escape(b))
                else:
                    items.append(class_escape(b) + "-" + class_escape(a))
            else:
                c = r.choice(CLASS_CHARS)
                if c == "/" and not self.bad_classes:
                    c = "a"
                items.append(class_escape(c))
        neg = "!" if r.random() < 0.3 else ""
        return "[" + neg + "".join(items) + "]"

    def __init__(self, rnd, max_depth=3, trees=True, flags=True, classes=True, branches=True, lits=None,
                 bad_classes=True):
        self.bad_classes = bad_classes
        self.r = rnd
        self.max_depth = max_depth
        self.trees, self.flags, self.classes, self.branches = trees, flags, classes, branches
        self.lits = lits or LITS
        self.cls = CLASSES if bad_classes else [c for c in CLASSES if c not in ("[/]", "[c-ax]", "[a/]", "[é-a]", "[é-ax]", "[😀-a]", "[€-z]x", "[!é-a]")]

    def seq(self, d, left_b, right_b, edge_ok, at_start_of_sub=True, maxlen=4):
        """A concatenation. left_b/right_b: the outside neighbour may be a boundary.
        edge_ok: this sequence may start/end with a boundary when the neighbour allows it."""
        r = self.r
        items = []
        n = r.randint(1, maxlen)
        prev_b = left_b
        prev_z = False
        start = True
        force_plain = False
        for k in range(n):
            last = k == n - 1
            choice = r.random()
            it = None
            if force_plain:
                choice = 0.0
            if choice < 0.34:
                it = Item(r.choice(self.lits))
            elif choice < 0.50:
                if not prev_b and not (start and not edge_ok) and not (last and (right_b or not edge_ok)):
                    it = Item("/", sb=True, eb=True)
                elif start and edge_ok and not left_b and d == 0 and r.random() < 0.5:
                    it = Item("/", sb=True, eb=True)
            elif choice < 0.60:
                if prev_z:
                    it = Item("?")
                else:
                    t = r.choice(["*", "$", "?", "??", "*"])
                    it = Item(t, sz=t in "*$", ez=t in "*$")
            elif choice < 0.70 and self.trees:
                # a tree wildcard is a whole component
                if start and at_start_of_sub and not left_b and edge_ok:
                    form = r.choice(["**", "**/", "/**/", "/**"]) if d == 0 else r.choice(["**/", "**"])
                    if last and not right_b:
                        form = r.choice(["**", "/**"]) if d == 0 else "**"
                        if n == 1 and d > 0:
                            form = None     # a branch that is solely a tree wildcard is rejected
                    elif form in ("**", "/**") and not last:
                        form += "/"
                    if form:
                        it = Item(form, sb=True, eb=True)
                elif not prev_b and not start:
                    if last:
                        if not right_b and edge_ok:
                            it = Item("/**", sb=True, eb=True)
                    else:
                        it = Item("/**/", sb=True, eb=True)
            elif choice < 0.77 and self.classes:
                it = Item(r.choice(self.cls) if r.random() < 0.5 else self.random_class())
            elif choice < 0.82 and self.flags:
                if not last:
                    it = Item(r.choice(["(?i)", "(?-i)", "(?i)", "(?i-i)"]), flag=True)
            elif choice < 0.92 and self.branches and d < self.max_depth:
                edge = r.random() < 0.25
                nb = r.randint(1, 3)
                bs = [self.seq(d + 1, prev_b or not edge, True, edge, True, 3) for _ in range(nb)]
                if nb >= 2 and r.random() < 0.3:
                    # related branches: one is the other extended or cut at its end
                    base = bs[0]
                    k2 = r.randrange(4)
                    if k2 == 0:
                        bs[1] = base + [Item("/", sb=True, eb=True), Item(r.choice(self.lits))]
                    elif k2 == 1:
                        bs[1] = base + [Item(r.choice(self.lits))]
                    elif k2 == 2 and len(base) > 1:
                        bs[1] = base[:-1]
                    else:
                        bs[1] = list(base)
                txt = "{" + ",".join(self.text(b) for b in bs) + "}"
                it = Item(txt, sb=any(b and b[0].sb for b in bs), eb=any(b and b[-1].eb for b in bs),
                          sz=any(b and b[0].sz for b in bs), ez=any(b and b[-1].ez for b in bs))
            elif self.branches and d < self.max_depth:
                edge = r.random() < 0.3
                body = self.seq(d + 1, True if not edge else prev_b, True, edge, True, 3)
                if start and at_start_of_sub and not left_b and self.trees and r.random() < 0.12:
                    # a repetition rooted by a tree wildcard or a separator at the very start of the (sub-)expression
                    body = [Item(r.choice(["/**/", "/", "/**/"]), sb=True, eb=True)] + [b for b in body if not b.sb][:2] or [Item("a")]
                    if len(body) == 1:
                        body.append(Item(r.choice(self.lits)))
                if len(body) == 1 and body[0].text in ("/", "*", "$"):
                    body = [Item(r.choice(self.lits))] + body
                if edge and body and body[0].sb and body[-1].eb and len(body) > 1:
                    body = body + [Item(r.choice(self.lits))]
                bound = r.choice(BOUNDS) if r.random() < 0.93 else r.choice(BAD_BOUNDS)
                txt = "<" + self.text(body) + bound + ">"
                it = Item(txt, sb=bool(body) and body[0].sb, eb=bool(body) and body[-1].eb,
                          sz=bool(body) and body[0].sz, ez=bool(body) and body[-1].ez)
            if it is None:
                it = Item(r.choice(self.lits))
            # repair adjacency with what precedes
            if not it.flag:
                if it.sb and prev_b and it.text not in ("/",) and not it.text.startswith(("/**", "**")):
                    items.append(Item(r.choice(self.lits)))
                if it.sz and prev_z:
                    items.append(Item(r.choice(self.lits)))
                prev_b, prev_z = it.eb, it.ez
                start = False
                force_plain = False
            items.append(it)
        # a trailing flag is a parse error most of the time; keep a few
        if items and items[-1].flag and r.random() < 0.9:
            items.append(Item(r.choice(self.lits)))
        if items and items[-1].eb and right_b and not edge_ok:
            items.append(Item(r.choice(self.lits)))
        return items

    @staticmethod
    def text(items):
        return "".join(i.text for i in items)

    def expr(self):
        return self.text(self.seq(0, False, False, True, True, self.r.randint(1, 5)))


MALFORMED_ATOMS = ["日本", "ǅ", "\n", ":18446744073709551615", ":18446744073709551616", ":4294967296", ":007",
                   "(?i)(?-i)", "(?ii)", "[a\\-z]", "[!!]", "[!]", "[a-]", "<a>", "{a}", "{a,b}", "a", "b", "ab", "é",
                   "/", "/", "*", "$", "?", "**", "**/", "/**", "/**/", "[ab]", "[!a]", "[a-c]", "[\\-]", "(?i)",
                   "(?-i)", "{", "}", ",", "<", ">", ":", ":1", ":0,2", ":2,", ":1,1", "\\*", "\\", "\\x", "[", "]",
                   "-", "!", "(?", "(", "x.y", "..", "."]


def malformed(r):
    return "".join(r.choice(MALFORMED_ATOMS) for _ in range(r.randint(1, 8)))


def mutate(r, e):
    if not e:
        return e
    k = r.randrange(5)
    i = r.randrange(len(e))
    if k == 0:
        return e[:i] + e[i + 1:]
    if k == 1:
        return e[:i] + e[i] + e[i:]
    if k == 2 and len(e) > 1:
        j = r.randrange(len(e))
        l = list(e)
        l[i], l[j] = l[j], l[i]
        return "".join(l)
    if k == 3:
        return e[:i] + r.choice("{}<>[]()\\,:*?$/!-") + e[i:]
    return e[:i] + r.choice(["é", "中", "\n", "ǅ", "\U0001f600"]) + e[i:]


def expressions(seed, n, malformed_share=0.15, **kw):
    """n distinct expressions, deterministic in (seed, n, kw)."""
    r = random.Random(seed)
    g = ExprGen(r, **kw)
    seen = set()
    out = []
    guard = 0
    while len(out) < n and guard < n * 20:
        guard += 1
        x = r.random()
        if x < malformed_share / 2:
            e = malformed(r)
        elif x < malformed_share:
            e = mutate(r, g.expr())
        else:
            e = g.expr()
        if e not in seen:
            seen.add(e)
            out.append(e)
    return out


ATOMS14 = ["a", "b", "/", "*", "$", "?", "[ab]", "**", "/**/", "**/", "/**", "{a,b}", "<a:1,2>", "(?i)"]


def small_scope(max_atoms, atoms=None):
    """every concatenation of at most max_atoms atoms"""
    atoms = atoms or ATOMS14
    out = [""]
    level = [""]
    for _ in range(max_atoms):
        level = [p + a for p in level for a in atoms]
        out += level
    return out


def paths_for(r, expr, words, extra=6):
    """candidate paths: words of the language (from the automaton), perturbed words, free strings"""
    alpha = sorted(set([c for c in expr if c.isalnum()] + ["a", "b", "/", ".", "\n", "A", "é", "x"]))
    out = list(words)
    for w in list(words)[:extra]:
        if w:
            i = r.randrange(len(w))
            out.append(w[:i] + r.choice(alpha) + w[i + 1:])
            out.append(w[:i] + w[i + 1:])
            out.append(w + r.choice(["/", "/x", "x", "\n"]))
            out.append(w.swapcase())
    for _ in range(extra):
        out.append("".join(r.choice(alpha) for _ in range(r.randint(0, 6))))
    seen = set()
    res = []
    for p in out:
        if p not in seen:
            seen.add(p)
            res.append(p)
    return res


def exh_family(r=None, limit=None):
    """systematic family for the exhaustiveness and depth folds: repetitions (nested two deep) whose bodies are made of
    separators, wildcards and tree wildcards, with every kind of bound, after a few prefixes and before a few suffixes"""
    bodies = ["/*", "*/", "/*/*", "*/*/", "/?", "/a*", "a/", "/a", "/**", "**/", "/*/**", "*", "a", "/*/*/*", "{/*,/a}", "/{*,a}"]
    bounds = [":1,", "", ":0,1", ":1,3", ":2", ":1,2", ":2,", ":1", ":0,", ":3"]
    pre = ["", "a", "a/", "**/", "/"]
    post = ["", "*", "/**", "/*", "a"]
    out = []
    for p in pre:
        for b in bodies:
            for bd in bounds:
                one = "<%s%s>" % (b, bd)
                for q in post:
                    out.append(p + one + q)
                for bd2 in bounds:
                    out.append(p + "<%s%s>" % (one, bd2))
                    out.append(p + "<a%s%s>" % (one, bd2))
                    out.append(p + "{%s,b}%s" % (one, bd2 and ""))
    # two multi-branch alternations in one concatenation, with a boundary between them or at a facing edge
    alts = ["{a,b}", "{a,a/b}", "{a/,a/b/}", "{c,d}", "{c,c/d}", "{/c,/c/d}", "{a,b/c}", "{*,a/b}"]
    for x in alts:
        for y in alts:
            for mid in ["/", "", "/x/"]:
                for p in ["", "a/", "/"]:
                    out.append(p + x + mid + y)
            out.append("<%s/%s:2>" % (x, y))
    out = list(dict.fromkeys(out))
    if limit is not None and r is not None and len(out) > limit:
        out = r.sample(out, limit)
    return out



def rep_body_family():
    """every repetition whose body starts / ends with each kind of token (separator, tree wildcard with or without its
    separator, zero-or-more wildcard, literal, branch) x bounds x neighbours: the rules about what repeating a body
    makes adjacent"""
    starts = ["/", "**/", "/**/", "*", "a", "{a,b}", "{/a,b}", "$"]
    ends = ["/", "/**", "/**/", "*", "a", "{a,b}", "{a/,b}", "$"]
    mids = ["a", "b/c"]
    bounds = [":1,", ":2", ":0,", ":1", ":0,1", ":2,3", ""]
    around = [("", ""), ("x", ""), ("", "y"), ("x/", ""), ("", "/y"), ("x", "y"), ("{x,", "}"), ("**/", ""), ("", "/**")]
    out = []
    for s0 in starts:
        for e0 in ends:
            for mid in mids[:1] if (s0, e0) != ("/", "/") else mids:
                body = s0 + mid + e0
                for b in bounds:
                    for pre, post in around:
                        out.append("%s<%s%s>%s" % (pre, body, b, post))
    return list(dict.fromkeys(out))


def nested_tree_edge_family():
    """a tree wildcard at the edge of a branch NESTED in another branch, at every position of the outer branch in its
    concatenation: the encoder picks the form of a tree wildcard from the positions handed down"""
    inner = ["</**/a:1,2>", "<a/**:1,2>", "{/**/a}", "{a/**}", "<**/a:1>", "<a/**/:1,2>", "</**/a:1>", "{**/a,b}", "{a/**,b}", "<**/a:2>", "/**/a", "a/**", "**/a"]
    outer = ["x{%s,c}", "{%s,c}x", "x{%s,c}y", "{%s,c}", "x<%sb:1,2>", "<%sb:1,2>y", "x<%s:1,2>y", "{q%s,c}", "x{{%s},c}", "x<<%s:1>:1,2>", "{x,%s}/y", "y/{%s,x}", "x{c,%s}"]
    out = []
    for o in outer:
        for i in inner:
            out.append(o % i)
    return list(dict.fromkeys(out))



def sole_boundary_family():
    """an alternative (or repetition body) that is SOLELY a boundary, with every kind of neighbour on either side"""
    branches = ["{b,/}", "{/,b}", "{b,**}", "{b,{c,/}}", "{b,x{c,/}}", "{/}", "{b,/**/}", "</:1,>", "</:0,1>", "<{b,/}:1,>", "{b,/,c}", "{{/},b}"]
    lefts = ["", "a", "a/", "*", "**/", "{x,y}", "x{y,z}"]
    rights = ["", "c", "/c", "/", "/**", "/**/c", "{/c,d}", "</c:1,>", "*", "**"]
    out = []
    for l in lefts:
        for b in branches:
            for r in rights:
                out.append(l + b + r)
    return list(dict.fromkeys(out))



def scale_family():
    """counts beyond the ordinary (more than 255 captures, alternatives, components, class members, flags, repetitions):
    whatever is indexed, counted or accumulated in a narrow type or a fixed buffer"""
    n = 300
    out = ["*/" * (n - 1) + "*",                                   # 300 captures, 300 components
           "?" * n,                                                # 300 adjacent captures
           "{" + ",".join("a%d" % i for i in range(n)) + "}",      # 300 alternatives
           "{" + ",".join("a%d/*" % i for i in range(n)) + "}/**", # 300 alternatives spanning components
           "[ab]" * n,
           "[" + "".join(chr(0x100 + i) for i in range(n)) + "]x",  # 300 class members
           "[!" + "".join("%s-%s" % (chr(0x400 + 2 * i), chr(0x401 + 2 * i)) for i in range(n)) + "]",
           "a/" * n + "a",                                         # 301 components of invariant text
           "a/" * n + "*",
           "(?i)a(?-i)b" * 100 + "*",
           "**/a/" * 40 + "**",
           "<a:%d>" % n, "<a/:%d>x" % n, "<a:1,%d>" % n, "<*/:%d>b" % n, "x<{a,b}:%d,>" % n,
           "<<a:17>:17>",                                          # 289 by nesting
           "a" * n + "*", "é" * 300 + "/**",
           "{a,b}" * 9, "{a,b}/" * 9 + "*",                       # 512 flat expansions
           "*.{" + ",".join("e%d" % i for i in range(n)) + "}"]
    return out



def nest3_family(levels=3):
    """a branch whose edge terminal is a boundary or a zero-or-more wildcard, at the edge of a branch (repetition or alternation)
    that is itself at the edge of a third branch with an outside neighbour: what each level hands down to the next as context
    (`levels` = 4 wraps the middle level twice)"""
    inner = ["{a/,b}", "{/a,b}", "{a/**,b}", "{**/a,b}", "{a*,b}", "{*a,b}", "{a,b}", "<a/:1,2>", "</a:1,2>"]
    mid = ["<%s:1,2>", "<%s:0,1>", "{%s,y}", "{y,%s}", "<%sq:1,2>", "<q%s:1,2>", "<%s:1>"]
    outer = [("{x,%s}", 1), ("{%s,x}", 1), ("<%s:1,2>", 1), ("{x,%s}", 0), ("<%s:1>", 1), ("{%s}", 1)]
    sides = [("", "/c"), ("c/", ""), ("", "*c"), ("c*", ""), ("p", ""), ("", "c"), ("**/", ""), ("", "/**"), ("", "")]
    mids = mid if levels <= 3 else [a % b for a in mid for b in mid]
    out = []
    for o, _ in outer:
        for m in mids:
            for i in inner:
                core = o % (m % i)
                for l, r in sides:
                    out.append(l + core + r)
    return list(dict.fromkeys(out))



def termination_family():
    """every pair of terminations (open, first = begins with a separator, last = ends with one, closed = both, coalescent =
    tree wildcard) of two ADJACENT terms of a concatenation, each term spelled as a leaf run, an alternation and a repetition,
    between prefixes and suffixes that are rooted or not and end / begin inside a component: the 25-cell conjunction table of
    the depth fold is reached cell by cell through computed (not leaf) terms"""
    kinds = {
        "open": ["a", "{a,b}", "<a:1,2>", "<a:2>", "{a,b/c}"],
        "first": ["/a", "{/a,/b}", "</a:1,2>", "</a:2>", "{/a,/b/c}"],
        "last": ["a/", "{a/,b/}", "<a/:1,2>", "<a/:2>", "{a/,b/c/}"],
        "closed": ["/a/", "/", "{/a/,/b/}", "</a/:1>"],
        "coal": ["**", "/**/", "**/", "/**"],
    }
    pres = ["", "/", "c", "/c", "c/"]
    posts = ["", "c", "/c", "*"]
    out = []
    for X in kinds:
        for Y in kinds:
            for x in kinds[X]:
                for y in kinds[Y]:
                    for pre in pres:
                        for post in posts:
                            out.append(pre + x + y + post)
    return list(dict.fromkeys(out))



def tree_position_family():
    """the encoder chooses the form of a tree wildcard from (its position in its concatenation, the position handed down by
    the enclosing branches, rootedness): every combination that can be written, for alternations and repetitions, one and
    two levels deep, with text or a separator on either side"""
    trees = {"first": ["**/x", "/**/x"], "middle": ["x/**/y"], "last": ["x/**"], "only": ["**", "/**"]}
    wraps = ["{%s,q}", "{%s}", "<%s:1,2>", "<%s:1>", "{{%s},q}", "<{%s,q}:1,2>", "{<%s:1,2>,q}"]
    outer = ["%s", "%sb", "a%sb", "a%s", "a/%s", "%s/b", "a/%s/b"]
    out = []
    for pos, forms in trees.items():
        for f in forms:
            for w in wraps:
                for o in outer:
                    out.append(o % (w % f))
    return list(dict.fromkeys(out))



def sibling_ranges_family():
    """two (or three) sibling repetitions in one concatenation, every combination of open / closed lower and upper bounds:
    the sum of two variant ranges (bounded + bounded, open + closed, closed + open) in the depth and size folds"""
    bounds = [":0,2", ":1,", ":1,3", ":2", ":0,", ":3,", "", ":0,1", ":2,4"]
    bodies = [("a/", "b/"), ("a/", "/b"), ("a", "b/"), ("*/", "b/")]
    out = []
    for b1 in bounds:
        for b2 in bounds:
            for x, y in bodies:
                core = "<%s%s><%s%s>" % (x, b1, y, b2)
                out += [core + "c", "x/" + core + "c", core, "{" + core + "c,d}", core + "<c/:1,2>d"]
    return list(dict.fromkeys(out))



def both_edges_family():
    """an alternative (or repetition body) that BEGINS and ENDS with a boundary or a zero-or-more wildcard, with every kind of
    neighbour on either side: the rules about the two ends of a branch are checked by separate arms"""
    starts = ["**/", "/", "*", "/**/", "a"]
    ends = ["/**", "/", "*", "$", "/**/", "a"]
    out = []
    for s0 in starts:
        for e0 in ends:
            body = s0 + "a" + e0
            for l, r in [("x", "/y"), ("x", "*y"), ("", "/y"), ("", "*y"), ("x/", "y"), ("x*", "y"), ("x", "/**/y"), ("x", "y"), ("c/", "/y"), ("", "")]:
                out += [l + "{" + body + ",b}" + r, l + "{b," + body + "}" + r, l + "{c,{" + body + ",b}}" + r, l + "<" + body + ":1,3>" + r]
    return list(dict.fromkeys(out))



def nested_middle_family():
    """a tree wildcard at the edge of an alternative of a NESTED alternation whose enclosing branch token sits in the middle
    (or at either end) of its concatenation: the position handed down through two levels"""
    inner = ["a/**/", "a/**", "**/a", "/**/a", "**/", "a/**/b"]
    mid = ["y{%s,b/}", "{%s,b/}", "y{%s,b}", "{%s,b}z", "y{b/,%s}"]
    outer = ["p{%s}c", "p/<%s:1,2>c", "src/{bin/,lib%s}mod.rs", "p{%s,q}c", "{%s}c", "p{%s}", "p<%s:1>c", "p{{%s}}c"]
    out = []
    for o in outer:
        for m in mid:
            for i in inner:
                out.append(o % (m % i))
    return list(dict.fromkeys(out))


def flag_scope_family():
    """case flags written BEFORE or INSIDE a group (alternation, repetition, class in a branch), next to literals without
    cased characters (their text stays invariant under (?i)): the scope of a flag crosses group boundaries in the
    expression (it threads left to right) but every literal is compiled under its own flag"""
    pres = ["(?i)2024", "(?i)1", "(?i)7/", "(?i)_", "(?i)a", "2024", "(?i)2/(?-i)x(?i)3"]
    groups = ["{log,log}", "<ab:2>", "{log}", "{[b]}", "<x:1>", "{x,x}", "<[b]:2>", "{a{b,b}}", "<<b:1>:2>", "{b/c}", "{é}", "<ǆ:1>"]
    out = []
    for p in pres:
        for g in groups:
            out += [p + "(?-i)" + g, p + g[0] + "(?-i)" + g[1:], p + g, p + "(?-i)" + g + "(?i)9", p + g + "(?-i)z", p + "(?i)" + g]
    return list(dict.fromkeys(out))


def inherited_neighbour_family():
    """a rule violation between the terminal of a NESTED branch and a neighbour the nested branch INHERITS from an enclosing
    one (the error correlates two spans: the inherited neighbour, left or right, and the terminal)"""
    rights = [("c/", "/d"), ("c/**", "/d"), ("c*", "*d"), ("c/", "/**/d"), ("c$", "*d"), ("é/", "/é"), ("c", "d")]
    lefts = [("/c", "a/"), ("**/c", "a/"), ("*c", "a*"), ("/c", "a/**/"), ("/é", "é/"), ("c", "a")]
    out = []
    for x, r in rights:
        out += ["{a,{b,%s}}%s" % (x, r), "{{b,%s},a}%s" % (x, r), "<a{b,%s}:1,>%s" % (x, r), "{a,<b%s:2>}%s" % (x, r), "{a,{b,{e,%s}}}%s" % (x, r),
                "x/{a,{b,%s}}%s" % (x, r), "{a,{%s,b}}%s" % (x, r), "{a,{b,%s}q}%s" % (x, r), "{a,<{b,%s}:1,2>}%s" % (x, r)]
    for x, l in lefts:
        out += ["%s{a,{b,%s}}" % (l, x), "%s{{%s,b},a}" % (l, x), "%s<{b,%s}a:1,>" % (l, x), "%s{a,<%sb:2>}" % (l, x), "%s{a,{b,{e,%s}}}" % (l, x),
                "%s{a,{b,%s}}/y" % (l, x), "%s{a,q{%s,b}}" % (l, x)]
    return list(dict.fromkeys(out))


def flag_class_family():
    """a case flag in force NEXT TO a class (classes are always case-sensitive), with caseless and cased literals around it,
    at the place where partition cuts (after an invariant literal prefix) and inside branches"""
    pres = ["(?i)2024/", "(?i)a/", "(?i)1", "(?i)x", "(?i)é/", "(?i)", "(?i)2024/(?-i)", "a/(?i)"]
    classes = ["[ab]", "[!a]", "[a-c]", "[é]", "[B]", "[a-cX]"]
    posts = ["*.txt", "", "x", "/b", "(?-i)x", "{a,B}", "<c:1,2>"]
    out = []
    for p in pres:
        for c in classes:
            for q in posts:
                out += [p + c + q, p + "{" + c + q + ",z}", p + "<" + c + ":1,2>" + q]
    return list(dict.fromkeys(out))


def exact_repetition_family():
    """repetitions with an EXACT count of three or more whose body's text has several fragments (names and separators in every
    arrangement): the invariant text is the body written out n times, and joining the copies is where fragments meet"""
    bodies = ["a/b", "a/b/c", "ab/c", "a/bc", "/a/b", "a/b/", "/a", "a/", "a", "ab", "a/b/c/d", "é/b", "a/(?i)1", "[a]/b", "{a/b}", "<a/b:1>", "a/{b}"]
    out = []
    for b in bodies:
        for n in (2, 3, 4, 5):
            core = "<%s:%d>" % (b, n)
            out += [core, core + "/*.txt", "x/" + core if not b.startswith("/") else "x" + core, core + "y" if not b.endswith("/") else core + "y", "{" + core + "}", "<" + core + ":2>"]
    return list(dict.fromkeys(out))
