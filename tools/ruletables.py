"""The three decision tables of the branch rule (`check_branch`, `check_alternation`, `check_repetition` in src/rule.rs), read
from the Rust source and EVALUATED over their whole abstract domain.

Each function is one `match terminals.map(|token| (token, token.as_leaf())) { ... }` whose arms are patterns over the shape of
the terminals (`Only(t)` / `StartEnd(s, e)`), the leaf kind of each terminal (separator, rooted / unrooted tree wildcard,
zero-or-more wildcard, any other leaf, or no leaf = a branch token) and guards over a handful of boolean observations of the
neighbours. The evaluator parses patterns, guards and bodies and runs the match, first arm first, on every point of the
domain, so the ORDER of the arms, or-patterns, wildcards and layout are immaterial as long as the function computes the same
table. Anything it does not understand raises `Missing`: the tie by regeneration then no longer applies to that table.
"""
import re


class Missing(Exception):
    pass


KINDS = ["sep", "treeR", "treeU", "zom", "leaf", "branch"]
CODES = {"Ok": 0, "AdjacentBoundary": 1, "SingularTree": 2, "AdjacentZeroOrMore": 3, "RootedSubGlob": 4, "SingularZeroOrMore": 5}
KNOWN_CTORS = {"Only", "StartEnd", "Some", "None", "Separator", "Wildcard", "Tree", "ZeroOrMore"}
TOK = re.compile(r"\s*(=>|\.\.|&&|\|\||[A-Za-z_][A-Za-z0-9_]*(?:::[A-Za-z_][A-Za-z0-9_]*)*|[(){}|,.:;!&<>=\[\]'*-])")


def tokens(text):
    text = re.sub(r"//[^\n]*", "", text)
    out, pos = [], 0
    while pos < len(text):
        m = TOK.match(text, pos)
        if not m:
            if text[pos:].strip() == "":
                break
            raise Missing("cannot tokenize %r" % text[pos:pos + 30])
        out.append(m.group(1))
        pos = m.end()
    return out


def kind_value(k):
    if k == "sep":
        return ("Some", [("Separator", ["*"])])
    if k == "treeR":
        return ("Some", [("Wildcard", [("Tree", {"has_root": True})])])
    if k == "treeU":
        return ("Some", [("Wildcard", [("Tree", {"has_root": False})])])
    if k == "zom":
        return ("Some", [("Wildcard", [("ZeroOrMore", ["*"])])])
    if k == "leaf":
        return ("Some", [("OtherLeaf", ["*"])])
    return ("None", [])


class Pat:
    def __init__(self, toks):
        self.t, self.i = toks, 0

    def peek(self):
        return self.t[self.i] if self.i < len(self.t) else None

    def eat(self, x=None):
        t = self.peek()
        if t is None or (x is not None and t != x):
            raise Missing("pattern: expected %r, found %r" % (x, t))
        self.i += 1
        return t

    def pattern(self):
        alts = [self.alt()]
        while self.peek() == "|":
            self.eat("|")
            alts.append(self.alt())
        return ("or", alts) if len(alts) > 1 else alts[0]

    def alt(self):
        t = self.peek()
        if t == "(":
            self.eat("(")
            items = [self.pattern()]
            while self.peek() == ",":
                self.eat(",")
                if self.peek() == ")":
                    break
                items.append(self.pattern())
            self.eat(")")
            return ("tuple", items) if len(items) > 1 else items[0]
        if t in ("ref", "mut", "&"):
            self.eat()
            return self.alt()
        name = self.eat()
        if not re.match(r"[A-Za-z_]", name):
            raise Missing("pattern: unexpected %r" % name)
        if name == "_":
            return ("wild",)
        if name in ("true", "false"):
            return ("lit", name == "true")
        short = name.split("::")[-1]
        if self.peek() == "(":
            self.eat("(")
            args = []
            while self.peek() != ")":
                args.append(self.pattern())
                if self.peek() == ",":
                    self.eat(",")
            self.eat(")")
            return ("ctor", short, args)
        if self.peek() == "{":
            self.eat("{")
            fields, rest = {}, False
            while self.peek() != "}":
                if self.peek() == "..":
                    self.eat("..")
                    rest = True
                else:
                    f = self.eat()
                    if self.peek() == ":":
                        self.eat(":")
                        fields[f] = self.pattern()
                    else:
                        fields[f] = ("bind", f)
                if self.peek() == ",":
                    self.eat(",")
            self.eat("}")
            return ("struct", short, fields, rest)
        if short[0].isupper():
            return ("ctor", short, [])
        return ("bind", short)


def pmatch(p, v, env):
    k = p[0]
    if k == "wild":
        return True
    if k == "bind":
        env[p[1]] = v
        return True
    if k == "or":
        for a in p[1]:
            e2 = dict(env)
            if pmatch(a, v, e2):
                env.clear()
                env.update(e2)
                return True
        return False
    if v == "*":
        raise Missing("pattern looks into a payload the abstraction does not carry")
    if k == "lit":
        return v is p[1]
    if k == "tuple":
        return isinstance(v, tuple) and v and v[0] == "tuple" and len(v[1]) == len(p[1]) and all(pmatch(a, b, env) for a, b in zip(p[1], v[1]))
    if k == "ctor":
        if p[1] not in KNOWN_CTORS:
            raise Missing("pattern names %s, which the abstraction of leaf kinds does not distinguish" % p[1])
        return isinstance(v, tuple) and v[0] == p[1] and isinstance(v[1], list) and len(v[1]) == len(p[2]) and all(pmatch(a, b, env) for a, b in zip(p[2], v[1]))
    if k == "struct":
        if p[1] not in KNOWN_CTORS:
            raise Missing("pattern names %s" % p[1])
        if not (isinstance(v, tuple) and v[0] == p[1] and isinstance(v[1], dict)):
            return False
        if not p[3] and set(p[2]) != set(v[1]):
            raise Missing("struct pattern without `..` does not list the fields the abstraction knows")
        return all(f in v[1] and pmatch(q, v[1][f], env) for f, q in p[2].items())
    raise Missing("pattern kind %r" % k)


def split_arms(toks):
    """[(pattern tokens, guard tokens or None, body tokens)]"""
    arms, i, n = [], 0, len(toks)

    def until(stop, i):
        depth, j = 0, i
        while j < n:
            t = toks[j]
            if depth == 0 and t in stop:
                return j
            if t in "([{":
                depth += 1
            elif t in ")]}":
                depth -= 1
            j += 1
        raise Missing("arm: no %r" % (stop,))
    while i < n:
        if toks[i] == "|":
            i += 1
        j = until(("if", "=>"), i)
        pat = toks[i:j]
        guard = None
        if toks[j] == "if":
            k = until(("=>",), j + 1)
            guard = toks[j + 1:k]
            j = k
        j += 1
        if j < n and toks[j] == "{":
            depth, k = 0, j
            while True:
                if toks[k] == "{":
                    depth += 1
                elif toks[k] == "}":
                    depth -= 1
                    if depth == 0:
                        break
                k += 1
            body = toks[j + 1:k]
            i = k + 1
            if i < n and toks[i] == ",":
                i += 1
        else:
            depth, k = 0, j
            while k < n and not (depth == 0 and toks[k] == ","):
                if toks[k] in "([{":
                    depth += 1
                elif toks[k] in ")]}":
                    depth -= 1
                k += 1
            body = toks[j:k]
            i = k + 1
        arms.append((pat, guard, body))
    return arms


def guard_atoms(guard):
    atoms, cur, depth = [], [], 0
    for t in guard:
        if t == "||":
            raise Missing("guard uses ||")
        if t == "&&" and depth == 0:
            atoms.append("".join(cur))
            cur = []
            continue
        if t in "([{":
            depth += 1
        elif t in ")]}":
            depth -= 1
        cur.append(t)
    atoms.append("".join(cur))
    return atoms


def is_boundary_kind(k):
    return k in ("sep", "treeR", "treeU")


def eval_guard(atoms, env, point, outer_names):
    """point: dict with the kinds and the boolean observations"""
    for a in atoms:
        m = re.fullmatch(r"has_(ending|starting)_(boundary|zom)\((\w+)\)", a)
        if m:
            side = {"ending": "left", "starting": "right"}[m.group(1)]
            if m.group(3) != side or m.group(3) in env or side not in outer_names:
                raise Missing("guard %s: not the %s neighbour of the branch" % (a, side))
            if not point[{"left": "L", "right": "R"}[side] + {"boundary": "B", "zom": "Z"}[m.group(2)]]:
                return False
            continue
        m = re.fullmatch(r"(\w+)\.is_none\(\)", a)
        if m:
            if m.group(1) != "left" or "left" in env or "left" not in outer_names:
                raise Missing("guard %s" % a)
            if not point["LN"]:
                return False
            continue
        if a == "lower.is_unbounded()":
            if "lower" in env or not point.get("has_lower"):
                raise Missing("guard %s: `lower` is not the lower bound of the repetition" % a)
            if not point["LU"]:
                return False
            continue
        m = re.fullmatch(r"(\w+)\.has_root\(\)\.is_maybe_true\(\)", a)
        if m:
            pos = env.get(m.group(1))
            if pos != "start":
                raise Missing("guard %s: not about the first terminal" % a)
            if not point["HR"]:
                return False
            continue
        m = re.fullmatch(r"(\w+)\.boundary\(\)\.and\((\w+)\.boundary\(\)\)\.is_some\(\)", a)
        if m:
            p1, p2 = env.get(m.group(1)), env.get(m.group(2))
            if p1 not in ("start", "end") or p2 not in ("start", "end"):
                raise Missing("guard %s: not about the terminals" % a)
            if not (is_boundary_kind(point[p1]) and is_boundary_kind(point[p2])):
                return False
            continue
        raise Missing("guard atom %r is not understood" % a)
    return True


def body_code(body):
    s = "".join(body)
    if re.fullmatch(r"Ok\(\(\)\)", s):
        return 0
    m = re.fullmatch(r"Err\(CorrelatedError::new\(RuleErrorKind::(\w+),(.+?),(\w+),?\),?\)", s)
    if not m or m.group(1) not in CODES:
        raise Missing("arm body %r is not understood" % s[:80])
    return CODES[m.group(1)]


def function_text(src, name):
    m = re.search(r"fn %s<[^{]*\{" % name, src, re.S)
    if not m:
        raise Missing("fn %s" % name)
    depth, j = 0, m.end() - 1
    while True:
        if src[j] == "{":
            depth += 1
        elif src[j] == "}":
            depth -= 1
            if depth == 0:
                break
        j += 1
    return src[m.end():j]


def table(src, name, atoms_names):
    """rows in the order: only (1, 0) x start kind x end kind x the boolean atoms (each 0, 1), last atom fastest"""
    body = re.sub(r"//[^\n]*", "", function_text(src, name))
    flat = re.sub(r"\s+", "", body)
    m = re.search(r"letOuter\{([a-z_,.]*)\}=outer;", flat)
    if not m:
        raise Missing("%s: the neighbours are not destructured from `outer`" % name)
    outer_names = set(x for x in m.group(1).split(",") if x in ("left", "right"))
    has_lower = "letlower=variance.lower().into_bound();" in flat
    k = body.find("match terminals.map(|token| (token, token.as_leaf()))")
    if k < 0:
        flat2 = flat.find("matchterminals.map(|token|(token,token.as_leaf()))")
        if flat2 < 0:
            raise Missing("%s: the scrutinee is not `terminals.map(|token| (token, token.as_leaf()))`" % name)
        k = body.find("match")
    i = body.index("{", body.index("as_leaf", k))
    depth, j = 0, i
    while True:
        if body[j] == "{":
            depth += 1
        elif body[j] == "}":
            depth -= 1
            if depth == 0:
                break
        j += 1
    if re.sub(r"\s+", "", body[j + 1:]) not in ("", ";"):
        raise Missing("%s: something follows the match" % name)
    arms = [(Pat(p).pattern(), guard_atoms(g) if g is not None else [], body_code(b)) for p, g, b in split_arms(tokens(body[i + 1:j]))]
    rows = []
    import itertools
    for only in (True, False):
        for s in KINDS:
            for e in KINDS:
                for bits in itertools.product((False, True), repeat=len(atoms_names)):
                    point = dict(zip(atoms_names, bits))
                    point.update({"start": s, "end": s if only else e, "has_lower": has_lower})
                    tok = lambda pos: ("tuple", [pos, kind_value(point[pos])])
                    val = ("Only", [tok("start")]) if only else ("StartEnd", [tok("start"), tok("end")])
                    for pat, atoms, code in arms:
                        env = {}
                        if pmatch(pat, val, env):
                            # a name bound to a terminal stands for its position; for `Only` the sole terminal is both ends
                            env = {k2: v2 for k2, v2 in env.items() if v2 in ("start", "end")}
                            if eval_guard(atoms, env, point, outer_names):
                                rows.append(code)
                                break
                    else:
                        raise Missing("%s: no arm matches" % name)
    return rows


SPECS = [("check_branch", "checkBranch", ["LB", "RB", "LZ", "RZ"]),
         ("check_alternation", "checkAlternation", ["LN", "HR"]),
         ("check_repetition", "checkRepetition", ["LN", "LU", "HR"])]


def lean_lines(src):
    out = ["/-- the leaf kinds the branch rule distinguishes: separator, rooted / unrooted tree wildcard, zero-or-more wildcard, any other",
           "    leaf, no leaf (a branch token) -/",
           "inductive TK where | sep | treeR | treeU | zom | leaf | branch deriving DecidableEq, Repr",
           "def TK.idx : TK → Nat | .sep => 0 | .treeR => 1 | .treeU => 2 | .zom => 3 | .leaf => 4 | .branch => 5",
           "def b2n (b : Bool) : Nat := if b then 1 else 0",
           "/-! verdict codes: 0 ok, 1 adjacent boundary, 2 singular tree, 3 adjacent zero-or-more, 4 rooted sub-glob, 5 singular zero-or-more.",
           "    Rows: `Only` first, then start kind, end kind (for `Only` the sole terminal is both), then the observations, last fastest. -/"]
    for rust, lean, atoms in SPECS:
        rows = table(src, rust, atoms)
        w = 2 ** len(atoms)
        groups = [rows[i:i + w] for i in range(0, len(rows), w)]
        out.append("def %sRows : List (List Nat) := [%s]" % (lean, ", ".join("[" + ", ".join(str(r) for r in g) + "]" for g in groups)))
        args = " ".join("(%s : Bool)" % a.lower() for a in atoms)
        idx = "b2n %s" % atoms[0].lower()
        for a in atoms[1:]:
            idx = "(%s) * 2 + b2n %s" % (idx, a.lower())
        out.append("/-- `%s` of src/rule.rs, evaluated on every point of its domain (%s) -/" % (rust, ", ".join(atoms)))
        out.append("def %s (only : Bool) (s e : TK) %s : Nat := ((%sRows.getD ((b2n (!only) * 6 + s.idx) * 6 + e.idx) []).getD (%s) 9)" % (lean, args, lean, idx))
    return out


if __name__ == "__main__":
    import sys
    print("\n".join(lean_lines(open(sys.argv[1] if len(sys.argv) > 1 else "/repo/src/rule.rs").read())))
