#!/usr/bin/env python3
"""Regenerates MANIFEST.json from tools/manifest_src.json (claims) — keeps it valid at all times."""
import json, os
HERE = os.path.dirname(os.path.dirname(os.path.abspath(__file__)))
src = json.load(open(os.path.join(HERE, "tools", "manifest_src.json"), encoding="utf-8"))
props = [json.loads(l) for l in open(os.path.join(HERE, "properties.jsonl"), encoding="utf-8")]
ids = [p["id"] for p in props]
checks = []
for pid in ids:
    c = src["claims"].get(pid)
    if not c:
        continue
    checks.append({
        "property_id": pid,
        "quick_cmd": "./check %s --tier quick" % pid,
        "thorough_cmd": "./check %s --tier thorough" % pid,
        "evidence_file": "/verif/evidence/%s.json" % pid,
        "replay_cmd_template": "./check %s --replay {path}" % pid,
        "engine": "lean-proof+correspondence",
        "level_claimed": {"category": "proof", "text": c["text"], "design_ref": c.get("design_ref", "DESIGN.md section 5, %s" % pid)},
        "level_note": c["note"],
        "technique": c.get("technique", "Lean 4 theorems over a hand-written model + correspondence check against the real crate"),
    })
na = [{"property_id": pid, "reason": src["not_applicable"].get(pid, "check under construction in this round; not claimed yet")} for pid in ids if pid not in src["claims"]]
m = {
    "version": 1,
    "setup_cmd": "./setup.sh",
    "hooks": {
        "guard": "olson_sean_k_wax_verif",
        "enable": "RUSTFLAGS=\"--cfg olson_sean_k_wax_verif\" (set for the harness in /verif/harness/.cargo/config.toml; the harness depends on /repo by path)",
        "baseline_off_cmd": "cd /repo && cargo test --workspace --no-fail-fast --offline",
        "source_commits": src["hook_commits"],
        "add_only": True,
    },
    "engines": [
        {"name": "lean-proof+correspondence", "path": "/verif/lean, /verif/harness, /verif/check",
         "serves_properties": [c["property_id"] for c in checks],
         "kind_free_text": "Lean 4 model and theorems (kernel-checked on every run), tables regenerated from /repo/src, correspondence check between the model's executable definitions and the real crate, exact per-expression automata decisions as a search aid"}],
    "checks": checks,
    "notes": src.get("notes", ""),
    "not_applicable": na,
}
json.dump(m, open(os.path.join(HERE, "MANIFEST.json"), "w", encoding="utf-8"), indent=1, ensure_ascii=False)
print("claims:", len(checks), "not claimed:", len(na))
