"""A small translator from straight-line Rust integer functions to Lean 4 definitions over `Nat`.

It reads the body of a named method out of the Rust source, parses it with a recursive-descent parser for
the fragment these functions are written in (let-chains, `if … else …`, tuples, field access, method-call
chains, integer literals, line comments) and prints a Lean definition. `usize` is `Nat`; the methods that
depend on the width are translated to the helper definitions printed by `PRELUDE` (`satSub`, `satAdd`,
`checkedAddExpect`), so the width is visible in the theorems that use the result. Anything outside the
fragment raises `Untranslatable`: the caller reports that the tie by regeneration no longer applies to that
function (a harmless rewrite can cause that too; the check then falls back to the correspondence).

Receivers and opaque calls are mapped to parameters by the `opaque` table the caller passes: e.g.
`path.is_absolute()` -> `pathIsAbsolute : Bool`. Calls of other translated methods on `self` are mapped by
`calls`: e.g. `self.max()` -> `depthMinMaxMax self_min self_extent`.
"""
import re


class Untranslatable(Exception):
    pass


PRELUDE = """/-- `usize::MAX` on the 64-bit targets the crate is checked on -/
def usizeMax : Nat := 2 ^ 64 - 1
/-- `usize::saturating_sub` -/
def satSub (a b : Nat) : Nat := a - b
/-- `usize::saturating_add` / `NonZeroUsize::saturating_add` -/
def satAdd (a b : Nat) : Nat := if a + b ≤ usizeMax then a + b else usizeMax
/-- `a.checked_add(b).expect(..)`: the sum; the panic on overflow is the side condition `a + b ≤ usizeMax` -/
def checkedAddExpect (a b : Nat) : Nat := a + b
/-- `a.checked_mul(b).expect(..)`: the product; the panic on overflow is the side condition `a * b ≤ usizeMax` -/
def checkedMulExpect (a b : Nat) : Nat := a * b"""


def method_body(src, impl_pat, fn_name):
    """text between the braces of `fn fn_name` inside the first `impl` block whose header matches impl_pat"""
    m = re.search(impl_pat, src)
    if not m:
        raise Untranslatable("impl block %r not found" % impl_pat)
    i = src.index("{", m.end() - 1) if src[m.end() - 1] != "{" else m.end() - 1
    depth, j = 0, i
    while True:
        c = src[j]
        if c == "{":
            depth += 1
        elif c == "}":
            depth -= 1
            if depth == 0:
                break
        j += 1
    block = src[i:j + 1]
    m2 = re.search(r"fn %s\s*(<[^>]*>)?\s*\(([^)]*)\)\s*(->\s*[^{]+)?\{" % re.escape(fn_name), block)
    if not m2:
        raise Untranslatable("fn %s not found in %r" % (fn_name, impl_pat))
    k = m2.end() - 1
    depth, j = 0, k
    while True:
        c = block[j]
        if c == "{":
            depth += 1
        elif c == "}":
            depth -= 1
            if depth == 0:
                break
        j += 1
    return block[k + 1:j], m2.group(2)


TOKEN = re.compile(r"\s*(//[^\n]*|[A-Za-z_][A-Za-z0-9_]*|\d+|\"(?:[^\"\\]|\\.)*\"|==|!=|<=|>=|&&|\|\||[-+*(){}\[\].,;=<>!&:])")


def tokenize(text):
    out, pos = [], 0
    text = text.rstrip()
    while pos < len(text):
        m = TOKEN.match(text, pos)
        if not m:
            if text[pos:].strip() == "":
                break
            raise Untranslatable("cannot tokenize at %r" % text[pos:pos + 30])
        t = m.group(1)
        pos = m.end()
        if not t.startswith("//"):
            out.append(t)
    return out


class Parser:
    def __init__(self, toks, opaque, calls, fields, rename=None):
        self.t, self.i = toks, 0
        self.opaque, self.calls, self.fields = opaque, calls, fields
        self.rename = rename or {}   # Rust parameter name -> Lean parameter name (positional: a renamed parameter is harmless)
        self.used = []           # parameters in order of first use

    def peek(self, k=0):
        return self.t[self.i + k] if self.i + k < len(self.t) else None

    def eat(self, x=None):
        t = self.peek()
        if t is None or (x is not None and t != x):
            raise Untranslatable("expected %r, found %r" % (x, t))
        self.i += 1
        return t

    def use(self, name, typ):
        if typ is None:
            return name              # an ignored (non-numeric) value, e.g. the path component of a returned pair
        if (name, typ) not in self.used:
            self.used.append((name, typ))
        return name

    # block := (let ident = expr ;)* expr
    def block(self, env):
        env = dict(env)
        lets = []
        while self.peek() == "let":
            self.eat("let")
            if self.peek() == "mut":
                raise Untranslatable("mutable binding")
            name = self.eat()
            if not re.match(r"[a-z_][a-z0-9_]*$", name):
                raise Untranslatable("pattern binding %r" % name)
            self.eat("=")
            # a binding whose right-hand side is a declared opaque value of no numeric content (a path, a reference)
            # introduces no Lean binding: the name keeps denoting that opaque value
            j = self.i
            while j < len(self.t) and self.t[j] != ";":
                j += 1
            rhs = self.source_of(self.i, j)
            if self.opaque.get(rhs) == "DROP":
                self.i = j
                self.eat(";")
                continue
            e = self.expr(env)
            self.eat(";")
            v = name + "_" + str(sum(1 for n, _ in lets if n.split("_")[0] == name) + 1)
            lets.append((v, e))
            env[name] = v
        e = self.expr(env)
        for v, d in reversed(lets):
            e = "(let %s := %s; %s)" % (v, d, e)
        return e

    def expr(self, env):
        if self.peek() == "if":
            self.eat("if")
            c = self.cond(env)
            self.eat("{")
            a = self.block(env)
            self.eat("}")
            self.eat("else")
            self.eat("{")
            b = self.block(env)
            self.eat("}")
            return "(if %s then %s else %s)" % (c, a, b)
        return self.chain(env)

    def cond(self, env):
        # a condition is an opaque boolean call chain, or a comparison of two chains
        start = self.i
        a = self.chain(env, boolean=True)
        op = self.peek()
        if op in ("==", "!=", "<=", ">=", "<", ">"):
            self.eat()
            b = self.chain(env)
            lean = {"==": "==", "!=": "!=", "<=": "≤", ">=": "≥", "<": "<", ">": ">"}[op]
            return "(%s %s %s)" % (a, lean, b) if op in ("==", "!=") else "decide (%s %s %s)" % (a, lean, b)
        return a

    def source_of(self, a, b):
        return "".join(self.t[a:b])

    def chain(self, env, boolean=False):
        start = self.i
        t = self.peek()
        if t == "(":
            self.eat("(")
            items = [self.expr(env)]
            while self.peek() == ",":
                self.eat(",")
                if self.peek() == ")":
                    break
                items.append(self.expr(env))
            self.eat(")")
            cur = items[0] if len(items) == 1 else "(" + ", ".join(items) + ")"
        elif t is not None and t.isdigit():
            cur = self.eat()
        elif t is not None and re.match(r"[A-Za-z_]", t):
            cur = self.eat()
            if cur in env:
                cur = env[cur]
            elif cur != "self":
                if cur in self.opaque or any(k.startswith(cur + ".") for k in self.opaque):
                    cur = "@" + cur      # an opaque receiver, resolved below
                elif re.match(r"[a-z_][a-z0-9_]*$", cur):
                    cur = self.use(self.rename.get(cur, cur), "Nat")   # a plain numeric parameter of the function
                else:
                    raise Untranslatable("identifier %r" % cur)
        else:
            raise Untranslatable("unexpected token %r" % t)
        while self.peek() == ".":
            self.eat(".")
            name = self.eat()
            args = None
            if self.peek() == "(":
                self.eat("(")
                args = []
                while self.peek() != ")":
                    if self.peek() is not None and self.peek().startswith('"'):
                        args.append(self.eat())
                    else:
                        args.append(self.expr(env))
                    if self.peek() == ",":
                        self.eat(",")
                self.eat(")")
            src = self.source_of(start, self.i)
            if src in self.opaque and self.opaque[src] != "DROP":
                pname, typ = self.opaque[src]
                cur = self.use(pname, typ)
                continue
            if cur == "self" and args is None:
                if name not in self.fields:
                    raise Untranslatable("field self.%s" % name)
                cur = self.use(self.fields[name], "Nat")
                continue
            if cur == "self" and args == [] and name in self.calls:
                fn, fl = self.calls[name]
                cur = "(%s %s)" % (fn, " ".join(self.use(self.fields[f], "Nat") for f in fl))
                continue
            if cur == "self" and args is not None and "" in self.fields and not any(k.startswith(src) for k in self.opaque):
                cur = self.use(self.fields[""], "Nat")     # `self` is the number itself (impl … for usize)
            if cur.startswith("@") or cur == "self":
                # part of an opaque prefix that is completed by a later segment
                if any(k.startswith(src) and k != src for k in self.opaque):
                    cur = "@" + src
                    continue
                raise Untranslatable("call on %s: .%s" % (cur, name))
            if name in ("get", "into") and args == []:
                continue
            if name == "saturating_sub" and len(args) == 1:
                cur = "(satSub %s %s)" % (cur, args[0])
            elif name == "saturating_add" and len(args) == 1:
                cur = "(satAdd %s %s)" % (cur, args[0])
            elif name == "checked_add" and len(args) == 1 and self.peek() == "." and self.peek(1) == "expect":
                self.eat(".")
                self.eat("expect")
                self.eat("(")
                self.eat()
                self.eat(")")
                cur = "(checkedAddExpect %s %s)" % (cur, args[0])
            elif name == "checked_mul" and len(args) == 1 and self.peek() == "." and self.peek(1) == "expect":
                self.eat(".")
                self.eat("expect")
                self.eat("(")
                self.eat()
                self.eat(")")
                cur = "(checkedMulExpect %s %s)" % (cur, args[0])
            else:
                raise Untranslatable("method .%s/%s" % (name, "-" if args is None else len(args)))
        if cur.startswith("@"):
            name = cur[1:]
            if name in self.opaque:
                pname, typ = self.opaque[name]
                return self.use(pname, typ)
            if re.match(r"[a-z_][a-z0-9_]*$", name):
                return self.use(name, "Nat")      # a plain parameter of the function
            raise Untranslatable("unresolved receiver %r" % name)
        return cur


def translate(src, impl_pat, fn_name, lean_name, ret, opaque=None, calls=None, fields=None, project=None, params=None):
    """-> Lean definition text. `project`: keep only that component of a final tuple. `params`: fixed parameter order."""
    body, sig = method_body(src, impl_pat, fn_name)
    toks = tokenize(body)
    # numeric parameters are matched by POSITION: the names in the Rust signature (without the receiver) are mapped onto the
    # declared Lean parameters that are not receiver fields, in order
    rust_params = [x.split(":")[0].strip() for x in sig.split(",") if x.strip() and not re.match(r"\s*&?\s*(mut\s+)?self\s*$", x)]
    rename = {}
    if params is not None:
        field_names = set((fields or {}).values())
        lean_params = [n for n, t in params if n not in field_names and t == "Nat" and n not in [v[0] for v in (opaque or {}).values() if isinstance(v, tuple)]]
        numeric_rust = [r0 for r0 in rust_params if not any(k == r0 or k.startswith(r0 + ".") for k in (opaque or {}))]
        if len(numeric_rust) == len(lean_params):
            rename = dict(zip(numeric_rust, lean_params))
    p = Parser(toks, opaque or {}, calls or {}, fields or {}, rename)
    e = p.block({})
    if p.peek() is not None:
        raise Untranslatable("trailing tokens after the body of %s: %r" % (fn_name, p.t[p.i:p.i + 5]))
    if project is not None:
        m = re.match(r"^((?:\(let [^;]*; )*)\((.*)\)(\)*)$", e, re.S)
        if not m:
            raise Untranslatable("%s does not end in a tuple" % fn_name)
        parts, depth, cur = [], 0, ""
        for ch in m.group(2):
            if ch == "(":
                depth += 1
            elif ch == ")":
                depth -= 1
            if ch == "," and depth == 0:
                parts.append(cur.strip())
                cur = ""
            else:
                cur += ch
        parts.append(cur.strip())
        # the opaque components of the tuple are not Lean terms: keep the projected one only
        e = m.group(1) + parts[project] + m.group(3)
    used = p.used
    if params is not None:
        names = dict(used)
        extra = [n for n, _ in used if n not in [q for q, _ in params]]
        if extra:
            raise Untranslatable("%s uses values outside its declared inputs: %s" % (fn_name, extra))
        used = params
    sig = " ".join("(%s : %s)" % (n, t) for n, t in used)
    return "def %s %s : %s :=\n  %s" % (lean_name, sig, ret, e)
