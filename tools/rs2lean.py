"""A small translator from straight-line Rust integer functions to Lean 4 definitions over `Nat`.

It reads the body of a named method out of the Rust source, parses it with a recursive-descent parser for
the fragment these functions are written in (let-chains incl. destructuring of the receiver, `if … else …`,
`if … { …; return e; }` followed by the rest, `!`, comparisons, tuples, field access, method-call chains,
integer literals, line comments) and prints a Lean definition. `usize` is `Nat`; the methods that depend on
the width are translated to the helper definitions printed by `PRELUDE` (`satSub`, `satAdd`,
`checkedAddExpect`, `checkedMulExpect`), so the width is visible in the theorems that use the result.
Anything outside the fragment raises `Untranslatable`: the caller reports that the tie by translation no
longer applies to that function (a harmless rewrite can cause that too; the check then falls back to the
correspondence).

Values of no numeric content (paths, references) are OPAQUE: the parser tracks them symbolically by a
canonical spelling in which the function's parameters are named by position (`P0`, `P1`, ..; the receiver is
`self`) and local names are replaced by what they were bound to, so renaming a parameter or a local, or
introducing a `let`, does not change the spelling. The caller's `opaque` table maps canonical spellings of
the numeric or boolean OBSERVATIONS of such values to Lean parameters, e.g.
`P0.as_ref().is_absolute()` -> `pathIsAbsolute : Bool`. Calls of other translated methods on `self` are
mapped by `calls`: e.g. `self.max()` -> `depthMinMaxMax self_min self_extent`.
"""
import re


class Untranslatable(Exception):
    pass


PRELUDE = """/-- `usize::MAX` on the 64-bit targets the crate is checked on -/
def usizeMax : Nat := 2 ^ 64 - 1
/-- `usize::saturating_sub` -/
def satSub (a b : Nat) : Nat := a - b
/-- `usize::saturating_add` / `NonZeroUsize::saturating_add` -/
def satAdd (a b : Nat) : Nat := if a + b ≤ usizeMax then a + b else usizeMax
/-- `a.checked_add(b).expect(..)`: the sum; the panic on overflow is the side condition `a + b ≤ usizeMax` -/
def checkedAddExpect (a b : Nat) : Nat := a + b
/-- `a.checked_mul(b).expect(..)`: the product; the panic on overflow is the side condition `a * b ≤ usizeMax` -/
def checkedMulExpect (a b : Nat) : Nat := a * b"""


def _block_after(src, start):
    """inner text of the brace block that opens at or after `start`"""
    i = src.index("{", start)
    depth, j = 0, i
    while True:
        c = src[j]
        if c == "{":
            depth += 1
        elif c == "}":
            depth -= 1
            if depth == 0:
                break
        j += 1
    return src[i + 1:j]


def method_body(src, impl_pat, fn_name):
    """(body text, parameter list text) of `fn fn_name` inside the first `impl` block whose header matches impl_pat"""
    m = re.search(impl_pat, src)
    if not m:
        raise Untranslatable("impl block %r not found" % impl_pat)
    block = _block_after(src, m.end() - 1 if src[m.end() - 1] == "{" else m.end())
    m2 = re.search(r"fn %s\s*(<[^>]*>)?\s*\(([^)]*)\)\s*(->\s*[^{]+)?\{" % re.escape(fn_name), block)
    if not m2:
        raise Untranslatable("fn %s not found in %r" % (fn_name, impl_pat))
    return _block_after(block, m2.end() - 1), m2.group(2)


TOKEN = re.compile(r"\s*(//[^\n]*|[A-Za-z_][A-Za-z0-9_]*|\d+|\"(?:[^\"\\]|\\.)*\"|==|!=|<=|>=|&&|\|\||[-+*(){}\[\].,;=<>!&:])")


def tokenize(text):
    out, pos = [], 0
    text = text.rstrip()
    while pos < len(text):
        m = TOKEN.match(text, pos)
        if not m:
            if text[pos:].strip() == "":
                break
            raise Untranslatable("cannot tokenize at %r" % text[pos:pos + 30])
        t = m.group(1)
        pos = m.end()
        if not t.startswith("//"):
            out.append(t)
    return out


class Opaque:
    """a value of no numeric content, known by its canonical spelling"""

    def __init__(self, canon):
        self.canon = canon


class Tup:
    def __init__(self, items):
        self.items = items


NUMERIC_METHODS = ("get", "into", "saturating_sub", "saturating_add", "checked_add", "checked_mul")


class Parser:
    def __init__(self, toks, opaque, calls, fields, rust_params, numeric_names, project):
        self.t, self.i = toks, 0
        self.opaque, self.calls, self.fields = opaque, calls, fields
        self.rust_params = rust_params            # names in the Rust signature, receiver excluded, in order
        self.numeric_names = numeric_names        # Lean names of the numeric ones among them, in order
        self.project = project
        self.used = []

    def peek(self, k=0):
        return self.t[self.i + k] if self.i + k < len(self.t) else None

    def eat(self, x=None):
        t = self.peek()
        if t is None or (x is not None and t != x):
            raise Untranslatable("expected %r, found %r" % (x, t))
        self.i += 1
        return t

    def use(self, name, typ):
        if typ is None:
            return name
        if (name, typ) not in self.used:
            self.used.append((name, typ))
        return name

    def numeric_param(self, idx):
        """the Lean parameter of the idx-th Rust parameter, matched by POSITION among the parameters that are not opaque"""
        opaque_params = {int(k.split(".")[0][1:]) for k in self.opaque if re.match(r"P\d+(\.|$)", k)}
        numeric_positions = [i for i in range(len(self.rust_params)) if i not in opaque_params]
        if idx not in numeric_positions or numeric_positions.index(idx) >= len(self.numeric_names):
            raise Untranslatable("parameter %r is not a declared numeric input" % self.rust_params[idx])
        return self.use(self.numeric_names[numeric_positions.index(idx)], "Nat")

    def term(self, v, what="value"):
        """a Lean term for a value that must be numeric / boolean"""
        if isinstance(v, Tup):
            if self.project is not None:
                return self.term(v.items[self.project], "result component")
            return "(" + ", ".join(self.term(x, "result component") for x in v.items) + ")"
        if isinstance(v, Opaque):
            if v.canon in self.opaque and self.opaque[v.canon][1] is not None:
                pname, typ = self.opaque[v.canon]
                return self.use(pname, typ)
            m = re.match(r"P(\d+)$", v.canon)
            if m:
                return self.numeric_param(int(m.group(1)))
            if v.canon == "self" and "" in self.fields:
                return self.use(self.fields[""], "Nat")
            raise Untranslatable("%s of no numeric content: %s" % (what, v.canon))
        return v

    @staticmethod
    def canon_of(v):
        if isinstance(v, Opaque):
            return v.canon
        if isinstance(v, Tup):
            return "(" + ",".join(Parser.canon_of(x) for x in v.items) + ")"
        return v

    # ---- statements: (let …;)* ( if c { …; return e; } )* ( expr | return expr; ); returns (lean term, ended in return?)
    def block(self, env):
        env = dict(env)
        lets = []

        def wrap(e):
            for var, d in reversed(lets):
                e = "(let %s := %s; %s)" % (var, d, e)
            return e

        while True:
            t = self.peek()
            if t == "let":
                self.eat("let")
                if self.peek() == "mut":
                    raise Untranslatable("mutable binding")
                name = self.eat()
                if re.match(r"[A-Z]", name) and self.peek() in ("(", "{"):
                    self.destructure(env)
                    continue
                if not re.match(r"[a-z_][a-z0-9_]*$", name):
                    raise Untranslatable("pattern binding %r" % name)
                self.eat("=")
                v = self.expr(env)
                self.eat(";")
                if isinstance(v, Opaque) and not (v.canon in self.opaque and self.opaque[v.canon][1] is not None) and not re.match(r"P\d+$", v.canon):
                    env[name] = v                  # a path, a reference: the name keeps denoting that opaque value
                    continue
                if isinstance(v, Opaque) and re.match(r"P\d+$", v.canon) and any(k.startswith(v.canon + ".") for k in self.opaque):
                    env[name] = v                  # an alias of an opaque parameter
                    continue
                d = self.term(v)
                var = "%s_%d" % (name, sum(1 for n, _ in lets if n.rsplit("_", 1)[0] == name) + 1)
                lets.append((var, d))
                env[name] = var
                continue
            if t == "return":
                self.eat("return")
                v = self.expr(env)
                if self.peek() == ";":
                    self.eat(";")
                return wrap(self.term(v, "result")), True
            if t == "if":
                self.eat("if")
                c = self.cond(env)
                self.eat("{")
                a, a_ret = self.block(env)
                self.eat("}")
                if self.peek() == "else":
                    self.eat("else")
                    self.eat("{")
                    b, b_ret = self.block(env)
                    self.eat("}")
                    v = "(if %s then %s else %s)" % (c, a, b)
                    if self.peek() == ".":
                        v = self.method_tail(v, env)
                    return wrap(self.term(v, "result")), a_ret and b_ret
                if not a_ret:
                    raise Untranslatable("`if` without `else` whose block does not return")
                rest, r_ret = self.block(env)
                return wrap("(if %s then %s else %s)" % (c, a, rest)), r_ret
            v = self.expr(env)
            return wrap(self.term(v, "result")), False

    def destructure(self, env):
        binds = []
        if self.peek() == "(":
            self.eat("(")
            k = 0
            while self.peek() != ")":
                binds.append((self.eat(), str(k)))
                k += 1
                if self.peek() == ",":
                    self.eat(",")
            self.eat(")")
        else:
            self.eat("{")
            while self.peek() != "}":
                fld = self.eat()
                var = fld
                if self.peek() == ":":
                    self.eat(":")
                    var = self.eat()
                binds.append((var, fld))
                if self.peek() == ",":
                    self.eat(",")
            self.eat("}")
        self.eat("=")
        if self.peek() == "*":
            self.eat("*")
        if self.eat() != "self":
            raise Untranslatable("destructuring of something other than the receiver")
        self.eat(";")
        for var, fld in binds:
            if fld not in self.fields:
                raise Untranslatable("field self.%s" % fld)
            env[var] = self.use(self.fields[fld], "Nat")

    # ---- expressions
    def expr(self, env):
        if self.peek() == "if":
            self.eat("if")
            c = self.cond(env)
            self.eat("{")
            a, _ = self.block(env)
            self.eat("}")
            self.eat("else")
            self.eat("{")
            b, _ = self.block(env)
            self.eat("}")
            return self.method_tail("(if %s then %s else %s)" % (c, a, b), env)
        return self.chain(env)

    def cond(self, env):
        if self.peek() == "!":
            self.eat("!")
            return "(!%s)" % self.cond(env)
        a = self.chain(env)
        op = self.peek()
        if op in ("==", "!=", "<=", ">=", "<", ">"):
            self.eat()
            b = self.term(self.chain(env), "operand")
            a = self.term(a, "operand")
            lean = {"==": "==", "!=": "!=", "<=": "≤", ">=": "≥", "<": "<", ">": ">"}[op]
            return "(%s %s %s)" % (a, lean, b) if op in ("==", "!=") else "decide (%s %s %s)" % (a, lean, b)
        return self.term(a, "condition")

    def chain(self, env):
        t = self.peek()
        if t == "(":
            self.eat("(")
            items = [self.expr(env)]
            while self.peek() == ",":
                self.eat(",")
                if self.peek() == ")":
                    break
                items.append(self.expr(env))
            self.eat(")")
            cur = items[0] if len(items) == 1 else Tup(items)
        elif t is not None and t.isdigit():
            cur = self.eat()
        elif t is not None and re.match(r"[A-Za-z_]", t):
            name = self.eat()
            if name in env:
                cur = env[name]
            elif name == "self":
                cur = Opaque("self")
            elif name in self.rust_params:
                cur = Opaque("P%d" % self.rust_params.index(name))
            else:
                raise Untranslatable("identifier %r" % name)
        else:
            raise Untranslatable("unexpected token %r" % t)
        return self.method_tail(cur, env)

    def method_tail(self, cur, env):
        while self.peek() == ".":
            self.eat(".")
            name = self.eat()
            args = None
            if self.peek() == "(":
                self.eat("(")
                args = []
                while self.peek() != ")":
                    if self.peek() is not None and self.peek().startswith('"'):
                        args.append(self.eat())
                    else:
                        args.append(self.expr(env))
                    if self.peek() == ",":
                        self.eat(",")
                self.eat(")")
            if isinstance(cur, Tup):
                raise Untranslatable("method on a tuple")
            if isinstance(cur, Opaque):
                if cur.canon == "self" and args is None:
                    if name not in self.fields:
                        raise Untranslatable("field self.%s" % name)
                    cur = self.use(self.fields[name], "Nat")
                    continue
                if cur.canon == "self" and args == [] and name in self.calls:
                    fn, fl = self.calls[name]
                    cur = "(%s %s)" % (fn, " ".join(self.use(self.fields[f], "Nat") for f in fl))
                    continue
                numeric_receiver = (cur.canon == "self" and "" in self.fields) or \
                    (re.match(r"P\d+$", cur.canon) and not any(k.startswith(cur.canon + ".") for k in self.opaque))
                if name in NUMERIC_METHODS and numeric_receiver:
                    cur = self.term(cur)          # falls through to the numeric methods
                else:
                    rendered = "" if args is None else "(" + ",".join(self.canon_of(a) for a in args) + ")"
                    cur = Opaque(cur.canon + "." + name + rendered)
                    if cur.canon in self.opaque and self.opaque[cur.canon][1] is not None:
                        pname, typ = self.opaque[cur.canon]
                        cur = self.use(pname, typ)
                    continue
            if name in ("get", "into") and args == []:
                continue
            if name in ("saturating_sub", "saturating_add") and args is not None and len(args) == 1:
                cur = "(%s %s %s)" % ("satSub" if name == "saturating_sub" else "satAdd", cur, self.term(args[0], "argument"))
            elif name in ("checked_add", "checked_mul") and args is not None and len(args) == 1 and self.peek() == "." and self.peek(1) == "expect":
                self.eat(".")
                self.eat("expect")
                self.eat("(")
                self.eat()
                self.eat(")")
                cur = "(%s %s %s)" % ("checkedAddExpect" if name == "checked_add" else "checkedMulExpect", cur, self.term(args[0], "argument"))
            else:
                raise Untranslatable("method .%s/%s" % (name, "-" if args is None else len(args)))
        return cur


def translate(src, impl_pat, fn_name, lean_name, ret, opaque=None, calls=None, fields=None, project=None, params=None):
    """-> Lean definition text.
    `params`: the Lean parameters in order [(name, type)]: receiver fields, the numeric parameters of the Rust signature in
    order, the observations of opaque values named in `opaque`. `project`: keep that component of a returned tuple (the
    others are opaque)."""
    body, sig = method_body(src, impl_pat, fn_name)
    toks = tokenize(body)
    rust_params = [x.split(":")[0].strip() for x in sig.split(",") if x.strip() and not re.match(r"\s*&?\s*(mut\s+)?self\s*$", x)]
    field_names = list((fields or {}).values())
    observed = [v[0] for v in (opaque or {}).values() if isinstance(v, tuple) and v[1] is not None]
    numeric_names = [n for n, t in (params or []) if n not in field_names and n not in observed]
    p = Parser(toks, opaque or {}, calls or {}, fields or {}, rust_params, numeric_names, project)
    e, _ = p.block({})
    if p.peek() is not None:
        raise Untranslatable("trailing tokens after the body of %s: %r" % (fn_name, p.t[p.i:p.i + 5]))
    used = p.used
    if params is not None:
        extra = [n for n, _ in used if n not in [q for q, _ in params]]
        if extra:
            raise Untranslatable("%s uses values outside its declared inputs: %s" % (fn_name, extra))
        used = params
    return "def %s %s : %s :=\n  %s" % (lean_name, " ".join("(%s : %s)" % (n, t) for n, t in used), ret, e)
