"""Shared machinery of /verif/check: builds, binaries, audit, findings, evidence, reporting."""
import os, sys, json, time, re, subprocess, fcntl, collections, hashlib

VERIF = os.path.dirname(os.path.dirname(os.path.abspath(__file__)))
REPO = os.environ.get("WAX_REPO", "/repo")
LEAN = os.path.join(VERIF, "lean")
HARNESS_DIR = os.path.join(VERIF, "harness")
HARNESS = os.environ.get("WAXH", os.path.join(HARNESS_DIR, "target", "release", "waxh"))
MODEL = os.environ.get("WAXMODEL", os.path.join(LEAN, ".lake", "build", "bin", "waxmodel"))
STD_AXIOMS = {"propext", "Classical.choice", "Quot.sound"}
FORBIDDEN = re.compile(r"\b(sorry|admit|native_decide|bv_decide|implemented_by)\b|^\s*axiom\s|\bunsafe\s|maxHeartbeats\s+0\b")
ENV = dict(os.environ, CARGO_NET_OFFLINE="true")


def hexs(s):
    return "-" if not s else ".".join("%x" % ord(c) for c in s)


def unhex(h):
    return "" if h in ("-", "") else "".join(chr(int(x, 16)) for x in h.split("."))


class BuildFailure(Exception):
    def __init__(self, what, detail):
        super().__init__(what)
        self.what = what
        self.detail = detail


def sh(cmd, cwd=None, timeout=3600):
    return subprocess.run(cmd, cwd=cwd, env=ENV, capture_output=True, text=True, timeout=timeout)


def lean_sources():
    out = []
    for root, _dirs, files in os.walk(LEAN):
        if ".lake" in root:
            continue
        for f in files:
            if f.endswith(".lean"):
                out.append(os.path.join(root, f))
    return sorted(out)


def strip_comments(text):
    # block comments (nested) and line comments
    out = []
    depth = 0
    i = 0
    while i < len(text):
        if text.startswith("/-", i):
            depth += 1
            i += 2
        elif text.startswith("-/", i) and depth > 0:
            depth -= 1
            i += 2
        elif depth > 0:
            if text[i] == "\n":
                out.append("\n")
            i += 1
        elif text.startswith("--", i):
            while i < len(text) and text[i] != "\n":
                i += 1
        else:
            out.append(text[i])
            i += 1
    return "".join(out)


def forbidden_tokens():
    hits = []
    for p in lean_sources():
        body = strip_comments(open(p, encoding="utf-8").read())
        # string literals may legitimately contain words
        body = re.sub(r'"(?:[^"\\]|\\.)*"', '""', body)
        for n, line in enumerate(body.split("\n"), 1):
            if FORBIDDEN.search(line):
                hits.append("%s:%d: %s" % (os.path.relpath(p, VERIF), n, line.strip()[:80]))
    return hits


class Build:
    """Everything is rebuilt from /repo's working tree on every run (warm builds are no-ops)."""

    def __init__(self):
        self.notes = []
        self.failures = []      # (kind, name, detail)
        self.times = {}

    def run(self):
        lock = open(os.path.join(VERIF, ".lock"), "w")
        fcntl.flock(lock, fcntl.LOCK_EX)
        try:
            self._extract()
            self._harness()
            self._lean()
        finally:
            fcntl.flock(lock, fcntl.LOCK_UN)
            lock.close()
        return self

    GENERATED = ["Generated", "GeneratedChars", "GeneratedTermn", "GeneratedWhen", "GeneratedConst", "GeneratedBehavior", "GeneratedJoin", "GeneratedOps", "GeneratedRule", "GeneratedEncode", "GeneratedKinds"]

    def _extract(self):
        """regenerate the tables and the translated functions from /repo/src (tools/extract.py writes Wax/Generated*.lean)"""
        t0 = time.time()
        self.previous = {}
        for n in self.GENERATED:
            path = os.path.join(LEAN, "Wax", n + ".lean")
            self.previous[n] = open(path, encoding="utf-8").read() if os.path.exists(path) else ""
        r = sh([sys.executable, os.path.join(VERIF, "tools", "extract.py"), os.path.join(REPO, "src"), "--dir", os.path.join(LEAN, "Wax")])
        if r.returncode != 0:
            # a table could not be located: the generated files are left as they were
            self.failures.append(("obligation", "tools/extract.py: a table of the source could not be located", (r.stdout + r.stderr)[-400:], ["Wax.Generated"]))
        else:
            try:
                st = json.loads(r.stdout.strip().split("\n")[-1])
            except ValueError:
                st = {"changed": [], "untranslatable": {}}
            if st.get("changed"):
                self.notes.append("generated files differ from the committed ones: %s" % ", ".join(st["changed"]))
            for g, why in sorted(st.get("untranslatable", {}).items()):
                self.failures.append(("obligation", "tools/extract.py: a table or function of the source could not be read or translated (%s): the tie by regeneration of Wax/%s.lean no longer applies" % ("; ".join(why)[:200], g),
                                      "; ".join(why)[-400:], ["Wax." + g]))
        self.times["extract"] = round(time.time() - t0, 2)

    def _harness(self):
        t0 = time.time()
        lockfile = os.path.join(HARNESS_DIR, "Cargo.lock")
        r = sh(["cargo", "build", "--release", "--offline"], cwd=HARNESS_DIR)
        self.times["cargo"] = round(time.time() - t0, 2)
        if r.returncode != 0:
            raise BuildFailure("harness", "cargo build of the harness against /repo failed:\n" + r.stderr[-3000:])

    def _lean(self):
        t0 = time.time()
        r = sh(["lake", "build", "Wax", "waxmodel"], cwd=LEAN)
        if r.returncode != 0:
            detail = (r.stdout + r.stderr)
            # which module / theorem broke
            broken = re.findall(r"error: (\S+?\.lean):(\d+):\d+: (.*)", detail)
            mods = sorted({a[:-5].replace("./", "").replace(os.sep, ".") for a, _b, _c in broken} |
                          set(re.findall(r"^- (Wax[\w.]*)$", detail, re.M)))
            self.failures.append(("obligation", "lake build: " + "; ".join("%s:%s %s" % (os.path.basename(a), b, c[:80]) for a, b, c in broken[:4]), detail[-1500:], mods))
            # fall back to the committed / previous generated files so that the search for a failing input can still run
            candidates = []
            committed = {}
            for n in self.GENERATED:
                g = sh(["git", "-C", VERIF, "show", "HEAD:lean/Wax/%s.lean" % n])
                if g.returncode == 0:
                    committed[n] = g.stdout
            if len(committed) == len(self.GENERATED):
                candidates.append(committed)
            if getattr(self, "previous", None) and all(self.previous.values()):
                candidates.append(self.previous)
            ok = False
            for files in candidates:
                for n, text in files.items():
                    open(os.path.join(LEAN, "Wax", n + ".lean"), "w", encoding="utf-8").write(text)
                r2 = sh(["lake", "build", "Wax", "waxmodel"], cwd=LEAN)
                if r2.returncode == 0:
                    ok = True
                    break
            if not ok:
                raise BuildFailure("lean", "lake build failed even with the committed tables:\n" + (r.stdout + r.stderr)[-3000:])
        self.times["lake"] = round(time.time() - t0, 2)


_IMPORTS = None


def import_closure(mods):
    """the modules of /verif/lean that the given modules import, transitively (themselves included)"""
    global _IMPORTS
    if _IMPORTS is None:
        _IMPORTS = {}
        for path in lean_sources():
            name = os.path.relpath(path, LEAN)[:-5].replace(os.sep, ".")
            _IMPORTS[name] = re.findall(r"^import\s+(\S+)", open(path, encoding="utf-8").read(), re.M)
    seen, todo = set(), list(mods)
    while todo:
        m0 = todo.pop()
        if m0 in seen:
            continue
        seen.add(m0)
        todo += [x for x in _IMPORTS.get(m0, []) if x.startswith("Wax")]
    return seen


def audit(theorems):
    """`#print axioms` for every listed theorem: existence and axioms. Returns (ok list, failures)."""
    src = "import Wax\nopen Wax\n" + "".join("#print axioms %s\n" % t for t in theorems)
    path = os.path.join(LEAN, "AuditGen_%d.lean" % os.getpid())
    open(path, "w").write(src)
    try:
        r = sh(["lake", "env", "lean", path], cwd=LEAN)
    finally:
        os.remove(path)
    out = r.stdout + r.stderr
    ok, bad = [], []
    for t in theorems:
        short = t.split(".")[-1]
        m = re.search(r"'(?:[\w.]*\.)?%s' depends on axioms: \[(.*?)\]" % re.escape(short), out, re.S)
        m0 = re.search(r"'(?:[\w.]*\.)?%s' does not depend on any axioms" % re.escape(short), out)
        if m0:
            ok.append((t, []))
        elif m:
            ax = [a.strip() for a in m.group(1).replace("\n", " ").split(",") if a.strip()]
            if set(ax) <= STD_AXIOMS:
                ok.append((t, ax))
            else:
                bad.append((t, "non-standard axioms: %s" % sorted(set(ax) - STD_AXIOMS)))
        else:
            bad.append((t, "theorem not found or does not check"))
    return ok, bad


DIED = []   # requests on which a child died or ran out of time (copied into the evidence)


class Proc:
    """A line-protocol child (harness or model driver). Large batches are split over several
    children running in parallel (the answers come back in request order)."""

    def __init__(self, argv, jobs=None):
        self.argv = argv
        self.jobs = jobs or int(os.environ.get("VERIF_JOBS", "12"))

    def _limit(self):
        # the harness runs the crate in-process: an operation that allocates without bound must kill that child (the request
        # is then isolated by bisection and reported as died), not the machine. The model driver is not limited (the Lean
        # runtime reserves a large address space up front).
        if os.path.basename(self.argv[-1]) == "waxh":
            import resource
            cap = int(os.environ.get("VERIF_HARNESS_MEM", str(6 << 30)))
            return lambda: resource.setrlimit(resource.RLIMIT_AS, (cap, cap))
        return None

    def _one(self, lines, timeout):
        data = "".join(l + "\n" for l in lines)
        try:
            r = subprocess.run(self.argv, input=data, capture_output=True, text=True, timeout=timeout, env=ENV, preexec_fn=self._limit())
            out = r.stdout.split("\n")
            rc = r.returncode
        except subprocess.TimeoutExpired:
            out, rc = [], "timeout"
        if out and out[-1] == "":
            out.pop()
        if len(out) != len(lines):
            # the child died (abort, stack overflow) or ran out of time: bisect to keep going. Only one half
            # contains the request that hangs, so the budget shrinks with every level: a single hanging
            # request costs a few minutes in all, not the full budget per level.
            if len(lines) == 1:
                DIED.append({"child": os.path.basename(self.argv[-1]), "request": lines[0][:400], "how": str(rc)})
                return ["died:%s" % rc]
            mid = len(lines) // 2
            t2 = max(12, timeout // 3) if rc == "timeout" else timeout
            return self._one(lines[:mid], t2) + self._one(lines[mid:], t2)
        return out

    def ask(self, lines, timeout=240):
        if not lines:
            return []
        n = len(lines)
        jobs = min(self.jobs, max(1, n // 64))
        if jobs <= 1:
            return self._one(lines, timeout)
        import concurrent.futures
        # interleave so that expensive neighbours are spread over the children
        chunks = [lines[j::jobs] for j in range(jobs)]
        with concurrent.futures.ThreadPoolExecutor(max_workers=jobs) as ex:
            outs = list(ex.map(lambda c: self._one(c, timeout), chunks))
        res = [None] * n
        for j, out in enumerate(outs):
            res[j::jobs] = out
        return res


def harness(as_nobody=False):
    if as_nobody and os.geteuid() == 0:
        return Proc(["setpriv", "--reuid=65534", "--regid=65534", "--clear-groups", HARNESS])
    return Proc([HARNESS])


def model():
    return Proc([MODEL])


def load_findings(prop):
    out = []
    fixed = []
    for line in open(os.path.join(VERIF, "known-findings.txt"), encoding="utf-8"):
        line = line.rstrip("\n")
        if line.startswith("finding:"):
            m = re.match(r"finding: property=(\S+) id=(\S+) site=(\S+) witness=(\{.*?\}) what=(.*)", line)
            if m and m.group(1) == prop:
                out.append({"id": m.group(2), "site": m.group(3), "witness": json.loads(m.group(4)), "what": m.group(5)})
        elif line.startswith("fixed:"):
            m = re.match(r"fixed: property=(\S+) (\S+) (.*)", line)
            if m and m.group(1) == prop:
                fixed.append({"commit": m.group(2), "what": m.group(3)})
    return out, fixed


def load_corpus(prop):
    d = os.path.join(VERIF, "corpus", prop)
    out = []
    if os.path.isdir(d):
        for f in sorted(os.listdir(d)):
            for line in open(os.path.join(d, f), encoding="utf-8"):
                line = line.strip()
                if line:
                    out.append(json.loads(line))
    return out


def obligations(prop):
    ob = json.load(open(os.path.join(VERIF, "tools", "obligations.json"), encoding="utf-8"))
    return ob[prop]


class Report:
    """Collects what a check saw and turns it into KNOWN-FINDING / VIOLATION lines and evidence."""

    def __init__(self, prop, tier, seed):
        self.prop, self.tier, self.seed = prop, tier, seed
        self.t0 = time.time()
        self.stats = collections.Counter()
        self.violations = []      # dicts with kind in {oracle, correspondence, obligation}
        self.known_hits = collections.Counter()
        self.known_lines = []
        self.samples = []
        self.evaluations = 0
        self.distinct = set()
        self.traces = 0
        self.extra = {}
        self.obligations = 0
        self.discharged = 0
        self.theorems = []
        self.assumptions = []
        self.rule = ""

    def sample(self, s, cap=6):
        if len(self.samples) < cap:
            self.samples.append(s)

    def violation(self, kind, name, inp, **kw):
        v = {"property": self.prop, "kind": kind, "name": name, "input": inp}
        v.update(kw)
        # part of every replay: the harness answers on a thread that has already built (and failed to build) other patterns
        v.setdefault("history", "answered by the harness (batches of 8 requests or more) after its fixed warm-up on the same thread: failed builds `{`, `a//b`, `<a*:1000000>` (oversized), "
                                "a successful build of `src/**/*.rs` with a match, a partition and a short walk (harness/src/main.rs; WAXH_FRESH=1 disables it)")
        self.violations.append(v)

    def known(self, fid, line):
        self.known_lines.append("KNOWN-FINDING: property=%s %s %s" % (self.prop, fid, line))

    def finish(self, spec):
        wall = round(time.time() - self.t0, 2)
        for l in self.known_lines:
            print(l)
        ev = {
            "property_id": self.prop, "tier": self.tier, "seed": self.seed, "level": "proof",
            "coverage": dict({
                "obligations": self.obligations, "discharged": self.discharged,
                "checker_cmd": "cd /verif/lean && lake build Wax waxmodel && lake env lean <generated #print axioms file>  (run by ./check %s)" % self.prop,
                "trusted_base": spec.get("trusted_base", []),
                "theorems": self.theorems,
                "evaluations": self.evaluations, "distinct_nontrivial": len(self.distinct),
                "rule": self.rule, "samples": self.samples,
                "traces_validated_against_impl": self.traces,
                "histogram": dict(self.stats), "known_finding_hits": dict(self.known_hits),
            }, **dict(self.extra, requests_died_or_timed_out=DIED[:20])),
            "assumptions": self.assumptions,
            "wall_s": wall, "violations": len(self.violations),
        }
        os.makedirs(os.path.join(VERIF, "evidence"), exist_ok=True)
        json.dump(ev, open(os.path.join(VERIF, "evidence", "%s.json" % self.prop), "w", encoding="utf-8"), indent=1, ensure_ascii=False)
        if self.violations:
            os.makedirs(os.path.join(VERIF, "replays"), exist_ok=True)
            path = os.path.join(VERIF, "replays", "%s-%d.json" % (self.prop, self.seed))
            order = {"oracle": 0, "correspondence": 1, "obligation": 2}
            self.violations.sort(key=lambda v: (order.get(v["kind"], 3), len(json.dumps(v["input"], ensure_ascii=False))))
            v = dict(self.violations[0])
            v["other_violations"] = len(self.violations) - 1
            v["also"] = [{"kind": x["kind"], "name": x["name"], "input": x["input"]} for x in self.violations[1:6]]
            # theorems, table obligations and correspondences that no longer check are always named, whatever else was found
            v["no_longer_checks"] = sorted({"%s: %s" % (x["kind"], x["name"][:300]) for x in self.violations if x["kind"] != "oracle"})[:20]
            json.dump(v, open(path, "w", encoding="utf-8"), indent=1, ensure_ascii=False)
            tail = "" if v["kind"] == "oracle" else " no-failing-input-found"
            print("VIOLATION property=%s replay=%s%s" % (self.prop, path, tail))
            return 1
        stale = os.path.join(VERIF, "replays", "%s-%d.json" % (self.prop, self.seed))
        if os.path.exists(stale):
            os.remove(stale)
        return 0


def leanchecker(modules):
    """independent re-check of compiled modules (and everything they import) by Lean's external checker"""
    t0 = time.time()
    r = sh(["lake", "env", "leanchecker"] + modules, cwd=LEAN, timeout=1800)
    return r.returncode == 0, (r.stdout + r.stderr)[-600:], round(time.time() - t0, 1)


def theorem_modules(names):
    """the modules in which the listed theorems are stated"""
    mods = set()
    for path in lean_sources():
        if os.sep + "Wax" + os.sep not in path:
            continue
        text = open(path, encoding="utf-8").read()
        for n in names:
            if re.search(r"theorem\s+(?:[\w.]*\.)?%s\b" % re.escape(n.split(".")[-1]), text):
                mods.add(os.path.relpath(path, LEAN)[:-5].replace(os.sep, "."))
    return sorted(mods)


def proof_step(rep, build, prop):
    """Step 3 of the driver: obligations of the property."""
    spec = obligations(prop)
    ths = spec["theorems"]
    rep.obligations = len(ths) + 1
    ok, bad = audit([t["name"] for t in ths])
    okn = {t for t, _ in ok}
    rep.discharged = len(ok)
    hits = forbidden_tokens()
    if hits:
        rep.violation("obligation", "forbidden token in the Lean sources", {"hits": hits[:5]})
    else:
        rep.discharged += 1
    for t in ths:
        rep.theorems.append({"name": t["name"], "partial": t.get("partial", False), "says": t["says"],
                             "missing": t.get("missing", ""), "checked": t["name"] in okn})
    for t, why in bad:
        rep.violation("obligation", "theorem %s: %s" % (t, why), {"theorem": t})
    # a failure of the build or of the regeneration concerns this property when a module that failed is one the property's
    # theorems are stated in or depend on (the model itself included); other properties only note it
    mine = import_closure(theorem_modules([t["name"] for t in ths]) + ["Main"])
    for kind, name, detail, mods in build.failures:
        if not mods or set(mods) & mine:
            rep.violation("obligation", name, {"detail": detail[-600:], "modules": mods})
        else:
            build.notes.append("not this property's obligation: %s (%s)" % (name[:160], ", ".join(mods)))
    if rep.tier == "thorough" and not build.failures:
        mods = theorem_modules([t["name"] for t in ths])
        ok_lc, out_lc, secs = leanchecker(mods)
        rep.obligations += 1
        if ok_lc:
            rep.discharged += 1
        else:
            rep.violation("obligation", "leanchecker rejects the compiled modules of the property's theorems", {"modules": mods, "output": out_lc})
        rep.extra["leanchecker"] = {"modules": mods, "ok": ok_lc, "seconds": secs}
    rep.extra["build_times_s"] = build.times
    rep.extra["build_notes"] = build.notes
    rep.assumptions = spec.get("assumptions", [])
    return spec
