#!/usr/bin/env python3
"""Development aid: run a property's exploration over several seeds / a tier and list the classes of violations."""
import sys, os, collections, json
HERE = os.path.dirname(os.path.dirname(os.path.abspath(__file__)))
sys.path.insert(0, os.path.join(HERE, "tools")); sys.path.insert(0, HERE)
import common, importlib
prop, tier, seeds = sys.argv[1], sys.argv[2], [int(x) for x in sys.argv[3].split(",")]
mod = importlib.import_module("props.%s" % prop.lower())
classes = collections.defaultdict(list)
for s in seeds:
    rep = common.Report(prop, tier, s)
    mod.run(rep, tier, s, None)
    for v in rep.violations:
        classes[v["kind"] + ": " + v["name"][:140]].append(v["input"])
    print("seed", s, "evaluations", rep.evaluations, "violations", len(rep.violations), "known", dict(rep.known_hits), flush=True)
for k, v in classes.items():
    print(len(v), k)
    for x in v[:4]:
        print("     ", json.dumps(x, ensure_ascii=False)[:300])
