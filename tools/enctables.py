"""The encoder's table for leaf tokens WITHOUT a payload (separator, `?`, `*`, `$`, tree wildcards), read from
src/encode.rs and EVALUATED: for every position of the token in its concatenation (First, Middle, Last, Only), every inherited
superposition (None or one of the four positions), every grouping (capture / non-capture) and, for tree wildcards, either
rootedness, the text the arm pushes onto the pattern.

A small interpreter runs the arm bodies: `pattern.push_str(e)`, `pattern.push(c)`, `grouping.push_str(pattern, e)`,
`encode_intermediate_tree(grouping, pattern)` (its body is read from the source too), `if` / `else if` / `else` with the
conditions `let Some(A | B) = superposition`, `*has_root`, `matches!(superposition, None | Some(A | B))`, `!`, `&&`, `||`;
expressions are string literals and the macros `sepexpr!` / `nsepexpr!`, whose definitions and the unix separator constant are
read from the source. `Grouping::push_with` is read for the two opening strings and the closing character. Arm order,
or-patterns and layout are immaterial. Literal and class arms (whose output depends on a payload) are not evaluated here: the
model's printer for them is compared with the crate's program text by the correspondence on every generated expression.
Anything outside the fragment raises `Missing`.
"""
import re


class Missing(Exception):
    pass


POS = ["First", "Middle", "Last", "Only"]
ESC = "\x00ESC\x00"     # stands for `regex::escape` of the literal's text
LEAVES = [("Separator", None), ("One", None), ("ZomEager", None), ("ZomLazy", None), ("Tree", True), ("Tree", False)]
TOK = re.compile(r'\s*("(?:[^"\\]|\\.)*"|\'(?:[^\'\\]|\\.)\'|=>|&&|\|\||::|[A-Za-z_][A-Za-z0-9_]*!?|\d+|\S)')


def tokens(text):
    text = re.sub(r"//[^\n]*", "", text)
    out, pos = [], 0
    while pos < len(text):
        m = TOK.match(text, pos)
        if not m:
            if text[pos:].strip() == "":
                break
            raise Missing("cannot tokenize %r" % text[pos:pos + 30])
        out.append(m.group(1))
        pos = m.end()
    return out


def unstr(lit):
    return bytes(lit[1:-1], "utf-8").decode("unicode_escape")


def block_after(src, start):
    i = src.index("{", start)
    depth, j = 0, i
    while True:
        if src[j] == "{":
            depth += 1
        elif src[j] == "}":
            depth -= 1
            if depth == 0:
                break
        j += 1
    return src[i + 1:j], j


class Env:
    def __init__(self, src):
        flat = re.sub(r"\s+", " ", re.sub(r"//[^\n]*", "", src))
        m = re.search(r'#\[cfg\(unix\)\] const SEPARATOR_CLASS_EXPRESSION: &str = ("(?:[^"\\]|\\.)*");', flat)
        if not m:
            raise Missing("SEPARATOR_CLASS_EXPRESSION (unix)")
        sep = unstr(m.group(1))
        self.macros = {}
        for name in ("sepexpr", "nsepexpr"):
            m = re.search(r'macro_rules! %s \{ \(\$fmt:expr\) => \{ formatcp!\(\$fmt, formatcp!\(("(?:[^"\\]|\\.)*"), SEPARATOR_CLASS_EXPRESSION\)\) \}; \}' % name, flat)
            if not m:
                raise Missing("macro %s!" % name)
            self.macros[name + "!"] = unstr(m.group(1)).replace("{0}", sep)
        m = re.search(r"pub fn push_with<[^{]*\{ match self \{ Grouping::Capture => pattern\.push\(('(?:[^'\\]|\\.)')\), Grouping::NonCapture => pattern\.push_str\((\"[^\"]*\")\), \} "
                      r"pattern\.push_str\(f\(\)\.as_ref\(\)\); pattern\.push\(('(?:[^'\\]|\\.)')\); \}", flat)
        m2 = re.search(r"pub fn push_str\(&self, pattern: &mut String, encoding: &str\) \{ self\.push_with\(pattern, \|\| encoding\.into\(\)\); \}", flat)
        if not m or not m2:
            raise Missing("Grouping::push_str / push_with")
        self.open = {"Capture": unstr(m.group(1)), "NonCapture": unstr(m.group(2))}
        self.close = unstr(m.group(3))
        m = re.search(r"fn encode_intermediate_tree\(grouping: Grouping, pattern: &mut String\)", src)
        if not m:
            raise Missing("encode_intermediate_tree")
        self.intermediate = tokens(block_after(src, m.end())[0])


class Interp:
    def __init__(self, env, toks, point):
        self.env, self.t, self.i, self.p, self.out = env, toks, 0, point, []

    def peek(self, k=0):
        return self.t[self.i + k] if self.i + k < len(self.t) else None

    def eat(self, x=None):
        t = self.peek()
        if t is None or (x is not None and t != x):
            raise Missing("body: expected %r, found %r" % (x, t))
        self.i += 1
        return t

    # ---- expressions that denote text
    def text(self):
        t = self.eat()
        if t == "&" and self.p.get("literal_name") and [self.peek(k) for k in range(9)] == [self.p["literal_name"], ".", "text", "(", ")", ".", "escaped", "(", ")"]:
            for _ in range(9):
                self.eat()
            return ESC
        if t.startswith('"'):
            return unstr(t)
        if t == "if":
            # an `if` expression whose branches are texts
            c = self.cond()
            self.eat("{")
            a = self.text()
            self.eat("}")
            self.eat("else")
            self.eat("{")
            b = self.text()
            self.eat("}")
            return a if c else b
        if t in getattr(self, "vars", {}):
            return self.vars[t]
        if t in self.env.macros:
            self.eat("(")
            lit = self.eat()
            self.eat(")")
            if not lit.startswith('"'):
                raise Missing("macro argument")
            return unstr(lit).replace("{0}", self.env.macros[t])
        raise Missing("text expression %r" % t)

    # ---- conditions
    def positions(self):
        ps = [self.eat()]
        while self.peek() == "|":
            self.eat("|")
            ps.append(self.eat())
        if any(p not in POS for p in ps):
            raise Missing("positions %r" % ps)
        return ps

    def option_pat(self):
        """None | Some(A | B) alternatives -> set of superposition values"""
        vals = set()
        while True:
            t = self.eat()
            if t == "None":
                vals.add(None)
            elif t == "Some":
                self.eat("(")
                vals.update(self.positions())
                self.eat(")")
            else:
                raise Missing("option pattern %r" % t)
            if self.peek() == "|":
                self.eat("|")
                continue
            return vals

    def atom(self):
        t = self.peek()
        if t == "!":
            self.eat()
            return not self.atom()
        if t == "(":
            self.eat("(")
            v = self.cond()
            self.eat(")")
            return v
        if t == "let":
            self.eat()
            vals = self.option_pat()
            self.eat("=")
            if self.eat() != "superposition":
                raise Missing("if let on something else than the superposition")
            return self.p["sup"] in vals
        if t == "*":
            self.eat()
            if self.eat() != "has_root" or not self.p.get("bound_has_root"):
                raise Missing("dereference of something else than has_root")
            return self.p["has_root"]
        if t == "has_root":
            self.eat()
            if not self.p.get("bound_has_root"):
                raise Missing("has_root is not bound")
            return self.p["has_root"]
        if self.p.get("literal_name") and t == self.p["literal_name"] and [self.peek(k) for k in range(1, 5)] == [".", "is_case_insensitive", "(", ")"]:
            for _ in range(5):
                self.eat()
            return self.p["ci"]
        if t == "matches!":
            self.eat()
            self.eat("(")
            if self.eat() != "superposition":
                raise Missing("matches! on something else than the superposition")
            self.eat(",")
            vals = self.option_pat()
            self.eat(")")
            return self.p["sup"] in vals
        raise Missing("condition %r" % t)

    def conj(self):
        v = self.atom()
        while self.peek() == "&&":
            self.eat()
            w = self.atom()
            v = v and w
        return v

    def cond(self):
        v = self.conj()
        while self.peek() == "||":
            self.eat()
            w = self.conj()
            v = v or w
        return v

    # ---- statements
    def skip_block(self):
        self.eat("{")
        depth = 1
        while depth:
            t = self.eat()
            depth += (t == "{") - (t == "}")

    def block(self, live):
        self.eat("{")
        while self.peek() != "}":
            self.stmt(live)
        self.eat("}")

    def stmt(self, live):
        t = self.peek()
        if t == "if":
            self.eat()
            taken = False
            c = self.cond()
            self.block(live and c)
            taken = c
            while self.peek() == "else":
                self.eat()
                if self.peek() == "if":
                    self.eat()
                    c = self.cond()
                    self.block(live and not taken and c)
                    taken = taken or c
                else:
                    self.block(live and not taken)
                    taken = True
            return
        if t == "let":
            # `let name = <text>;`: a local that names a text
            self.eat()
            name = self.eat()
            self.eat("=")
            if not hasattr(self, "vars"):
                self.vars = {}
            self.vars[name] = self.text()
            self.eat(";")
            return
        if t == "pattern":
            self.eat()
            self.eat(".")
            m = self.eat()
            self.eat("(")
            if m == "push_str":
                s = self.text()
            elif m == "push":
                c = self.eat()
                if not c.startswith("'"):
                    raise Missing("push of %r" % c)
                s = unstr(c)
            else:
                raise Missing("pattern.%s" % m)
            self.eat(")")
            if live:
                self.out.append(s)
        elif t == "grouping":
            self.eat()
            self.eat(".")
            if self.eat() != "push_str":
                raise Missing("grouping method")
            self.eat("(")
            self.eat("pattern")
            self.eat(",")
            s = self.text()
            self.eat(")")
            if live:
                self.out.append(self.env.open[self.p["grouping"]] + s + self.env.close)
        elif t == "encode_intermediate_tree":
            self.eat()
            self.eat("(")
            self.eat("grouping")
            self.eat(",")
            self.eat("pattern")
            self.eat(")")
            if live:
                sub = Interp(self.env, self.env.intermediate, self.p)
                while sub.peek() is not None:
                    sub.stmt(True)
                self.out += sub.out
        else:
            raise Missing("statement starting with %r" % t)
        if self.peek() == ";":
            self.eat(";")


def leaf_arms(src):
    """[(position set, leaf matcher, binds has_root, body tokens)] of the match on (position, leaf)"""
    m = re.search(r"TokenTopology::Leaf\(leaf\)\s*=>\s*match\s*\(position,\s*leaf\)\s*", src)
    if not m:
        raise Missing("the match on (position, leaf)")
    body, _ = block_after(src, m.end() - 1)
    toks = tokens(body)
    arms, i, n = [], 0, len(toks)
    while i < n:
        # pattern up to =>
        depth, j = 0, i
        while not (depth == 0 and toks[j] == "=>"):
            depth += (toks[j] in "([{") - (toks[j] in ")]}")
            j += 1
        pat = toks[i:j]
        j += 1
        if toks[j] == "{":
            depth, k = 0, j
            while True:
                depth += (toks[k] == "{") - (toks[k] == "}")
                if depth == 0:
                    break
                k += 1
            body_t = toks[j + 1:k]
            i = k + 1
            if i < n and toks[i] == ",":
                i += 1
        else:
            depth, k = 0, j
            while k < n and not (depth == 0 and toks[k] == ","):
                depth += (toks[k] in "([{") - (toks[k] in ")]}")
                k += 1
            body_t = toks[j:k]
            i = k + 1
        arms.append((pat, body_t))
    return arms


def match_arm(pat, pos, leaf):
    """does the arm pattern (tokens) match (pos, leaf)? returns (matched, binds_has_root). Alternatives `p1 | p2` at top level."""
    # split at top-level |
    alts, cur, depth = [], [], 0
    for t in pat:
        if t == "|" and depth == 0:
            alts.append(cur)
            cur = []
            continue
        depth += (t in "([{") - (t in ")]}")
        cur.append(t)
    alts.append(cur)
    for a in alts:
        s = "".join(a)
        m = re.fullmatch(r"\((_|[A-Za-z|]+),(.*)\)", s)
        if not m:
            raise Missing("arm pattern %r" % s)
        ps = POS if m.group(1) == "_" else m.group(1).split("|")
        if any(p not in POS for p in ps):
            raise Missing("arm positions %r" % m.group(1))
        lp = m.group(2)
        kind, root = leaf
        if re.fullmatch(r"Literal\(\w+\)|Class\(\w+\)", lp):
            continue
        if lp == "Separator(_)":
            ok, binds = kind == "Separator", False
        elif lp == "Wildcard(One)":
            ok, binds = kind == "One", False
        elif lp == "Wildcard(ZeroOrMore(Eager))":
            ok, binds = kind == "ZomEager", False
        elif lp == "Wildcard(ZeroOrMore(Lazy))":
            ok, binds = kind == "ZomLazy", False
        elif lp == "Wildcard(ZeroOrMore(_))":
            ok, binds = kind in ("ZomEager", "ZomLazy"), False
        elif lp == "Wildcard(Tree{has_root})":
            ok, binds = kind == "Tree", True
        elif lp == "Wildcard(Tree{..})":
            ok, binds = kind == "Tree", False
        elif lp in ("Wildcard(Tree{has_root:true})", "Wildcard(Tree{has_root:false})"):
            ok, binds = kind == "Tree" and root == lp.endswith("true})"), False
        else:
            raise Missing("leaf pattern %r" % lp)
        if ok and pos in ps:
            return True, binds
    return False, False


def table(src):
    env = Env(src)
    arms = leaf_arms(src)
    rows = []
    for leaf in LEAVES:
        for pos in POS:
            for sup in [None] + POS:
                for grouping in ("Capture", "NonCapture"):
                    for pat, body in arms:
                        ok, binds = match_arm(pat, pos, leaf)
                        if not ok:
                            continue
                        point = {"sup": sup, "grouping": grouping, "has_root": leaf[1], "bound_has_root": binds}
                        it = Interp(env, body, point)
                        while it.peek() is not None:
                            it.stmt(True)
                        rows.append((leaf, pos, sup, grouping, "".join(it.out)))
                        break
                    else:
                        raise Missing("no arm for %r at %s" % (leaf, pos))
    return rows


def literal_template(src):
    """{case-insensitive?: (text before the escaped literal, text after it)} from the Literal arm"""
    env = Env(src)
    out = {}
    for pat, body in leaf_arms(src):
        m = re.fullmatch(r"\(_,Literal\((\w+)\)\)", "".join(pat))
        if not m:
            continue
        for ci in (False, True):
            it = Interp(env, body, {"sup": None, "grouping": "Capture", "has_root": None, "bound_has_root": False, "literal_name": m.group(1), "ci": ci})
            while it.peek() is not None:
                it.stmt(True)
            txt = "".join(it.out)
            if txt.count(ESC) != 1:
                raise Missing("literal arm: the escaped text is not pushed exactly once")
            out[ci] = tuple(txt.split(ESC))
        return out
    raise Missing("no arm for literals at every position")


def lstr(x):
    return '"' + x.replace("\\", "\\\\").replace('"', '\\"') + '"'


def lean_lines(src):
    rows = table(src)
    lp = {"First": "first", "Middle": "middle", "Last": "last", "Only": "only"}
    ll = {("Separator", None): "sep", ("One", None): "one", ("ZomEager", None): "zomEager", ("ZomLazy", None): "zomLazy", ("Tree", True): "treeRooted", ("Tree", False): "treeUnrooted"}
    out = ["inductive EPos where | first | middle | last | only deriving DecidableEq, Repr",
           "inductive ELeaf where | sep | one | zomEager | zomLazy | treeRooted | treeUnrooted deriving DecidableEq, Repr",
           "/-- the text the encoder pushes for a leaf without payload: (leaf, position, inherited superposition, capture?, text);",
           "    %d rows = 6 leaves x 4 positions x 5 superpositions x 2 groupings, evaluated from src/encode.rs -/" % len(rows),
           "def leafEncodings : List (ELeaf × EPos × Option EPos × Bool × String) := ["]
    body = []
    for leaf, pos, sup, grouping, text in rows:
        body.append("  (.%s, .%s, %s, %s, %s)" % (ll[leaf], lp[pos], "none" if sup is None else "some .%s" % lp[sup], "true" if grouping == "Capture" else "false", lstr(text)))
    out.append(",\n".join(body) + "]")
    lt = literal_template(src)
    out += ["/-- the Literal arm: what is pushed before and after `regex::escape(text)`, by case-insensitivity -/",
            "def literalBefore (ci : Bool) : String := if ci then %s else %s" % (lstr(lt[True][0]), lstr(lt[False][0])),
            "def literalAfter (ci : Bool) : String := if ci then %s else %s" % (lstr(lt[True][1]), lstr(lt[False][1]))]
    return out


if __name__ == "__main__":
    import sys
    print("\n".join(lean_lines(open(sys.argv[1] if len(sys.argv) > 1 else "/repo/src/encode.rs").read())))
