#!/bin/bash
# Development aid: run checks against a seeded change in an ISOLATED copy (so that /repo and the
# shared harness binary stay untouched while other work is running).
#   tools/mutation_test.sh <patch.diff> <ID> [<ID> ...]
# Prints one line per check. The copy lives under /root/scratch/mt and is reused (warm builds).
set -e
PATCH=$(readlink -f "$1"); shift
MT=${MT:-/root/scratch/mt}
mkdir -p $MT
if [ ! -d $MT/repo/.git ] && [ ! -f $MT/repo/.git ]; then
  git -C /repo worktree prune
  git -C /repo worktree add -q --detach $MT/repo HEAD
fi
git -C $MT/repo checkout -q --detach $(git -C /repo rev-parse HEAD)
git -C $MT/repo checkout -q -- .
git -C $MT/repo apply "$PATCH"
rsync -a --delete --exclude .git --exclude 'harness/target' --exclude 'lean/.lake' --exclude replays --exclude evidence /verif/ $MT/verif/
mkdir -p $MT/verif/evidence
# warm start for the copies of the build directories
[ -d $MT/verif/lean/.lake ] || cp -r /verif/lean/.lake $MT/verif/lean/.lake
[ -d $MT/verif/harness/target ] || cp -r /verif/harness/target $MT/verif/harness/target
sed -i "s#path = \"/repo\"#path = \"$MT/repo\"#" $MT/verif/harness/Cargo.toml
cd $MT/verif
for id in "$@"; do
  s=$(date +%s)
  out=$(WAX_REPO=$MT/repo ./check $id --tier ${TIER:-quick} 2>&1) && rc=0 || rc=$?
  e=$(date +%s)
  echo "$id rc=$rc $((e-s))s $(echo "$out" | grep VIOLATION | cut -c1-200)"
  if [ $rc -ne 0 ]; then
    f=$(echo "$out" | grep -o 'replay=[^ ]*' | head -1 | cut -d= -f2)
    [ -n "$f" ] && python3 -c "
import json,sys
v=json.load(open('$f')); print('    ', v['kind'], '|', v['name'][:160]); print('    ', json.dumps(v['input'], ensure_ascii=False)[:300])"
  fi
done
git -C $MT/repo checkout -q -- .
