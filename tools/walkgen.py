#!/usr/bin/env python3
"""Differential validation of the Lean walk model against the real crate (harness `waxh`).

For every generated walk: the harness materialises the tree, records it, walks it with the real
crate; its `root` / `base` / `rec` are handed to the model, and `items` / `logs` are compared
textually.  Likewise `WP` (root, pivot, component programs) and `NP` (negation programs).
"""
import argparse
import collections
import os
import random
import subprocess
import sys
import time

HARNESS = '/verif/harness/target/release/waxh'
MODEL = os.environ.get('WAXMODEL', '/root/scratch/agent-walk/lean/.lake/build/bin/waxmodel')


def hx(s):
    return '-' if s == '' else '.'.join('%x' % ord(c) for c in s)


def unhx(h):
    return '' if h == '-' else ''.join(chr(int(x, 16)) for x in h.split('.'))


class Proc:
    def __init__(self, argv):
        self.p = subprocess.Popen(argv, stdin=subprocess.PIPE, stdout=subprocess.PIPE, cwd='/tmp',
                                  encoding='utf-8', bufsize=1)

    def ask(self, line):
        self.p.stdin.write(line + '\n')
        self.p.stdin.flush()
        out = self.p.stdout.readline()
        if not out:
            raise RuntimeError('process died on: ' + line)
        return out.rstrip('\n')


# ---------------------------------------------------------------------------------------------
# names and expressions

PLAIN = ['a', 'b', 'c', 'd', 'x.txt', 'y.md', 'z.TXT', 'B', 'ab']
ODD = ['*', '[a]', '{a}', '.x', '.h.txt', 'é', '中文', 'n\nl', 'a b', 'ß', 'A', '**', '?']
META = set('?*$:<>()[]{},\\')


def esc(name):
    return ''.join('\\' + c if c in META else c for c in name)


def pattern_component(rng, vocab):
    k = rng.randrange(16)
    n = rng.choice(vocab)
    if k == 0:
        return '*'
    if k == 1:
        return '?'
    if k == 2:
        return '*.txt'
    if k == 3:
        return '*.{txt,md}'
    if k == 4:
        return '[ab]'
    if k == 5:
        return '{%s,%s}' % (esc(rng.choice(vocab)), esc(rng.choice(vocab)))
    if k == 6:
        return '<%s:1,2>' % esc(n)
    if k == 7:
        return '(?i)' + esc(n.upper()) + '(?-i)'
    if k == 8:
        return '.*'
    if k == 9:
        return esc(n[:1]) + '*'
    if k == 10:
        return '[!a]'
    if k == 11:
        return '*' + esc(n[-1:])
    if k == 12:
        return '$'
    if k == 13:
        return '?*'
    if k == 14:
        return '{%s,*.md}' % esc(n)
    return esc(n)


def glob_tail(rng, vocab):
    """a variant tail: pattern components, tree wildcards, alternations with separators"""
    shape = rng.randrange(12)
    c = lambda: pattern_component(rng, vocab)
    l = lambda: esc(rng.choice(vocab))
    if shape == 0:
        return '**'
    if shape == 1:
        return c()
    if shape == 2:
        return c() + '/' + c()
    if shape == 3:
        return '**/' + c()
    if shape == 4:
        return c() + '/**'
    if shape == 5:
        return c() + '/**/' + c()
    if shape == 6:
        return '{%s/%s,%s}' % (l(), c(), l())
    if shape == 7:
        return '{%s,%s/**}' % (l(), l())
    if shape == 8:
        return c() + '/' + l() + '/' + c()
    if shape == 9:
        return '**/' + l() + '/**'
    if shape == 10:
        return c() + '/' + c() + '/' + c()
    return '<%s/:0,2>%s' % (c(), c())


def generalize(rng, nm, vocab):
    """a pattern that matches the name `nm` (usually)"""
    r = rng.random()
    if r < 0.42:
        return esc(nm)
    if r < 0.55:
        return '*'
    if r < 0.62:
        return esc(nm[:1]) + '*'
    if r < 0.69:
        return '*' + esc(nm[-1:])
    if r < 0.77:
        pair = [esc(nm), esc(rng.choice(vocab))]
        rng.shuffle(pair)
        return '{%s,%s}' % tuple(pair)
    if r < 0.82:
        return '?' * len(nm)
    if r < 0.87:
        return '(?i)' + esc(nm.swapcase()) + '(?-i)'
    if r < 0.90:
        return '<%s:1,2>' % esc(nm)
    if r < 0.94 and nm[:1].isalnum():
        return '[%s%s]%s' % (nm[0], rng.choice('abx'), esc(nm[1:]))
    if r < 0.97:
        return esc(nm[:1]) + '$' + esc(nm[1:])
    return '<?:1,>'


def derive_glob(rng, parts, vocab):
    """a glob built from a path that exists below the base"""
    comps = []
    i = 0
    while i < len(parts):
        if i + 1 < len(parts) and rng.random() < 0.10:
            # a branch token that spans two components (it contains a boundary): the walker must not prune by it
            two = esc(parts[i]) + '/' + esc(parts[i + 1])
            k = rng.randrange(6)
            if k >= 4 and len(parts[i]) >= 2 and len(parts[i + 1]) >= 1:
                # ... in the MIDDLE of its component: literal head, the spanning branch, literal tail (the head alone
                # must not become a component program of its own)
                a, b = parts[i], parts[i + 1]
                cut_a = rng.randint(1, len(a) - 1)
                cut_b = rng.randint(0, len(b) - 1) if len(b) > 1 else 0
                head, mid, tail = esc(a[:cut_a]), esc(a[cut_a:]) + '/' + esc(b[:cut_b]) if cut_b else esc(a[cut_a:]) + '/', esc(b[cut_b:])
                if k == 4:
                    comps.append('%s{%s,%s}%s' % (head, mid, esc(rng.choice(vocab)), tail))
                else:
                    comps.append('%s<%s:0,1>%s' % (head, mid, tail))
            elif k == 0 or k >= 4:
                comps.append('{%s,%s}' % (two, esc(rng.choice(vocab))))
            elif k == 1:
                comps.append('{%s,%s}' % (esc(rng.choice(vocab)), two))
            elif k == 2:
                comps.append('<%s/:1>%s' % (esc(parts[i]), esc(parts[i + 1])))
            else:
                comps.append('{%s/**/%s,%s}' % (esc(parts[i]), esc(parts[i + 1]), esc(rng.choice(vocab))))
            i += 2
            continue
        if rng.random() < 0.14 and (not comps or comps[-1] != '**'):
            comps.append('**')
            i += rng.randint(0, len(parts) - i)
        else:
            comps.append(generalize(rng, parts[i], vocab))
            i += 1
    if not comps:
        comps = [rng.choice(['**', '*', ''])]
    r = rng.random()
    if r < 0.08 and comps[-1] != '**':
        comps.append('**')
    elif r < 0.13:
        comps.append('*')
    e = '/'.join(comps)
    # a flag group cannot end an expression
    return e[:-5] if e.endswith('(?-i)') else e


def gen_glob_for(rng, vocab, dirs, basedir, targets):
    """a glob aimed at `targets` (paths relative to the recorded root that lie below `basedir`)"""
    t = rng.choice(targets)
    rel = t[len(basedir):]
    k = rng.randrange(40)
    if k < 24:
        # literal prefixes arise by themselves from `generalize`
        return derive_glob(rng, rel, vocab), 'aimed'
    if k < 32:
        return '@ROOT/' + derive_glob(rng, t, vocab), 'aimed-rooted'
    if k < 34:
        return './' + derive_glob(rng, rel, vocab), 'aimed-dot'
    if k < 36 and len(rel) >= 2:
        return esc(rel[0]) + '/../' + derive_glob(rng, rel, vocab), 'aimed-dotdot'
    if k < 39 and len(rel) >= 1:
        j = rng.randint(1, len(rel))
        return '/'.join(esc(x) for x in rel[:j]) + ('/' + derive_glob(rng, rel[j:], vocab) if j < len(rel) else ''), 'aimed-literal-prefix'
    return '../r/' + derive_glob(rng, t, vocab), 'aimed-up-and-down'


def gen_glob(rng, vocab, dirs, wp_only=False):
    """returns (expression with @ROOT, shape label)"""
    shape = rng.randrange(20)
    lit = lambda: esc(rng.choice(vocab))
    somedir = lambda: '/'.join(esc(x) for x in rng.choice(dirs)) if dirs else lit()
    if shape == 0:
        return '', 'empty'
    if shape <= 3:
        return glob_tail(rng, vocab), 'unrooted'
    if shape <= 7:
        n = rng.randint(1, 3)
        pre = somedir() if rng.random() < 0.6 else '/'.join(lit() for _ in range(n))
        if rng.random() < 0.2:
            return pre, 'literal-only'
        return pre + '/' + glob_tail(rng, vocab), 'prefix'
    if shape <= 10:
        pre = '@ROOT'
        if rng.random() < 0.7:
            pre += '/' + (somedir() if rng.random() < 0.7 else lit())
        if rng.random() < 0.15:
            return pre, 'rooted-literal'
        return pre + '/' + glob_tail(rng, vocab), 'rooted'
    if shape <= 13:
        k = rng.randrange(7)
        d = somedir()
        if k == 0:
            pre = './' + d
        elif k == 1:
            pre = d + '/..'
        elif k == 2:
            pre = d + '/../' + lit()
        elif k == 3:
            pre = '../r'
        elif k == 4:
            pre = d + '/.'
        elif k == 5:
            pre = '.'
        else:
            pre = '@ROOT/' + d + '/..'
        if rng.random() < 0.15:
            return pre, 'dots-literal'
        return pre + '/' + glob_tail(rng, vocab), 'dots'
    if shape == 14:
        # (`/**` itself would walk the whole file system: only in the WP stream)
        return ('/**', 'rooted-tree') if wp_only else ('@ROOT/**', 'rooted')
    if shape == 15:
        return '(?i)' + somedir().upper() + '/' + glob_tail(rng, vocab), 'case-insensitive-prefix'
    if shape == 16:
        return '{%s,%s}/%s' % (lit(), lit(), glob_tail(rng, vocab)), 'alternation-first'
    if shape == 17:
        return somedir() + '/', 'trailing-separator'
    if shape == 18:
        return '**/' + lit(), 'tree-then-literal'
    return rng.choice(['*/', 'a/b//', 'a//b', '{a,/b}', '**/**', '***', 'a/**b', '{,a}', '<a:2,1>', '[', '<*:0,>',
                       '<a/:1,>', '<**/a:1,2>', '{**/a,b}', '$/$']), 'odd'


def gen_not(rng, vocab, dirs):
    d = esc(rng.choice(dirs)[-1]) if dirs and rng.random() < 0.7 else esc(rng.choice(vocab))
    n = esc(rng.choice(vocab))
    table = [
        (d + '/**', 'exh'), ('**/' + d + '/**', 'exh'), ('*.txt', 'nonexh'), ('**/*.txt', 'nonexh'),
        ('{%s/**,*.md}' % d, 'mixed'), ('', 'empty'), ('**', 'exh'), ('*', 'nonexh'), (n, 'nonexh'), (d, 'nonexh'),
        (d + '/*', 'nonexh'), ('**/.*', 'nonexh'), ('**/(?i)*.TXT', 'nonexh'), ('{%s,%s}' % (n, d), 'nonexh'),
        ('**/' + n, 'nonexh'), ('{%s/**,**/%s/**}' % (d, n), 'exh'), ('{{%s/**,*.md},%s}' % (d, n), 'mixed'),
        (d + '/<<?>/>*', 'exh'), (d + '/**/*', 'exh'), ('<%s:1>/**' % d, 'exh'), ('{%s,%s}/**' % (d, n), 'exh'),
        ('{%s/**,{%s/**,*.md}}' % (d, n), 'mixed'), ('<%s/**:1>' % d, 'exh'), ('{{%s/**}}' % d, 'exh'),
        ('**/' + d + '/*', 'nonexh'), ('*/**', 'exh'), ('**/' + n + '/**', 'exh'),
        # exhaustive for some alternatives only, NESTED in a concatenation or repetition (is_exhaustive = Sometimes):
        # into_alternatives splits top-level alternations only
        (d + '/{' + n + '/**,' + n + '}', 'sometimes'), ('{' + d + ',' + n + '}/{**,' + n + '}', 'sometimes'),
        ('<' + d + '/{**,' + n + '}:1>', 'sometimes'), (d + '/{*/**,*}', 'sometimes'), ('**/' + d + '/{' + n + '/**,*.txt}', 'sometimes'),
        ('{' + d + '/{**,' + n + '},*.md}', 'sometimes'),
        # a repetition that is the WHOLE pattern or a whole alternative (into_non_trivial looks at exactly these)
        ('<?:1,>', 'nonexh'), ('<[!.]:1,>', 'nonexh'), ('{<?:1,>,%s}' % n, 'nonexh'), ('<%s/**:1,>' % d, 'exh'), ('<?:1>', 'nonexh'), ('<?:2,>', 'nonexh'),
        ('{<%s:1,>}' % n, 'nonexh'), ('<<?:1,>:1>', 'nonexh'),
        # exhaustive patterns whose matches END in a separator: they match `dir/`, which is the path of no entry, and not `dir`
        (d + '/<*/>', 'exh-sep'), ('**/' + d + '/<*/:1,>', 'exh-sep'), (d + '/*/**', 'exh'), ('<*/>', 'exh-sep'), (d + '/<<?>/>', 'exh-sep'),
        ('{%s/<*/>,*.md}' % d, 'mixed-sep'), ('**/' + d + '/', 'nonexh-sep'),
        # rooted patterns never match a root-relative path
        ('/**', 'rooted'), ('/' + d + '/**', 'rooted'), ('{/**,%s}' % n, 'rooted-mixed'), ('/**/' + n, 'rooted'),
    ]
    # a DIRECTORY of the tree reached through the nonexhaustive alternative of a nested alternation
    deep = [x for x in dirs if len(x) >= 2]
    if deep:
        dd = rng.choice(deep)
        par, nm = esc(dd[-2]), esc(dd[-1])
        table += [('**/%s/{%s/**,%s}' % (par, n, nm), 'sometimes'), ('%s/{%s/**,%s}' % ('/'.join(esc(x) for x in dd[:-1]), n, nm), 'sometimes'),
                  ('**/{%s/**,%s}' % (n, nm), 'sometimes-top'), ('<**/%s/{%s/**,%s}:1>' % (par, n, nm), 'sometimes')]
    weights = [1 if e in ('**', '*/**', '*') else 3 for e, _ in table]
    return rng.choices(table, weights)[0]


def gen_stack(rng, vocab, dirs):
    n = rng.choices([0, 1, 2, 3], [34, 30, 21, 15])[0]
    layers = []
    shape = ''
    kinds = []
    for _ in range(n):
        if rng.random() < 0.6:
            k = rng.choices([1, 2, 3], [75, 18, 7])[0]
            exprs = []
            for _ in range(k):
                e, kind = gen_not(rng, vocab, dirs)
                if rng.random() < 0.02:
                    e, kind = '{a,/b}', 'invalid'
                exprs.append(e)
                kinds.append(kind)
            layers.append('n:' + '+'.join(hx(e) for e in exprs))
            shape += 'n' if k == 1 else 'N'
        else:
            rules = []
            for _ in range(rng.randint(0, 3)):
                nm = rng.choice(vocab) if rng.random() < 0.94 else ''
                rules.append('%s=%s' % (hx(nm), rng.choice('TF')))
            layers.append('f:' + ','.join(rules))
            shape += 'f'
    return (';'.join(layers) if layers else '-'), (shape or '-'), kinds


# ---------------------------------------------------------------------------------------------
# trees: a small model of the file system that the generator uses to keep the cases inside what
# a *recorded* tree can express (see `admissible`)

ABS = ('tmp', 'W', 'r')


class FS:
    def __init__(self, nodes, uid_root):
        self.nodes = nodes          # relative tuple -> ('d',) ('f',) ('l', target) ('u',)
        self.uid_root = uid_root    # chmod 000 has no effect for root

    def kind(self, ap):
        if ap in ((), ('tmp',), ('tmp', 'W'), ABS):
            return ('d',)
        if ap[:3] == ABS:
            k = self.nodes.get(ap[3:])
            if k and k[0] == 'u' and self.uid_root:
                return ('d',)
            return k
        return None

    def children(self, ap):
        if ap == ():
            return ['tmp']
        if ap == ('tmp',):
            return ['W']
        if ap == ('tmp', 'W'):
            return ['r']
        rel = ap[3:]
        return [p[-1] for p in self.nodes if len(p) == len(rel) + 1 and p[:len(rel)] == rel]

    def canon(self, ap):
        """physical identity of an absolute path (following every link), or None"""
        cur = []
        pieces = list(ap)
        budget = 40
        while pieces:
            p = pieces.pop(0)
            if p in ('', '.'):
                continue
            if p == '..':
                if cur:
                    cur.pop()
                continue
            k = self.kind(tuple(cur) + (p,))
            if k is None:
                return None
            if k[0] == 'l':
                budget -= 1
                if budget < 0:
                    return None
                t = k[1].replace('@ROOT', '/tmp/W/r')
                tp = t.split('/')
                if t.startswith('/'):
                    cur = []
                pieces = tp + pieces
                continue
            if k[0] == 'f':
                if any(x not in ('',) for x in pieces):
                    return None
                return tuple(cur) + (p,)
            if k[0] == 'u' and any(x not in ('',) for x in pieces):
                return None
            cur.append(p)
        return tuple(cur)


def admissible(fs, raw, follow):
    """Can the model, which only sees the recorded tree, know what the walk from `raw` does?
    No, when the lexical resolution of the path differs from the physical one (`..` after a link),
    when the path goes through or ends at a re-entrant link (its children are not recorded), or
    when (following links) a link below is re-entrant for the recording but not for the walk."""
    if not raw.startswith('/'):
        if raw == '':
            return True
        raw = '/tmp/W/r/' + raw
    stack = [((), False)]
    pieces = raw.split('/')
    final = None
    for i, p in enumerate(pieces):
        if p in ('', '.'):
            continue
        if final is not None:
            return True          # something after a non-directory: an error either way
        if p == '..':
            if len(stack) > 1:
                if stack[-1][1]:
                    return False
                stack.pop()
            continue
        here = stack[-1][0] + (p,)
        k = fs.kind(here)
        if k is None:
            return True          # missing: an error either way
        if k[0] == 'l':
            c = fs.canon(here)
            ck = fs.kind(c) if c is not None else None
            if ck is None or ck[0] == 'f':
                final = 'leaf'
                continue
            ids = [s[0] for s in stack]
            if c in ids[ids.index(ABS):] if ABS in ids else False:
                return False     # re-entrant for the recording
            if ck[0] == 'u':
                final = 'leaf'
                continue
            stack.append((c, True))
        elif k[0] == 'd':
            stack.append((here, False))
        elif k[0] == 'u':
            final = 'leaf'
        else:
            final = 'leaf'
    if final is not None or not follow:
        # without following links only the root may be a link, and that was checked above
        return True
    ids = [s[0] for s in stack]
    if len(ids) < 2 or ids[1] != ('tmp',):
        return True
    if len(ids) < 3:
        return False             # /tmp itself: not ours
    if ABS not in ids:
        return True              # /tmp/W: above the recorded root, its ancestors are a superset
    anc_all = ids[ids.index(ABS):]
    start = ids[-1]

    def rec(d, all_, walk_):
        for name in fs.children(d):
            p = d + (name,)
            k = fs.kind(p)
            if k[0] == 'd':
                if not rec(p, all_ + [p], walk_ + [p]):
                    return False
            elif k[0] == 'l':
                c = fs.canon(p)
                ck = fs.kind(c) if c is not None else None
                if ck is None or ck[0] != 'd':
                    continue
                if (c in all_) != (c in walk_):
                    return False
                if c not in all_:
                    if not rec(c, all_ + [c], walk_ + [c]):
                        return False
        return True

    return rec(start, anc_all, [start])


def gen_tree(rng, vocab, faults, uid_root):
    names = list(vocab)
    nodes = {}
    dirs = [()]
    want = rng.choice([0, 1, 2, 4, 6, 9, 12, 16, 20, 26, 32, 38])
    tries = 0
    while len(nodes) < want and tries < 400:
        tries += 1
        # deeper directories are preferred so that the trees do not stay flat
        d = max(rng.sample(dirs, min(2, len(dirs))), key=len) if rng.random() < 0.6 else rng.choice(dirs)
        p = d + (rng.choice(names),)
        if p in nodes or len(p) > 5:
            continue
        if len(p) < 5 and rng.random() < 0.45:
            nodes[p] = ('d',)
            dirs.append(p)
        else:
            nodes[p] = ('f',)
    # links
    nlinks = rng.choices([0, 1, 2, 4], [35, 30, 20, 15])[0]
    files = [p for p, k in nodes.items() if k[0] == 'f']
    for _ in range(nlinks):
        if len(nodes) >= 40:
            break
        d = rng.choice(dirs)
        nm = rng.choice(names + ['l', 'k'])
        p = d + (nm,)
        if p in nodes or len(p) > 5:
            continue
        kind = rng.randrange(6)
        up = '/'.join(['..'] * len(d))
        if kind == 0 and files:
            t = rng.choice(files)
            target = (up + '/' if up else '') + '/'.join(t) if rng.random() < 0.7 else '@ROOT/' + '/'.join(t)
        elif kind == 1 and len(dirs) > 1:
            t = rng.choice(dirs[1:])
            target = (up + '/' if up else '') + '/'.join(t) if rng.random() < 0.7 else '@ROOT/' + '/'.join(t)
        elif kind == 2:
            target = rng.choice(['nowhere', '../nowhere', '@ROOT/zz/zz', nm])
        elif kind == 3:
            j = rng.randint(0, len(d))
            target = '/'.join(['..'] * j) if j else '.'
            if rng.random() < 0.2:
                target = '@ROOT/' + '/'.join(d[:len(d) - j]) if len(d) - j else '@ROOT'
        elif kind == 4:
            target = rng.choice(names)          # a sibling, whatever it is
        else:
            others = [q for q in nodes if nodes[q][0] == 'l']
            if not others:
                continue
            t = rng.choice(others)
            target = '@ROOT/' + '/'.join(t)
        nodes[p] = ('l', target)
    if faults:
        cands = [p for p in dirs if p != ()]
        rng.shuffle(cands)
        for p in cands[:rng.choice([1, 1, 2, 3])]:
            nodes[p] = ('u',)
    spec = []
    for p, k in nodes.items():
        rel = hx('/'.join(p))
        if k[0] == 'l':
            spec.append('l:%s:%s' % (rel, hx(k[1])))
        else:
            spec.append('%s:%s' % (k[0], rel))
    rng.shuffle(spec)
    # directories first is not needed (the harness creates parents), but unreadable ones are
    # chmod'ed at the end
    real_dirs = [p for p in dirs if p == () or nodes[p][0] in ('d', 'u')]
    return FS(nodes, uid_root), (','.join(spec) if spec else '-'), real_dirs


def gen_base(rng, dirs, fs):
    """returns (base text for the harness, label, the directory below the recorded root that it
    denotes, or None)"""
    d = rng.choice(dirs)
    sub = '/'.join(d)
    k = rng.randrange(24)
    if k <= 6 or (k <= 11 and not sub):
        return '', 'root', ()
    if k <= 9:
        return sub, 'subdir', d
    if k == 10:
        return '/', 'trailing-sep', ()
    if k == 11:
        return sub + '/', 'subdir-trailing-sep', d
    if k == 12:
        return '~.', 'rel-dot', ()
    if k == 13:
        return '~', 'rel-empty', ()
    if k == 14:
        return '~' + (sub or '.'), 'rel-sub', d
    if k == 15:
        return ((sub + '/..') if sub else '.'), 'dotdot', (d[:-1] if sub else ())
    if k == 16:
        return '..', 'above', None
    if k == 17:
        return '~..', 'rel-above', None
    if k == 18:
        others = [p for p, kk in fs.nodes.items() if kk[0] in ('f', 'l')]
        if others:
            return '/'.join(rng.choice(others)), 'file-or-link', None
        return 'zz', 'missing', None
    if k == 19:
        return rng.choice(['zz', 'zz/', '~zz', sub + '/zz' if sub else 'zz/zz']), 'missing', None
    if k == 20:
        return (('./' + sub) if sub else './'), 'dot-prefix', d
    if k == 21:
        return '../r' + ('/' + sub if sub else ''), 'up-and-down', d
    if k == 22:
        return '~./' + sub + ('/' if sub else ''), 'rel-dot-sub', d
    return sub + '//', 'double-trailing-sep', d


def base_path(base, root='/tmp/W/r'):
    if base == '':
        return root
    if base.startswith('~'):
        return base[1:]
    if base == '/':
        return root + '/'
    return root + '/' + base


# ---------------------------------------------------------------------------------------------

def parse_answer(ans):
    head = ans.split(' ', 1)[0]
    fields = {}
    for part in ans.split(' '):
        if '=' in part:
            k, v = part.split('=', 1)
            fields[k] = v
    return head, fields


def join_path(base, p):
    if p.startswith('/'):
        return p
    if base == '':
        return p
    if base.endswith('/'):
        return base + p
    return base + '/' + p


class Stats:
    def __init__(self):
        self.h = collections.defaultdict(collections.Counter)

    def add(self, group, key, n=1):
        self.h[group][key] += n

    def show(self):
        for g in sorted(self.h):
            print('  %s:' % g)
            for k, v in sorted(self.h[g].items(), key=lambda kv: (-kv[1], str(kv[0]))):
                print('      %-28s %d' % (k, v))


def run_walks(n, seed, faults, harness, model, stats, fails, label):
    rng = random.Random(seed)
    done = 0
    bad = 0
    skipped = 0
    t0 = time.time()
    while done < n:
        vocab = rng.sample(PLAIN, rng.randint(3, 5)) + rng.sample(ODD, rng.randint(1, 4))
        fs, spec, dirs = gen_tree(rng, vocab, faults, uid_root=not faults)
        reldirs = [d for d in dirs if d != ()]
        mode = 'g' if rng.random() < 0.8 else 'p'
        link = rng.choice('ft')
        for attempt in range(30):
            base, blabel, basedir = gen_base(rng, dirs, fs)
            targets = [p for p in fs.nodes if basedir is not None and len(p) > len(basedir) and p[:len(basedir)] == basedir]
            if mode == 'g' and targets and rng.random() < 0.82:
                expr, gshape = gen_glob_for(rng, vocab, reldirs, basedir, targets)
            elif mode == 'g':
                expr, gshape = gen_glob(rng, vocab, reldirs)
            else:
                expr, gshape = '', 'path-walk'
            # where does the walk start?  (the invariant prefix is not known here: take every
            # literal leading part that could be it -- admissibility is checked on the harness'
            # answer through the model's own anchor, see below)
            ok = admissible(fs, base_path(base), link == 't')
            if ok:
                break
        else:
            skipped += 1
            continue
        r = rng.random()
        if r < 0.40:
            mn, mx = '-', '-'
        elif r < 0.86:
            a, b = sorted([rng.choice([1, 1, 2, 2, 3, 4]), rng.choice([1, 2, 2, 3, 3, 4])])
            mn, mx = rng.choice([('-', str(rng.randint(0, 4))), (str(a), '-'), (str(a), str(b)), (str(a), str(b))])
        else:
            mn, mx = rng.choice('-01234'), rng.choice('-01234')
        stack, sshape, nkinds = gen_stack(rng, vocab, reldirs)
        req = 'W %s %s %s %s %s %s %s %s' % (mode, hx(base), hx(expr) if mode == 'g' else '-', link, mn, mx, stack, spec)
        ans = harness.ask(req)
        head, f = parse_answer(ans)
        root = f.get('root', '-')
        rootp = unhx(root)
        expr2 = expr.replace('@ROOT', rootp)
        # the walk root, to check admissibility for globs with a prefix
        if mode == 'g' and 'base' in f:
            wp = model.ask('WP %s %s' % (f['base'], hx(expr2)))
            wh, wf = parse_answer(wp)
            if 'root' in wf:
                wroot = unhx(wf['root']).replace(rootp, '/tmp/W/r')
                wroot_parent = rootp.rsplit('/', 1)[0]
                wroot = wroot.replace(wroot_parent, '/tmp/W')
                if not admissible(fs, wroot, link == 't'):
                    skipped += 1
                    continue
        mreq = 'W %s %s %s %s %s %s %s %s %s s' % (mode, f.get('base', '-'), hx(expr2) if mode == 'g' else '-', link, mn, mx,
                                                   stack, root, f.get('rec', '-'))
        mans = model.ask(mreq)
        mhead, mf = parse_answer(mans)
        done += 1
        if head.startswith('root='):
            same = mf.get('items') == f.get('items') and mf.get('logs') == f.get('logs') and mhead.startswith('items=')
        else:
            same = mhead == head
        if not same:
            bad += 1
            if len(fails) < 40:
                fails.append((label, req, ans, mreq, mans))
        # coverage
        stats.add('mode', {'g': 'glob', 'p': 'path'}[mode])
        stats.add('link behaviour', {'f': 'ReadFile', 't': 'ReadTarget'}[link])
        stats.add('glob shape', gshape)
        stats.add('base', blabel)
        stats.add('depth bounds', 'unbounded' if (mn, mx) == ('-', '-') else 'min' if mx == '-' else 'max' if mn == '-' else 'minmax')
        stats.add('stack shape', sshape)
        for k in nkinds:
            stats.add('negation kinds', k)
        if not head.startswith('root='):
            stats.add('outcome', head)
            continue
        rec = f.get('rec', '-')
        kinds = set()
        if rec != '-':
            entries = [e.split(':') for e in rec.split(';')]
            nn = len(fs.nodes)
            stats.add('tree size (nodes created)', '%d-%d' % (nn // 10 * 10, nn // 10 * 10 + 9) if nn < 40 else '40')
            stats.add('tree depth', max(int(e[0]) for e in entries))
            for i, e in enumerate(entries):
                kinds.add(e[1])
                if e[1] == 'u':
                    d = e[0]
                    prev_same = _has_prev(entries, i)
                    next_same = _has_next(entries, i)
                    pos = 'only' if not prev_same and not next_same else 'first' if not prev_same else 'last' if not next_same else 'middle'
                    stats.add('unreadable directory position', 'depth %s, %s child' % (d, pos))
        else:
            stats.add('tree size (nodes created)', 'nothing visible')
        for k in kinds:
            if k.startswith('l') or k == 'u':
                stats.add('walks with recorded kind', k)
        items = f.get('items', '-')
        its = [] if items == '-' else items.split(';')
        oks = [i for i in its if i.startswith('ok:')]
        errs = [i for i in its if i.startswith('err:')]
        stats.add('outcome', 'walk yielding >=1 entry' if oks else 'walk yielding no entry')
        stats.add('walks yielding >=1 entry, by glob shape', '%s: %s' % (gshape, 'some' if oks else 'none'))
        stats.add('walks yielding >=1 entry, by base', '%s: %s' % (blabel, 'some' if oks else 'none'))
        stats.add('walks yielding >=1 entry, by stack depth', '%d layers: %s' % (len(sshape.replace('-', '')), 'some' if oks else 'none'))
        if errs:
            stats.add('outcome', 'walk with error items')
            if any(i.startswith('err:-:') for i in errs):
                stats.add('outcome', 'walk with a path-less error item')
        if int(mf.get('cancelled', '0')) > 0:
            stats.add('outcome', 'walk that cancelled >=1 directory tree')
        stats.add('items per walk', '0' if not its else '1-4' if len(its) < 5 else '5-19' if len(its) < 20 else '20+')
        if any(i.split(':')[5] == 'l' for i in oks):
            stats.add('outcome', 'walk yielding a link entry')
        if oks and oks[0].split(':')[5] == 'l' and link == 'f' and len(its) > 1 and mode == 'p':
            stats.add('outcome', 'walk whose root is a link read as a file but traversed')
        if done % 1000 == 0:
            print('  [%s] %d walks, %d disagreements, %.0fs' % (label, done, bad, time.time() - t0), flush=True)
    return done, bad, skipped


def _has_prev(entries, i):
    d = int(entries[i][0])
    for x in reversed(entries[:i]):
        if int(x[0]) < d:
            return False
        if int(x[0]) == d:
            return True
    return False


def _has_next(entries, i):
    d = int(entries[i][0])
    for x in entries[i + 1:]:
        if int(x[0]) < d:
            return False
        if int(x[0]) == d:
            return True
    return False


def T(*items):
    """tree specification from `d:a/b`, `f:a/x`, `l:name:target`, `u:dir` with plain text paths"""
    out = []
    for it in items:
        f = it.split(':')
        out.append(':'.join([f[0]] + [hx(x) for x in f[1:]]))
    return ','.join(out)


def S(*layers):
    out = []
    for l in layers:
        k, rest = l.split(':', 1)
        if k == 'n':
            out.append('n:' + '+'.join(hx(e) for e in rest.split('+')))
        else:
            out.append('f:' + ','.join('%s=%s' % (hx(r.split('=')[0]), r.split('=')[1]) for r in rest.split(',') if r))
    return ';'.join(out) if out else '-'


# (label, run as nobody, request): behaviours worth pinning down one by one
FIXED = [
    ('root link read as a file cannot be cancelled', False, 'W p %s - f - - %s %s' % (hx('l'), S('n:**', 'f:'), T('d:a', 'f:a/b', 'l:l:a'))),
    ('root link read as its target can', False, 'W p %s - t - - %s %s' % (hx('l'), S('n:**', 'f:'), T('d:a', 'f:a/b', 'l:l:a'))),
    ('error items ignore min_depth', False, 'W p - - t 2 - - %s' % T('l:x:no', 'd:a', 'f:a/b')),
    ('empty relative base', False, 'W p %s - f - - - %s' % (hx('~'), T('f:a'))),
    ('rooted glob: depth off by one, empty root segment', False, 'W g - %s f - - - %s' % (hx('@ROOT/*'), T('f:a'))),
    ('rooted glob: max depth counted from the file system root', False, 'W g - %s f - 5 - %s' % (hx('@ROOT/**'), T('f:a', 'f:b/c'))),
    ('residue loses the pivot under not', False, 'W g - %s f - - %s %s' % (hx('a/b/**/*.txt'), S('n:c/**'), T('f:a/b/c/x.txt', 'f:a/b/y.txt'))),
    ('filtrate keeps the pivot under not', False, 'W g - %s f - - %s %s' % (hx('a/b/**'), S('n:a/b/c/**'), T('f:a/b/c/x.txt', 'f:a/b/y.txt'))),
    ('max below the pivot saturates', False, 'W g - %s f - 1 - %s' % (hx('a/b/*'), T('f:a/b/x'))),
    ('min below the pivot saturates', False, 'W g - %s f 1 2 - %s' % (hx('a/b/**'), T('f:a/b/x', 'f:a/b/c/y'))),
    ('.. in the prefix', False, 'W g - %s f - - - %s' % (hx('a/../b/*'), T('d:a', 'f:b/x'))),
    ('. in the prefix', False, 'W g - %s f - - - %s' % (hx('./b/*'), T('d:a', 'f:b/x'))),
    ('three tree verdicts cancel once', False, 'W g - %s f - - %s %s' % (hx('**'), S('n:a/**', 'n:**/a/**', 'f:a=T', 'f:'), T('f:a/b/c', 'f:d', 'f:e/a/x'))),
    ('node residue turned tree by a later layer', False, 'W g - %s f - - %s %s' % (hx('**/*.txt'), S('f:', 'n:**/a/**', 'f:'), T('f:a/b/c.txt', 'f:d.txt'))),
    ('empty glob yields the base only', False, 'W g %s - f - - - %s' % (hx('a'), T('f:a/b/c'))),
    ('empty not pattern removes the root only', False, 'W p - - f - - %s %s' % (S('n:'), T('f:a/b'))),
    ('newline in a name', False, 'W g - %s f - - %s %s' % (hx('**/*l'), S('n:*.txt'), T('f:a/n\nl', 'f:n\nl'))),
    ('filter by empty file name on a .. base', False, 'W p %s - f - 1 %s %s' % (hx('..'), S('f:=T'), T('d:a'))),
    ('prefix with trailing separator follows a root link', False, 'W g - %s f - - %s %s' % (hx('l/*'), S('f:'), T('d:a', 'f:a/b', 'l:l:a'))),
    ('prefix without trailing separator does not', False, 'W g - %s f - - %s %s' % (hx('l/**'), S('f:'), T('d:a', 'f:a/b', 'l:l:a'))),
    ('loop through a link', False, 'W g - %s t - - - %s' % (hx('**'), T('d:a/b', 'l:a/b/up:../..', 'f:a/x'))),
    ('link to a file, dangling link, link to a directory (ReadTarget)', False, 'W g - %s t - - - %s' % (hx('**'), T('d:a', 'f:a/x', 'l:f:a/x', 'l:n:nowhere', 'l:d:a'))),
    ('the same (ReadFile)', False, 'W g - %s f - - - %s' % (hx('**'), T('d:a', 'f:a/x', 'l:f:a/x', 'l:n:nowhere', 'l:d:a'))),
    ('base is a file', False, 'W g %s %s f - - - %s' % (hx('x'), hx('**'), T('f:x'))),
    ('base is a file with trailing separator', False, 'W p %s - f - - - %s' % (hx('x/'), T('f:x'))),
    ('alternation with a separator stops the programs', False, 'W g - %s f - - %s %s' % (hx('a/{b/c,d}/*'), S('f:'), T('f:a/b/c/x', 'f:a/d/y', 'f:a/e/z', 'f:q/r'))),
    ('component program prunes a directory', False, 'W g - %s f - - %s %s' % (hx('a/*/x'), S('f:'), T('f:a/b/x', 'f:c/d/x', 'f:a/e/f/x'))),
    ('unreadable directory (ReadFile)', True, 'W p - - f - - - %s' % T('u:u', 'f:u/x', 'f:a')),
    ('unreadable directory (ReadTarget): same items', True, 'W p - - t - - - %s' % T('u:u', 'f:u/x', 'f:a')),
    ('link to an unreadable directory: path-less error', True, 'W p - - t - - - %s' % T('u:u', 'l:l:u')),
    ('unreadable directory at max depth: no error item', True, 'W p - - f - 1 - %s' % T('u:u')),
    ('unreadable directory below min depth: error item only', True, 'W p - - f 2 - - %s' % T('u:u')),
    ('unreadable directory cancelled: no error item', True, 'W p - - f - - %s %s' % (S('f:u=T'), T('u:u'))),
    ('base is a link to an unreadable directory (ReadTarget): path-less error', True, 'W p %s - t - - - %s' % (hx('l'), T('u:u', 'l:l:u'))),
    ('base is a link to an unreadable directory (ReadFile)', True, 'W p %s - f - - - %s' % (hx('l'), T('u:u', 'l:l:u'))),
    ('the same with a trailing separator (ReadTarget)', True, 'W p %s - t - - - %s' % (hx('l/'), T('u:u', 'l:l:u'))),
    ('the same with a trailing separator (ReadFile)', True, 'W p %s - f - - - %s' % (hx('l/'), T('u:u', 'l:l:u'))),
    ('base is a dangling link (ReadFile)', False, 'W p %s - f - - - %s' % (hx('l'), T('l:l:nowhere'))),
    ('base is a dangling link (ReadTarget)', False, 'W p %s - t - - - %s' % (hx('l'), T('l:l:nowhere'))),
    ('base is a link to a file (ReadFile)', False, 'W p %s - f - - - %s' % (hx('l'), T('f:x', 'l:l:x'))),
    ('base is a link to a file (ReadTarget)', False, 'W p %s - t - - - %s' % (hx('l'), T('f:x', 'l:l:x'))),
    ('base is a link to a directory, with trailing separator (ReadFile)', False, 'W p %s - f - - %s %s' % (hx('l/'), S('n:**', 'f:'), T('f:a/x', 'l:l:a'))),
    ('unreadable base', True, 'W g %s %s f - - - %s' % (hx('u'), hx('**'), T('u:u'))),
    ('base beneath an unreadable directory', True, 'W p %s - f - - - %s' % (hx('u/x'), T('u:u', 'f:u/x'))),
]


def run_fixed(harness, nobody, model, stats, fails):
    bad = 0
    for label, as_nobody, req in FIXED:
        h = nobody if as_nobody else harness
        ans = h.ask(req)
        head, f = parse_answer(ans)
        a = req.split(' ')
        rootp = unhx(f.get('root', '-'))
        expr2 = unhx(a[3]).replace('@ROOT', rootp)
        mreq = 'W %s %s %s %s %s %s %s %s %s' % (a[1], f.get('base', '-'), hx(expr2) if a[1] == 'g' else '-', a[4], a[5], a[6], a[7],
                                                f.get('root', '-'), f.get('rec', '-'))
        mans = model.ask(mreq)
        mhead, mf = parse_answer(mans)
        if head.startswith('root='):
            same = mf.get('items') == f.get('items') and mf.get('logs') == f.get('logs') and mhead.startswith('items=')
        else:
            same = mhead == head
        stats.add('handcrafted cases', 'agree' if same else 'DISAGREE: ' + label)
        if not same:
            bad += 1
            fails.append(('fixed: ' + label, req, ans, mreq, mans))
    return len(FIXED), bad


WP_BASES = ['', '.', 'x', '/abs/p', 'a/b/', '../x', './a', 'a//b', '/', '..', 'a/./b', '/a/../b', 'x/', './', 'a/b/..', '//x']


def run_programs(n, seed, harness, model, stats, fails):
    rng = random.Random(seed)
    bad = 0
    for i in range(n):
        vocab = rng.sample(PLAIN, rng.randint(3, 5)) + rng.sample(ODD, rng.randint(1, 4))
        dirs = [tuple(rng.sample(vocab, rng.randint(1, 3))) for _ in range(3)]
        if i % 2 == 0:
            expr, shape = gen_glob(rng, vocab, dirs, wp_only=True)
            expr = expr.replace('@ROOT', rng.choice(['/r', '/tmp/w-1/r', '']))
            req = 'WP %s %s' % (hx(rng.choice(WP_BASES)), hx(expr))
            stats.add('WP glob shape', shape)
        else:
            k = rng.choices([1, 2, 3], [70, 20, 10])[0]
            exprs = []
            for _ in range(k):
                if rng.random() < 0.7:
                    e, kind = gen_not(rng, vocab, dirs)
                else:
                    e, kind = gen_glob(rng, vocab, dirs, wp_only=True)
                    e = e.replace('@ROOT', '/r')
                    kind = 'glob:' + kind
                exprs.append(e)
                stats.add('NP expression kind', kind)
            req = 'NP %d %s' % (k, ' '.join(hx(e) for e in exprs))
        a = harness.ask(req)
        m = model.ask(req)
        if req.startswith('NP'):
            ah, af = parse_answer(a)
            stats.add('NP outcome', 'err' if ah == 'err' else
                      ('ex' if af.get('ex') != 'none' else '') + ('+' if af.get('ex') != 'none' and af.get('nx') != 'none' else '') +
                      ('nx' if af.get('nx') != 'none' else '') or 'empty')
        else:
            ah, af = parse_answer(a)
            stats.add('WP outcome', 'globerr' if ah == 'globerr' else 'pivot %s, %d programs' % (
                af.get('pivot'), 0 if af.get('progs') == '-' else len(af.get('progs', '').split(';'))))
        if a != m:
            bad += 1
            if len(fails) < 40:
                fails.append(('programs', req, a, req, m))
    return n, bad


def main():
    ap = argparse.ArgumentParser()
    ap.add_argument('--walks', type=int, default=10000)
    ap.add_argument('--faults', type=int, default=2000)
    ap.add_argument('--programs', type=int, default=4000)
    ap.add_argument('--seed', type=int, default=1)
    args = ap.parse_args()
    stats = Stats()
    fails = []
    model = Proc([MODEL])
    harness = Proc([HARNESS])
    nobody = Proc(['setpriv', '--reuid=65534', '--regid=65534', '--clear-groups', HARNESS])
    t0 = time.time()
    fx, fxb = run_fixed(harness, nobody, model, stats, fails)
    w, wb, ws = run_walks(args.walks, args.seed, False, harness, model, stats, fails, 'walks')
    fw, fb, fsk = run_walks(args.faults, args.seed + 1000, True, nobody, model, stats, fails, 'faults')
    p, pb = run_programs(args.programs, args.seed + 2000, harness, model, stats, fails)
    print('handcrafted walks:    %d compared, %d disagreements' % (fx, fxb))
    print('walks (uid 0):        %d compared, %d disagreements (%d generated cases not expressible on a recorded tree, skipped)' % (w, wb, ws))
    print('fault stream (65534): %d compared, %d disagreements (%d skipped)' % (fw, fb, fsk))
    print('WP / NP:              %d compared, %d disagreements' % (p, pb))
    print('time: %.0fs' % (time.time() - t0))
    print('coverage:')
    stats.show()
    for label, req, ans, mreq, mans in fails[:12]:
        print('--- disagreement (%s)' % label)
        print('request: ' + req)
        print('harness: ' + ans)
        print('model request: ' + mreq)
        print('model:   ' + mans)
    sys.exit(1 if (wb or fb or pb or fxb) else 0)


if __name__ == '__main__':
    main()
