#!/usr/bin/env python3
"""Prototype: regenerate finite tables of wax from /repo/src as Lean definitions."""
import re, sys, itertools
SRC = sys.argv[1] if len(sys.argv) > 1 else "/repo/src"
def read(p): return open(f"{SRC}/{p}").read()
class Missing(Exception):
    pass

def fail(what):
    raise Missing(what)

def matches_chars(src, fn):
    """the character literals of the `matches!` in the body of `fn` (comments and layout are immaterial)"""
    m = re.search(r"pub const fn %s\(\w+: char\) -> bool \{" % fn, src)
    if not m: fail(fn)
    depth, j = 0, m.end() - 1
    while True:
        if src[j] == "{": depth += 1
        elif src[j] == "}":
            depth -= 1
            if depth == 0: break
        j += 1
    body = re.sub(r"//[^\n]*", "", src[m.end():j])
    m2 = re.search(r"matches!\(\s*\w+\s*,(.*)\)", body, re.S)
    if not m2: fail(fn)
    chars = re.findall(r"'(\\?.)'", m2.group(1))
    if not chars or re.sub(r"'(\\?.)'|[\s|]", "", m2.group(1)): fail(fn + ": not a plain list of characters")
    return chars

import os
sys.path.insert(0, os.path.dirname(os.path.abspath(__file__)))
import rs2lean
# ---- `match` expressions over small enums are EVALUATED, not pattern-matched as text: arm order, grouping by or-patterns,
# wildcards and nesting are immaterial as long as the function computes the same table
MTOK = re.compile(r"\s*(//[^\n]*|=>|[A-Za-z_][A-Za-z0-9_:]*|[(){}|,_])")

def mtokens(text):
    out, pos = [], 0
    while pos < len(text):
        m = MTOK.match(text, pos)
        if not m:
            if text[pos:].strip() == "": break
            return None
        pos = m.end()
        if not m.group(1).startswith("//"): out.append(m.group(1).split("::")[-1])
    return out

class MatchEval:
    """parses `match scrutinee { pattern => expr, ... }` (patterns: names, `_`, tuples, or-patterns at any level; expressions:
    a name, `Ctor(name)`, a nested match) and evaluates it in an environment"""
    def __init__(self, toks): self.t, self.i = toks, 0
    def peek(self): return self.t[self.i] if self.i < len(self.t) else None
    def eat(self, x=None):
        t = self.peek()
        if t is None or (x is not None and t != x): raise ValueError("expected %r, found %r" % (x, t))
        self.i += 1
        return t
    def scrutinee(self):
        if self.peek() == "(":
            self.eat("(")
            items = [self.eat()]
            while self.peek() == ",":
                self.eat(","); items.append(self.eat())
            self.eat(")")
            return tuple(items)
        return self.eat()
    def pattern(self):
        alts = [self.alt()]
        while self.peek() == "|":
            self.eat("|"); alts.append(self.alt())
        return ("or", alts)
    def alt(self):
        if self.peek() == "(":
            self.eat("(")
            items = [self.pattern()]
            while self.peek() == ",":
                self.eat(",")
                if self.peek() == ")": break
                items.append(self.pattern())
            self.eat(")")
            return ("tuple", items)
        return ("name", self.eat())
    def expr(self):
        if self.peek() == "match":
            return self.match()
        name = self.eat()
        if self.peek() == "(":
            self.eat("("); arg = self.eat(); self.eat(")")
            return ("ctor", name, arg)
        return ("val", name)
    def match(self):
        self.eat("match")
        sc = self.scrutinee()
        self.eat("{")
        arms = []
        while self.peek() != "}":
            if self.peek() == "|": self.eat("|")
            pat = self.pattern()
            self.eat("=>")
            e = self.expr()
            arms.append((pat, e))
            if self.peek() == ",": self.eat(",")
        self.eat("}")
        return ("match", sc, arms)

def pmatch(pat, v):
    k = pat[0]
    if k == "or": return any(pmatch(a, v) for a in pat[1])
    if k == "name": return pat[1] == "_" or pat[1] == v
    return isinstance(v, tuple) and len(v) == len(pat[1]) and all(pmatch(p, x) for p, x in zip(pat[1], v))

def meval(e, env):
    if e[0] == "val": return env.get(e[1], e[1])
    if e[0] == "ctor": return (e[1], env.get(e[2], e[2]))
    sc = e[1]
    v = tuple(env[x] for x in sc) if isinstance(sc, tuple) else env[sc]
    for pat, body in e[2]:
        if pmatch(pat, v): return meval(body, env)
    raise ValueError("non-exhaustive match")

def fn_match(src, header_pat, what):
    """the first `match` expression in the body of the function whose header matches header_pat, parsed"""
    m = re.search(header_pat, src, re.S)
    if not m: fail(what)
    i = src.index("{", m.end() - 1)
    depth, j = 0, i
    while True:
        if src[j] == "{": depth += 1
        elif src[j] == "}":
            depth -= 1
            if depth == 0: break
        j += 1
    body = src[i + 1:j]
    k = body.find("match")
    toks = mtokens(body[k:]) if k >= 0 else None
    if not toks: fail(what)
    try:
        return MatchEval(toks).match()
    except ValueError as ex:
        fail("%s: %s" % (what, ex))

# straight-line integer functions, translated (tools/rs2lean.py): the depth arithmetic of walks and the checked word operations
beh = read("walk/behavior.rs")
wmod = read("walk/mod.rs")
opsrs = read("token/variance/ops.rs")
FIELDS = {"min": "self_min", "extent": "self_extent", "0": "self_0"}
def _t(*a, **k):
    return rs2lean.translate(*a, **k)

# three groups, one Lean module each, so that a function that can no longer be translated (or whose tie theorem fails) touches
# only the properties whose theorems use that module
GROUPS = {
    "GeneratedBehavior": [
        lambda: _t(beh, r"impl DepthMinMax \{", "max", "depthMinMaxMax", "Nat", fields=FIELDS, params=[("self_min", "Nat"), ("self_extent", "Nat")]),
        lambda: _t(beh, r"impl DepthMin \{", "min_at_pivot", "minAtPivot", "Nat", fields=FIELDS, params=[("self_0", "Nat"), ("pivot", "Nat")]),
        lambda: _t(beh, r"impl DepthMax \{", "max_at_pivot", "maxAtPivot", "Nat", fields=FIELDS, params=[("self_0", "Nat"), ("pivot", "Nat")]),
        lambda: _t(beh, r"impl DepthMinMax \{", "min_max_at_pivot", "minMaxAtPivot", "Nat × Nat", fields=FIELDS,
                   calls={"max": ("depthMinMaxMax", ["min", "extent"])}, params=[("self_min", "Nat"), ("self_extent", "Nat"), ("pivot", "Nat")]),
    ],
    "GeneratedJoin": [
        lambda: _t(wmod, r"impl JoinAndGetDepth for Path \{", "join_and_get_depth", "joinDepth", "Nat",
                   opaque={"P0.as_ref().is_absolute()": ("pathIsAbsolute", "Bool"), "P0.is_absolute()": ("pathIsAbsolute", "Bool"),
                           "self.join(P0.as_ref()).components().count()": ("joinedCount", "Nat"),
                           "self.join(P0).components().count()": ("joinedCount", "Nat"),
                           "self.components().count()": ("selfCount", "Nat"),
                           "self.join(P0.as_ref())": ("()", None), "self.join(P0)": ("()", None)},
                   project=1, params=[("pathIsAbsolute", "Bool"), ("joinedCount", "Nat"), ("selfCount", "Nat")]),
    ],
    "GeneratedOps": [
        (lambda ty=ty, nm=nm, tr=tr, fn=fn: _t(opsrs, r"impl %s for %s \{" % (tr, ty), fn, fn + nm, "Nat", fields={"": "self_v"}, params=[("self_v", "Nat"), ("rhs", "Nat")]))
        for ty, nm in (("usize", "Usize"), ("NonZeroUsize", "NonZero")) for tr, fn in (("Conjunction", "conjunction"), ("Product", "product"))
    ],
}
group_text, group_fail = {}, {}
for gname, fns in GROUPS.items():
    defs = []
    for f in fns:
        try:
            defs.append(f())
        except rs2lean.Untranslatable as ex:
            group_fail.setdefault(gname, []).append(str(ex))
    group_text[gname] = "\n".join(["import Wax.Generated", "/-! GENERATED from the Rust sources by tools/extract.py + tools/rs2lean.py; do not edit. -/",
                                    "namespace Wax.Generated", ""] + defs + ["", "end Wax.Generated"]) + "\n"


def lchar(c):
    c = c[-1] if c.startswith("\\") and len(c) == 2 and c[1] != "\\" else ("\\" if c in ("\\\\",) else c)
    return "'\\\\'" if c == "\\" else "'\\''" if c == "'" else f"'{c}'"

def lstr(x): return '"' + x.replace("\\", "\\\\").replace('"', '\\"') + '"'

lib = read("lib.rs")
parse = read("token/parse.rs")

# ---- core: what the MODEL itself imports (Wax/Generated.lean). Without it nothing can be regenerated.
try:
    meta = matches_chars(lib, "is_meta_character")
    ctx = matches_chars(lib, "is_contextual_meta_character")
    rule = read("rule.rs")
    m = re.search(r"const MAX_INVARIANT_SIZE: Size = Size::new\((0x[0-9a-fA-F]+|\d+)\);", rule)
    if not m: fail("max invariant size")
    max_size = int(m.group(1), 0)
except Missing as ex:
    print("EXTRACT-FAIL %s" % ex)
    sys.exit(2)
core = ["/-! GENERATED from the Rust sources by tools/extract.py; do not edit. -/", "namespace Wax.Generated", "",
        f"def metaChars : List Char := [{', '.join(lchar(c) for c in meta)}]",
        f"def contextualMetaChars : List Char := [{', '.join(lchar(c) for c in ctx)}]",
        f"def maxInvariantSize : Nat := {max_size}",
        "", "/-! helpers of the straight-line integer functions translated by tools/rs2lean.py -/", rs2lean.PRELUDE, "", "end Wax.Generated"]

# ---- tables, one generated module per group of properties that rely on them; a table that cannot be read is left out of its
# module (its obligation then fails to elaborate, for the properties that list it only)
table_fail = {}
def module(name, items):
    """items: [(what, thunk -> list of lines)]"""
    lines = ["import Wax.Generated", "/-! GENERATED from the Rust sources by tools/extract.py; do not edit. -/", "namespace Wax.Generated", ""]
    for what, thunk in items:
        try:
            lines += thunk()
        except Missing as ex:
            table_fail.setdefault(name, []).append(str(ex))
    return "\n".join(lines + ["", "end Wax.Generated"]) + "\n"

def chars_tables():
    m = re.search(r'fn literal\(.*?bytes::is_not\("((?:[^"\\]|\\.)*)"\)', parse, re.S)
    if not m: fail("literal stop set")
    stop = list(bytes(m.group(1), "utf-8").decode("unicode_escape"))
    lit_body = parse[parse.index("fn literal("):parse.index("fn separator(")]
    escapes = re.findall(r'combinator::value\("(.)", bytes::tag\("(.)"\)\)', lit_body)
    if not escapes or any(a != b for a, b in escapes): fail("literal escapes")
    m = re.search(r'character::none_of\("((?:[^"\\]|\\.)*)"\)', parse)
    if not m: fail("class stop set")
    class_stop = list(bytes(m.group(1), "utf-8").decode("unicode_escape"))
    return [f"def literalStopSet : List Char := [{', '.join(lchar(c) for c in stop)}]",
            f"def literalEscapes : List Char := [{', '.join(lchar(a) for a, _ in escapes)}]",
            f"def classStopSet : List Char := [{', '.join(lchar(c) for c in class_stop)}]",
            "", "-- obligations re-checked against the code as it is now",
            "theorem meta_eq_escapes : metaChars.all (literalEscapes.contains ·) && literalEscapes.all (metaChars.contains ·) = true := by decide",
            "theorem stop_is_meta_plus_sep_bs : literalStopSet.all (fun c => c == '/' || c == '\\\\' || metaChars.contains c) && metaChars.all (literalStopSet.contains ·) && literalStopSet.contains '/' && literalStopSet.contains '\\\\' = true := by decide"]

NAMES = ["Open", "First", "Last", "Closed", "Coalescent"]
lean_name = {"Open": "open_", "First": "first", "Last": "last", "Closed": "closed", "Coalescent": "coal"}
def termn_table():
    term = read("token/variance/invariant/term.rs")
    hdr = r"impl Conjunction for Termination \{.*?fn conjunction\(self, (\w+): Self\)"
    mh = re.search(hdr, term, re.S)
    if not mh: fail("termination table")
    tm = fn_match(term, hdr + r"[^{]*\{", "termination table")
    table = {}
    try:
        for l, r in itertools.product(NAMES, NAMES):
            v = meval(tm, {"self": l, mh.group(1): r, "lhs": l})
            if not (isinstance(v, tuple) and v[0] in ("Left", "Right", "Neither") and v[1] in NAMES): fail("termination table: unexpected value %r" % (v,))
            table[(l, r)] = v
    except (ValueError, KeyError) as ex:
        fail("termination table: %s" % ex)
    rows = [f"  (.{lean_name[l]}, .{lean_name[r]}, .{table[(l, r)][0].lower()}, .{lean_name[table[(l, r)][1]]})" for l in NAMES for r in NAMES]
    return ["inductive T where | open_ | first | last | closed | coal deriving DecidableEq, Repr",
            "inductive K where | left | right | neither deriving DecidableEq, Repr",
            "def terminationTable : List (T × T × K × T) := [", ",\n".join(rows) + "]",
            "theorem table_total : terminationTable.length = 25 := by decide"]

WN = ["Always", "Sometimes", "Never"]
wl = {"Always": "always", "Sometimes": "sometimes", "Never": "never"}
def when_tables():
    query = read("query.rs")
    out = ["inductive W where | always | sometimes | never deriving DecidableEq, Repr"]
    for fn, name in (("and", "whenAnd"), ("or", "whenOr"), ("certainty", "whenCertainty")):
        m = re.search(r"pub fn %s\(self, (\w+): Self\) -> Self \{" % fn, query)
        if not m: fail("When::" + fn)
        e = fn_match(query, r"pub fn %s\(self, \w+: Self\) -> Self \{" % fn, "When::" + fn)
        tab = {}
        try:
            for x, y in itertools.product(WN, WN):
                v = meval(e, {"self": x, m.group(1): y})
                if v not in WN: fail("When::%s: unexpected value %r" % (fn, v))
                tab[(x, y)] = v
        except (ValueError, KeyError) as ex:
            fail("When::%s: %s" % (fn, ex))
        out.append("def %s : List (W × W × W) := [" % name + ", ".join("(.%s, .%s, .%s)" % (wl[a], wl[b], wl[tab[(a, b)]]) for a in WN for b in WN) + "]")
    return out

def const_tables():
    enc = read("encode.rs")
    m = re.search(r'const NEVER_EXPRESSION: &str = "((?:[^"\\]|\\.)*)";', enc)
    if not m: fail("NEVER_EXPRESSION")
    never_expr = m.group(1)
    m = re.search(r'#\[cfg\(unix\)\]\s*const SEPARATOR_CLASS_EXPRESSION: &str = "((?:[^"\\]|\\.)*)";', enc)
    if not m: fail("SEPARATOR_CLASS_EXPRESSION (unix)")
    sep_class = m.group(1)
    m = re.search(r'pub const ROOT_SEPARATOR_EXPRESSION: &str = "((?:[^"\\]|\\.)*)";', parse)
    if not m: fail("ROOT_SEPARATOR_EXPRESSION")
    root_sep = m.group(1)
    tokmod = read("token/mod.rs")
    m = re.search(r'pub fn is_semantic_literal\(&self\) -> bool \{\s*matches!\(self\.text\(\)\.as_ref\(\), ((?:"[^"]*"\s*\|?\s*)+)\)', tokmod)
    if not m: fail("is_semantic_literal")
    sem_lits = re.findall(r'"([^"]*)"', m.group(1))
    return ["def neverExpression : String := %s" % lstr(never_expr), "def separatorClassExpression : String := %s" % lstr(sep_class),
            "def rootSeparatorExpression : String := %s" % lstr(root_sep), "def semanticLiterals : List String := [%s]" % ", ".join(lstr(x) for x in sem_lits)]

import ruletables
def rule_tables():
    try:
        return ruletables.lean_lines(read("rule.rs"))
    except ruletables.Missing as ex:
        fail("branch-rule tables: %s" % ex)

import enctables
def enc_tables():
    try:
        return enctables.lean_lines(read("encode.rs"))
    except enctables.Missing as ex:
        fail("encoder leaf table: %s" % ex)

import kindtables
def kind_tables():
    try:
        return kindtables.lean_lines(read("token/mod.rs"))
    except ruletables.Missing as ex:
        fail("token kind predicates: %s" % ex)

files = {"Generated": "\n".join(core) + "\n",
         "GeneratedKinds": module("GeneratedKinds", [("token kind predicates", kind_tables)]),
         "GeneratedEncode": module("GeneratedEncode", [("encoder leaf table", enc_tables)]),
         "GeneratedRule": module("GeneratedRule", [("branch-rule tables", rule_tables)]),
         "GeneratedChars": module("GeneratedChars", [("character tables", chars_tables)]),
         "GeneratedTermn": module("GeneratedTermn", [("termination table", termn_table)]),
         "GeneratedWhen": module("GeneratedWhen", [("When tables", when_tables)]),
         "GeneratedConst": module("GeneratedConst", [("constants", const_tables)])}
files.update(group_text)
fails = dict(group_fail)
for k, v in table_fail.items():
    fails.setdefault(k, []).extend(v)

if "--dir" in sys.argv:
    import json
    d = sys.argv[sys.argv.index("--dir") + 1]
    changed = []
    for name, text in sorted(files.items()):
        path = os.path.join(d, name + ".lean")
        old = open(path, encoding="utf-8").read() if os.path.exists(path) else None
        if old is None or old.rstrip("\n") != text.rstrip("\n"):
            open(path, "w", encoding="utf-8").write(text)
            changed.append(name)
    print(json.dumps({"changed": changed, "untranslatable": fails, "files": sorted(files)}))
else:
    for g in sorted(files):
        print("-- ==== Wax/%s.lean" % g)
        print(files[g], end="")
    for g, why in fails.items():
        print("TRANSLATE-FAIL %s: %s" % (g, "; ".join(why)))
