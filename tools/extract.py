#!/usr/bin/env python3
"""Prototype: regenerate finite tables of wax from /repo/src as Lean definitions."""
import re, sys, itertools
SRC = sys.argv[1] if len(sys.argv) > 1 else "/repo/src"
def read(p): return open(f"{SRC}/{p}").read()
def fail(what): print(f"EXTRACT-FAIL {what}"); sys.exit(2)

def matches_chars(src, fn):
    """the character literals of the `matches!` in the body of `fn` (comments and layout are immaterial)"""
    m = re.search(r"pub const fn %s\(\w+: char\) -> bool \{" % fn, src)
    if not m: fail(fn)
    depth, j = 0, m.end() - 1
    while True:
        if src[j] == "{": depth += 1
        elif src[j] == "}":
            depth -= 1
            if depth == 0: break
        j += 1
    body = re.sub(r"//[^\n]*", "", src[m.end():j])
    m2 = re.search(r"matches!\(\s*\w+\s*,(.*)\)", body, re.S)
    if not m2: fail(fn)
    chars = re.findall(r"'(\\?.)'", m2.group(1))
    if not chars or re.sub(r"'(\\?.)'|[\s|]", "", m2.group(1)): fail(fn + ": not a plain list of characters")
    return chars

lib = read("lib.rs")
meta = matches_chars(lib, "is_meta_character")
ctx = matches_chars(lib, "is_contextual_meta_character")

parse = read("token/parse.rs")
m = re.search(r'fn literal\(.*?bytes::is_not\("((?:[^"\\]|\\.)*)"\)', parse, re.S)
if not m: fail("literal stop set")
stop = list(bytes(m.group(1), "utf-8").decode("unicode_escape"))
lit_body = parse[parse.index("fn literal("):parse.index("fn separator(")]
escapes = re.findall(r'combinator::value\("(.)", bytes::tag\("(.)"\)\)', lit_body)
if not escapes or any(a != b for a, b in escapes): fail("literal escapes")
m = re.search(r'character::none_of\("((?:[^"\\]|\\.)*)"\)', parse)
if not m: fail("class stop set")
class_stop = list(bytes(m.group(1), "utf-8").decode("unicode_escape"))

term = read("token/variance/invariant/term.rs")
m = re.search(r"impl Conjunction for Termination \{.*?match \(self, rhs\) \{(.*?)\n        \}", term, re.S)
if not m: fail("termination table")
NAMES = ["Open", "First", "Last", "Closed", "Coalescent"]
table = {}
for arm in re.findall(r"(.+?)=>\s*(Left|Right|Neither)\((\w+)\),", m.group(1), re.S):
    pats, kind, res = arm
    for pat in re.findall(r"\(([^()]+),([^()]+)\)", pats):
        ls = [x.strip() for x in pat[0].split("|")]; rs = [x.strip() for x in pat[1].split("|")]
        for l, r in itertools.product(ls, rs):
            if (l, r) in table: continue   # first arm wins
            table[(l, r)] = (kind, res)
if set(table) != set(itertools.product(NAMES, NAMES)): fail(f"termination table incomplete: {len(table)}")

rule = read("rule.rs")
m = re.search(r"const MAX_INVARIANT_SIZE: Size = Size::new\((0x[0-9a-fA-F]+|\d+)\);", rule)
if not m: fail("max invariant size")
max_size = int(m.group(1), 0)

# When truth tables (query.rs): first matching arm wins
query = read("query.rs")
WN = ["Always", "Sometimes", "Never"]
def when_table(fn):
    m = re.search(r"pub fn %s\(self, other: Self\) -> Self \{.*?match \(self, other\) \{(.*?)\n        \}" % fn, query, re.S)
    if not m: fail("When::" + fn)
    tab = {}
    for pats, res in re.findall(r"((?:\([^()]*\)\s*\|?\s*)+)=>\s*(\w+),", m.group(1)):
        for a, b in re.findall(r"\(\s*(\w+)\s*,\s*(\w+)\s*\)", pats):
            for x in (WN if a == "_" else [a]):
                for y in (WN if b == "_" else [b]):
                    tab.setdefault((x, y), res)
    if set(tab) != set(itertools.product(WN, WN)): fail("When::%s incomplete" % fn)
    return tab
when_and, when_or, when_cert = when_table("and"), when_table("or"), when_table("certainty")

enc = read("encode.rs")
m = re.search(r'const NEVER_EXPRESSION: &str = "((?:[^"\\]|\\.)*)";', enc)
if not m: fail("NEVER_EXPRESSION")
never_expr = m.group(1)
m = re.search(r'#\[cfg\(unix\)\]\s*const SEPARATOR_CLASS_EXPRESSION: &str = "((?:[^"\\]|\\.)*)";', enc)
if not m: fail("SEPARATOR_CLASS_EXPRESSION (unix)")
sep_class = m.group(1)
m = re.search(r'pub const ROOT_SEPARATOR_EXPRESSION: &str = "((?:[^"\\]|\\.)*)";', parse)
if not m: fail("ROOT_SEPARATOR_EXPRESSION")
root_sep = m.group(1)
tokmod = read("token/mod.rs")
m = re.search(r'#\[cfg\(any\(unix, windows\)\)\]\s*pub fn is_semantic_literal\(&self\) -> bool \{\s*matches!\(self\.text\(\)\.as_ref\(\), ((?:"[^"]*"\s*\|?\s*)+)\)', tokmod)
if not m: fail("is_semantic_literal")
sem_lits = re.findall(r'"([^"]*)"', m.group(1))

# straight-line integer functions, translated (tools/rs2lean.py): the depth arithmetic of walks and the checked word operations
import os
sys.path.insert(0, os.path.dirname(os.path.abspath(__file__)))
import rs2lean
beh = read("walk/behavior.rs")
wmod = read("walk/mod.rs")
opsrs = read("token/variance/ops.rs")
FIELDS = {"min": "self_min", "extent": "self_extent", "0": "self_0"}
def _t(*a, **k):
    return rs2lean.translate(*a, **k)

# three groups, one Lean module each, so that a function that can no longer be translated (or whose tie theorem fails) touches
# only the properties whose theorems use that module
GROUPS = {
    "GeneratedBehavior": [
        lambda: _t(beh, r"impl DepthMinMax \{", "max", "depthMinMaxMax", "Nat", fields=FIELDS, params=[("self_min", "Nat"), ("self_extent", "Nat")]),
        lambda: _t(beh, r"impl DepthMin \{", "min_at_pivot", "minAtPivot", "Nat", fields=FIELDS, params=[("self_0", "Nat"), ("pivot", "Nat")]),
        lambda: _t(beh, r"impl DepthMax \{", "max_at_pivot", "maxAtPivot", "Nat", fields=FIELDS, params=[("self_0", "Nat"), ("pivot", "Nat")]),
        lambda: _t(beh, r"impl DepthMinMax \{", "min_max_at_pivot", "minMaxAtPivot", "Nat × Nat", fields=FIELDS,
                   calls={"max": ("depthMinMaxMax", ["min", "extent"])}, params=[("self_min", "Nat"), ("self_extent", "Nat"), ("pivot", "Nat")]),
    ],
    "GeneratedJoin": [
        lambda: _t(wmod, r"impl JoinAndGetDepth for Path \{", "join_and_get_depth", "joinDepth", "Nat",
                   opaque={"P0.as_ref().is_absolute()": ("pathIsAbsolute", "Bool"), "P0.is_absolute()": ("pathIsAbsolute", "Bool"),
                           "self.join(P0.as_ref()).components().count()": ("joinedCount", "Nat"),
                           "self.join(P0).components().count()": ("joinedCount", "Nat"),
                           "self.components().count()": ("selfCount", "Nat"),
                           "self.join(P0.as_ref())": ("()", None), "self.join(P0)": ("()", None)},
                   project=1, params=[("pathIsAbsolute", "Bool"), ("joinedCount", "Nat"), ("selfCount", "Nat")]),
    ],
    "GeneratedOps": [
        (lambda ty=ty, nm=nm, tr=tr, fn=fn: _t(opsrs, r"impl %s for %s \{" % (tr, ty), fn, fn + nm, "Nat", fields={"": "self_v"}, params=[("self_v", "Nat"), ("rhs", "Nat")]))
        for ty, nm in (("usize", "Usize"), ("NonZeroUsize", "NonZero")) for tr, fn in (("Conjunction", "conjunction"), ("Product", "product"))
    ],
}
group_text, group_fail = {}, {}
for gname, fns in GROUPS.items():
    defs = []
    for f in fns:
        try:
            defs.append(f())
        except rs2lean.Untranslatable as ex:
            group_fail.setdefault(gname, []).append(str(ex))
    group_text[gname] = "\n".join(["import Wax.Generated", "/-! GENERATED from the Rust sources by tools/extract.py + tools/rs2lean.py; do not edit. -/",
                                    "namespace Wax.Generated", ""] + defs + ["", "end Wax.Generated"]) + "\n"

def lchar(c):
    c = c[-1] if c.startswith("\\") and len(c) == 2 and c[1] != "\\" else ("\\" if c in ("\\\\",) else c)
    return "'\\\\'" if c == "\\" else "'\\''" if c == "'" else f"'{c}'"
lean_name = {"Open": "open_", "First": "first", "Last": "last", "Closed": "closed", "Coalescent": "coal"}
out = ["/-! GENERATED from the Rust sources by extract.py; do not edit. -/", "namespace Wax.Generated", ""]
out.append(f"def metaChars : List Char := [{', '.join(lchar(c) for c in meta)}]")
out.append(f"def contextualMetaChars : List Char := [{', '.join(lchar(c) for c in ctx)}]")
out.append(f"def literalStopSet : List Char := [{', '.join(lchar(c) for c in stop)}]")
out.append(f"def literalEscapes : List Char := [{', '.join(lchar(a) for a, _ in escapes)}]")
out.append(f"def classStopSet : List Char := [{', '.join(lchar(c) for c in class_stop)}]")
out.append(f"def maxInvariantSize : Nat := {max_size}")
out.append("inductive T where | open_ | first | last | closed | coal deriving DecidableEq, Repr")
out.append("inductive K where | left | right | neither deriving DecidableEq, Repr")
out.append("def terminationTable : List (T × T × K × T) := [")
rows = [f"  (.{lean_name[l]}, .{lean_name[r]}, .{table[(l, r)][0].lower()}, .{lean_name[table[(l, r)][1]]})" for l in NAMES for r in NAMES]
out.append(",\n".join(rows) + "]")
wl = {"Always": "always", "Sometimes": "sometimes", "Never": "never"}
out.append("inductive W where | always | sometimes | never deriving DecidableEq, Repr")
for name, tab in (("whenAnd", when_and), ("whenOr", when_or), ("whenCertainty", when_cert)):
    out.append("def %s : List (W × W × W) := [" % name + ", ".join("(.%s, .%s, .%s)" % (wl[a], wl[b], wl[tab[(a, b)]]) for a in WN for b in WN) + "]")
def lstr(x): return '"' + x.replace("\\", "\\\\").replace('"', '\\"') + '"'
out.append("def neverExpression : String := %s" % lstr(never_expr))
out.append("def separatorClassExpression : String := %s" % lstr(sep_class))
out.append("def rootSeparatorExpression : String := %s" % lstr(root_sep))
out.append("def semanticLiterals : List String := [%s]" % ", ".join(lstr(x) for x in sem_lits))
out += ["", "/-! helpers of the straight-line integer functions translated by tools/rs2lean.py (Wax/GeneratedBehavior.lean, GeneratedJoin.lean, GeneratedOps.lean) -/", rs2lean.PRELUDE]
out += ["", "-- obligations re-checked against the code as it is now",
 "theorem meta_eq_escapes : metaChars.all (literalEscapes.contains ·) && literalEscapes.all (metaChars.contains ·) = true := by decide",
 "theorem stop_is_meta_plus_sep_bs : literalStopSet.all (fun c => c == '/' || c == '\\\\' || metaChars.contains c) && metaChars.all (literalStopSet.contains ·) && literalStopSet.contains '/' && literalStopSet.contains '\\\\' = true := by decide",
 "theorem table_total : terminationTable.length = 25 := by decide",
 "", "end Wax.Generated"]
tables = "\n".join(out) + "\n"
if "--dir" in sys.argv:
    import json
    d = sys.argv[sys.argv.index("--dir") + 1]
    changed = []
    for name, text in [("Generated", tables)] + sorted(group_text.items()):
        path = os.path.join(d, name + ".lean")
        old = open(path, encoding="utf-8").read() if os.path.exists(path) else None
        if old is None or old.rstrip("\n") != text.rstrip("\n"):
            open(path, "w", encoding="utf-8").write(text)
            changed.append(name)
    print(json.dumps({"changed": changed, "untranslatable": group_fail}))
else:
    print(tables, end="")
    for g in sorted(group_text):
        print("-- ==== Wax/%s.lean" % g)
        print(group_text[g], end="")
    for g, why in group_fail.items():
        print("TRANSLATE-FAIL %s: %s" % (g, "; ".join(why)))
