#!/usr/bin/env python3
"""store a confirmed seeded change: tools/store_seed.py <worktree> <name> <property> <summary> <needs> <site> <caught_by json>"""
import sys, os, json, shutil, subprocess, glob
wt, name, prop, summary, needs, site, caught = sys.argv[1:8]
d = os.path.join("/verif/seeded", name)
os.makedirs(d, exist_ok=True)
shutil.copy(os.path.join(wt, "out", "patch.diff"), d)
demos = sorted(glob.glob(os.path.join(wt, "out", "demo*.rs")))
shutil.copy(demos[0], os.path.join(d, "demo.rs"))
shutil.copy(os.path.join(wt, "out", "notes.md"), d)
c = subprocess.run(["/verif/tools/confirm_seed.sh", d], capture_output=True, text=True).stdout.strip().split("\n")[-1]
open(os.path.join(d, "confirm.json"), "w").write(c + "\n")
conf = json.loads(c)
meta = {"property": prop, "summary": summary, "needs": needs, "site": site, "caught_by": json.loads(caught), "confirmed_by_me": conf,
        "origin": "independent sub-agent given only the property text (and, in the second round, a one-line description of the first-round change to avoid) and its own scratch worktree",
        "ran": ["tools/confirm_seed.sh seeded/%s" % name, "tools/mutation_test.sh seeded/%s/patch.diff <checks>" % name]}
json.dump(meta, open(os.path.join(d, "meta.json"), "w"), indent=1, ensure_ascii=False)
print(name, "confirmed:", conf.get("confirmed"))
subprocess.run(["git", "-C", "/repo", "worktree", "remove", "--force", wt])
