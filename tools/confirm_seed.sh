#!/bin/bash
# Confirms a seeded change in a scratch worktree: suite green with the change, demo fails with it and passes without.
#   tools/confirm_seed.sh <dir containing patch.diff and demo.rs> ; prints a JSON line
D=$(readlink -f "$1")
WT=${CONFIRM_WT:-/root/scratch/confirm-wt}
export CARGO_TARGET_DIR=${CONFIRM_WT:-/root/scratch/confirm-wt}-target
git -C /repo worktree prune
[ -d $WT ] || git -C /repo worktree add -q --detach $WT HEAD
git -C $WT checkout -q --detach $(git -C /repo rev-parse HEAD); git -C $WT checkout -q -- .; rm -f $WT/tests/demo.rs
cd $WT
git apply "$D/patch.diff" || { echo '{"applies":false}'; exit 1; }
suite=$(cargo test --offline --lib 2>&1 | grep -E "^test result" | head -1)
doc=$(cargo test --offline --doc 2>&1 | grep -E "^test result" | head -1)
mkdir -p tests; cp "$D"/demo*.rs tests/demo.rs
with=$(cargo test --offline --test demo 2>&1 | grep -E "^test result" | head -1)
git checkout -q -- src
without=$(cargo test --offline --test demo 2>&1 | grep -E "^test result" | head -1)
rm -f tests/demo.rs
python3 - "$suite" "$doc" "$with" "$without" <<'PY'
import sys, json, re
suite, doc, w, wo = sys.argv[1:5]
def nums(s):
    m = re.search(r"(\d+) passed; (\d+) failed", s or "")
    return (int(m.group(1)), int(m.group(2))) if m else None
print(json.dumps({"applies": True, "suite_with_change": suite, "doctests_with_change": doc, "demo_with_change": w, "demo_without_change": wo,
                  "confirmed": nums(suite) == (468, 0) and (nums(doc) or (0, 1))[1] == 0 and (nums(w) or (0, 0))[1] > 0 and (nums(wo) or (0, 1))[1] == 0}))
PY
