#!/bin/bash
# development aid: run every claimed check once and print one line per check
cd "$(dirname "$0")/.."
for id in $(python3 -c "import json;print(' '.join(c['property_id'] for c in json.load(open('MANIFEST.json'))['checks']))"); do
  s=$(date +%s.%N)
  out=$(./check $id --tier ${1:-quick} 2>&1); rc=$?
  e=$(date +%s.%N)
  printf "%s rc=%d %.1fs known=%d %s\n" $id $rc $(echo "$e - $s" | bc) $(echo "$out" | grep -c KNOWN-FINDING) "$(echo "$out" | grep VIOLATION | cut -c1-160)"
done
