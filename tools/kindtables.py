"""The predicates of token kinds (`LeafKind::boundary`, `LeafKind::is_rooting`, `LeafKind::is_capturing`,
`BranchKind::is_capturing` in src/token/mod.rs), read from the source and EVALUATED on every kind of token."""
import re
import ruletables
from ruletables import Missing, Pat, pmatch, tokens

LEAVES = [("lit", ("Literal", ["*"])), ("sep", ("Separator", ["*"])), ("cls", ("Class", ["*"])), ("one", ("Wildcard", [("One", [])])),
          ("zom", ("Wildcard", [("ZeroOrMore", ["*"])])), ("treeR", ("Wildcard", [("Tree", {"has_root": True})])),
          ("treeU", ("Wildcard", [("Tree", {"has_root": False})]))]
BRANCHES = [("alt", ("Alternation", ["*"])), ("cat", ("Concatenation", ["*"])), ("rep", ("Repetition", ["*"]))]
CTORS = {"Literal", "Separator", "Class", "Wildcard", "One", "ZeroOrMore", "Tree", "Alternation", "Concatenation", "Repetition", "Some", "None"}


def fn_body(src, impl_pat, name):
    m = re.search(impl_pat, src)
    if not m:
        raise Missing("impl %s" % impl_pat)
    i = src.index("{", m.end() - 1)
    depth, j = 0, i
    while True:
        depth += (src[j] == "{") - (src[j] == "}")
        if depth == 0:
            break
        j += 1
    block = src[i + 1:j]
    m2 = re.search(r"pub fn %s\(&self\) -> [^{]+\{" % name, block)
    if not m2:
        raise Missing("fn %s" % name)
    i = m2.end() - 1
    depth, j = 0, i
    while True:
        depth += (block[j] == "{") - (block[j] == "}")
        if depth == 0:
            break
        j += 1
    return re.sub(r"//[^\n]*", "", block[i + 1:j])


def eval_matches(body, values):
    flat = re.sub(r"\s+", " ", body).strip()
    m = re.fullmatch(r"matches!\( ?self, (.*?),? ?\)", flat)
    if not m:
        raise Missing("not a single matches!(self, ..): %r" % flat[:80])
    pat = Pat(tokens(m.group(1))).pattern()
    return [pmatch(pat, v, {}) for _n, v in values]


def eval_boundary(body, values):
    flat = re.sub(r"\s+", " ", body).strip()
    m = re.fullmatch(r"match self \{(.*)\}", flat)
    if not m:
        raise Missing("boundary: not a single match on self")
    arms = ruletables.split_arms(tokens(m.group(1)))
    out = []
    for _n, v in values:
        for p, g, b in arms:
            if g is not None:
                raise Missing("boundary: guard")
            if pmatch(Pat(p).pattern(), v, {}):
                s = "".join(b)
                mm = re.fullmatch(r"Some\(Boundary::(Separator|Component)\)|None", s)
                if not mm:
                    raise Missing("boundary: body %r" % s)
                out.append({"None": 0, "Separator": 1, "Component": 2}[mm.group(1) or "None"])
                break
        else:
            raise Missing("boundary: no arm")
    return out


def lean_lines(src):
    saved = set(ruletables.KNOWN_CTORS)
    ruletables.KNOWN_CTORS.clear()
    ruletables.KNOWN_CTORS.update(CTORS)
    try:
        b = eval_boundary(fn_body(src, r"impl<'t> LeafKind<'t> \{", "boundary"), LEAVES)
        r = eval_matches(fn_body(src, r"impl<'t> LeafKind<'t> \{", "is_rooting"), LEAVES)
        c = eval_matches(fn_body(src, r"impl<'t> LeafKind<'t> \{", "is_capturing"), LEAVES)
        bc = eval_matches(fn_body(src, r"impl<'t, A> BranchKind<'t, A> \{", "is_capturing"), BRANCHES)
    finally:
        ruletables.KNOWN_CTORS.clear()
        ruletables.KNOWN_CTORS.update(saved)
    bl = lambda x: "true" if x else "false"
    out = ["inductive KLeaf where | lit | sep | cls | one | zom | treeR | treeU deriving DecidableEq, Repr",
           "inductive KBranch where | alt | cat | rep deriving DecidableEq, Repr",
           "/-- (leaf kind, boundary: 0 none / 1 separator / 2 component, is_rooting, is_capturing), evaluated from src/token/mod.rs -/",
           "def leafKinds : List (KLeaf × Nat × Bool × Bool) := [" + ", ".join("(.%s, %d, %s, %s)" % (n, b[i], bl(r[i]), bl(c[i])) for i, (n, _v) in enumerate(LEAVES)) + "]",
           "/-- (branch kind, is_capturing) -/",
           "def branchKinds : List (KBranch × Bool) := [" + ", ".join("(.%s, %s)" % (n, bl(bc[i])) for i, (n, _v) in enumerate(BRANCHES)) + "]"]
    return out


if __name__ == "__main__":
    import sys
    print("\n".join(lean_lines(open(sys.argv[1] if len(sys.argv) > 1 else "/repo/src/token/mod.rs").read())))
