//! `waxh`: the implementation side of the correspondence check. One request per line on stdin, one
//! answer per line on stdout; every string is hex-encoded (`-` is the empty string, otherwise the
//! scalar values in hexadecimal joined by `.`), so that newlines and arbitrary scalars survive.
//! Every request runs under `catch_unwind`.
mod lang;
mod walk;

use std::io::{BufRead, Write};
use std::panic::{catch_unwind, AssertUnwindSafe};
use std::str::FromStr;
use wax::query::{Boundedness, LocatedError, Variance, When};
use wax::{Any, CandidatePath, Glob, Program};

pub fn unhex(s: &str) -> String {
    if s == "-" {
        return String::new();
    }
    s.split('.')
        .map(|h| char::from_u32(u32::from_str_radix(h, 16).unwrap()).unwrap())
        .collect()
}

pub fn hex(s: &str) -> String {
    if s.is_empty() {
        return "-".into();
    }
    s.chars().map(|c| format!("{:x}", c as u32)).collect::<Vec<_>>().join(".")
}

fn when(w: When) -> &'static str {
    match w {
        When::Always => "always",
        When::Sometimes => "sometimes",
        When::Never => "never",
    }
}

fn q<T>(f: impl FnOnce() -> T, show: impl FnOnce(T) -> String) -> String {
    match catch_unwind(AssertUnwindSafe(f)) {
        Ok(x) => show(x),
        Err(e) => format!("panic:{}", panic_site(&e)),
    }
}

thread_local! {
    static LAST_PANIC: std::cell::RefCell<String> = std::cell::RefCell::new(String::new());
}

fn panic_site(_e: &Box<dyn std::any::Any + Send>) -> String {
    LAST_PANIC.with(|p| p.borrow().clone())
}

fn queries<'t, P: Program<'t>>(g: &P) -> String {
    let root = q(|| g.has_root(), |w| when(w).to_string());
    let exh = q(|| g.is_exhaustive(), |w| when(w).to_string());
    let depth = q(
        || g.depth(),
        |d| match d {
            Variance::Invariant(n) => format!("inv_{}", n),
            Variance::Variant(Boundedness::Unbounded) => "unb".into(),
            Variance::Variant(Boundedness::Bounded(r)) => {
                let b = |x: Boundedness<std::num::NonZeroUsize>| match x {
                    Boundedness::Bounded(n) => n.get().to_string(),
                    _ => "-".into(),
                };
                format!("rng_{}_{}", b(r.lower()), b(r.upper()))
            },
        },
    );
    let text = q(
        || g.text(),
        |t| match t {
            Variance::Invariant(s) => format!("inv:{}", hex(&s)),
            _ => "var".into(),
        },
    );
    format!("root={} exh={} depth={} text={}", root, exh, depth, text)
}

fn error_line(err: &wax::BuildError) -> String {
    let msg = err.to_string();
    let kind = if msg.starts_with("failed to parse") {
        "parse".to_string()
    }
    else if msg.starts_with("malformed") {
        let m = msg.trim_start_matches("malformed glob expression: ");
        let code = if m.starts_with("uncertain") {
            "rooted"
        }
        else if m.starts_with("singular tree") {
            "singular-tree"
        }
        else if m.starts_with("singular zero") {
            "singular-zom"
        }
        else if m.starts_with("adjacent component") {
            "adj-boundary"
        }
        else if m.starts_with("adjacent zero") {
            "adj-zom"
        }
        else if m.starts_with("oversized") {
            "oversized"
        }
        else if m.starts_with("incompatible") {
            "bounds"
        }
        else {
            "?"
        };
        format!("rule:{}", code)
    }
    else {
        "compile".to_string()
    };
    let spans: Vec<String> = err
        .locations()
        .map(|l| format!("{}+{}", l.span().0, l.span().1))
        .collect();
    format!("err {} [{}]", kind, spans.join(","))
}

fn glob_summary(g: &Glob<'_>) -> String {
    let caps: Vec<String> = g
        .captures()
        .map(|c| format!("{}:{}+{}", c.index(), c.span().0, c.span().1))
        .collect();
    format!(
        "ok {} | {} | {} sem={} empty={} caps=[{}]",
        g.verif_tokens(),
        hex(g.verif_pattern()),
        queries(g),
        u8::from(g.has_semantic_literals()),
        u8::from(g.is_empty()),
        caps.join(","),
    )
}

fn build(e: &str) -> String {
    match Glob::new(e) {
        Ok(g) => glob_summary(&g),
        Err(err) => error_line(&err),
    }
}

fn any_summary(a: &Any<'_>) -> String {
    format!("ok {} | {} | {}", a.verif_tokens(), hex(a.verif_pattern()), queries(a))
}

fn matched_line<'t, P: Program<'t>>(g: &P, n: usize, path: &str) -> String {
    let c = CandidatePath::from(path);
    let is = g.is_match(c.clone());
    match g.matched(&c) {
        None => format!("nomatch is={}", u8::from(is)),
        Some(m) => {
            let v: Vec<String> = (0..=n + 1)
                .map(|i| match m.get(i) {
                    Some(t) => format!("s:{}", hex(t)),
                    None => "n".into(),
                })
                .collect();
            let complete = hex(m.complete());
            let owned = m.to_owned();
            let same = (0..=n + 1).all(|i| owned.get(i) == m.get(i)) && owned.complete() == m.complete();
            let got: Vec<Option<String>> = (0..=n + 1).map(|i| m.get(i).map(|t| t.to_string())).collect();
            let owned2 = m.into_owned();
            let same = same && (0..=n + 1).all(|i| owned2.get(i).map(|t| t.to_string()) == got[i]);
            format!(
                "match is={} complete={} owned={} {}",
                u8::from(is),
                complete,
                if same { "same" } else { "diff" },
                v.join(" ")
            )
        },
    }
}

/// captures with their byte offsets in the candidate path
fn matched_offsets(g: &Glob<'_>, path: &str) -> String {
    let n = g.captures().count();
    let c = CandidatePath::from(path);
    let text: &str = c.as_ref();
    let base = text.as_ptr() as usize;
    let is = g.is_match(c.clone());
    match g.matched(&c) {
        None => format!("nomatch is={}", u8::from(is)),
        Some(m) => {
            let v: Vec<String> = (0..=n + 1)
                .map(|i| match m.get(i) {
                    Some(t) => {
                        let off = (t.as_ptr() as usize).wrapping_sub(base);
                        if off <= text.len() && off + t.len() <= text.len() && &text[off..off + t.len()] == t {
                            format!("s:{}@{}", hex(t), off)
                        }
                        else {
                            format!("s:{}@?", hex(t))
                        }
                    },
                    None => "n".into(),
                })
                .collect();
            let owned = m.to_owned();
            let same = (0..=n + 1).all(|i| owned.get(i) == m.get(i));
            format!("match is={} n={} candidate={} owned={} {}", u8::from(is), n, hex(text), if same { "same" } else { "diff" }, v.join(" "))
        },
    }
}

/// every span is sliced out of the expression under catch_unwind, as the documentation does
fn spans(e: &str) -> String {
    let slice = |a: usize, n: usize| -> String {
        match catch_unwind(|| e[a..][..n].to_string()) {
            Ok(s) => format!("{}+{}={}", a, n, hex(&s)),
            Err(_) => format!("{}+{}=PANIC", a, n),
        }
    };
    match Glob::new(e) {
        Err(err) => {
            let v: Vec<String> = err.locations().map(|l| slice(l.span().0, l.span().1)).collect();
            format!("err [{}]{}", v.join(","), other_routes(e))
        },
        Ok(g) => {
            let v: Vec<String> = g.captures().map(|c| slice(c.span().0, c.span().1)).collect();
            let (_, post) = g.clone().partition();
            let pv = match post {
                None => "none".to_string(),
                Some(p) => {
                    let shown = p.to_string();
                    let pslice = |a: usize, n: usize| -> String {
                        match catch_unwind(|| shown[a..][..n].to_string()) {
                            Ok(s) => format!("{}+{}={}", a, n, hex(&s)),
                            Err(_) => format!("{}+{}=PANIC", a, n),
                        }
                    };
                    let v: Vec<String> = p.captures().map(|c| pslice(c.span().0, c.span().1)).collect();
                    format!("{}[{}]", hex(&shown), v.join(","))
                },
            };
            format!("ok [{}] post={}{}", v.join(","), pv, other_routes(e))
        },
    }
}

/// the spans reported when the SAME string is built through FromStr and TryFrom (they index the caller's string)
fn other_routes(e: &str) -> String {
    let show = |r: Result<Glob<'_>, wax::BuildError>| -> String {
        match r {
            Err(err) => format!("err[{}]", err.locations().map(|l| format!("{}+{}", l.span().0, l.span().1)).collect::<Vec<_>>().join(",")),
            Ok(g) => format!("ok[{}]", g.captures().map(|c| format!("{}+{}", c.span().0, c.span().1)).collect::<Vec<_>>().join(",")),
        }
    };
    let by_new = show(Glob::new(e));
    let by_str = show(Glob::from_str(e));
    let by_try = show(Glob::try_from(e));
    format!(
        " routes={}",
        if by_new == by_str && by_new == by_try { "same".to_string() } else { format!("DIFF<new:{}|from-str:{}|try-from:{}>", by_new, by_str, by_try) }
    )
}

fn partition(e: &str) -> String {
    match Glob::new(e) {
        Err(_) => "err".to_string(),
        Ok(g) => {
            // the two wrappers: the postfix or else the empty glob / the tree glob
            let (pe, ge) = g.clone().partition_or_empty();
            let (pt, gt) = g.clone().partition_or_tree();
            let wrappers = format!(
                " ore={}/{} ort={}/{}",
                hex(&pe.to_string_lossy()),
                hex(ge.verif_pattern()),
                hex(&pt.to_string_lossy()),
                hex(gt.verif_pattern())
            );
            // the same partition when the glob OWNS its expression (into_owned, FromStr)
            let brief = |x: (std::path::PathBuf, Option<Glob<'_>>)| -> String {
                let (p, q) = x;
                match q {
                    None => format!("{}|none", hex(&p.to_string_lossy())),
                    Some(q) => format!(
                        "{}|{}|{}|{}|{}",
                        hex(&p.to_string_lossy()),
                        hex(&q.to_string()),
                        q.verif_tokens(),
                        hex(q.verif_pattern()),
                        q.captures().map(|c| format!("{}:{}+{}", c.index(), c.span().0, c.span().1)).collect::<Vec<_>>().join(",")
                    ),
                }
            };
            let borrowed = brief(g.clone().partition());
            let routes: Vec<(&str, String)> = vec![
                ("into-owned", q(|| brief(g.clone().into_owned().partition()), |x| x)),
                ("from-str", q(|| Glob::from_str(e).map(|o| brief(o.partition())).unwrap_or_else(|_| "err".into()), |x| x)),
            ];
            let differing: Vec<String> = routes.iter().filter(|(_, d)| *d != borrowed).map(|(n, d)| format!("{}:{}", n, d)).collect();
            let wrappers = format!("{} owned={}", wrappers, if differing.is_empty() { "same".to_string() } else { format!("DIFF<{}>", differing.join(";")) });
            let (pre, post) = g.partition();
            let prefix = hex(&pre.to_string_lossy());
            match post {
                None => format!("prefix={} post=none{}", prefix, wrappers),
                Some(p) => {
                    let caps: Vec<String> = p
                        .captures()
                        .map(|c| format!("{}:{}+{}", c.index(), c.span().0, c.span().1))
                        .collect();
                    let shown = p.to_string();
                    let rebuilt = match Glob::new(&shown) {
                        Ok(r) => format!(
                            "{}|{}",
                            hex(r.verif_pattern()),
                            r.captures()
                                .map(|c| format!("{}:{}+{}", c.index(), c.span().0, c.span().1))
                                .collect::<Vec<_>>()
                                .join(",")
                        ),
                        Err(_) => "err".into(),
                    };
                    let (pre2, post2) = p.clone().partition();
                    format!(
                        "prefix={} post={} tokens={} | pattern={} root={} caps=[{}] re=({},{}) rebuilt={}",
                        prefix,
                        hex(&shown),
                        p.verif_tokens(),
                        hex(p.verif_pattern()),
                        when(p.has_root()),
                        caps.join(","),
                        hex(&pre2.to_string_lossy()),
                        post2.map(|x| hex(&x.to_string())).unwrap_or_else(|| "none".into()),
                        rebuilt,
                    ) + &wrappers
                },
            }
        },
    }
}

/// C19: every conversion route, summarised and matched against the given paths
fn conversions(e: &str, paths: &[String]) -> String {
    let g = match Glob::new(e) {
        Ok(g) => g,
        Err(_) => return "err".into(),
    };
    let n = g.captures().count();
    let describe = |g: &Glob<'_>| -> String {
        let ms: Vec<String> = paths.iter().map(|p| matched_line(g, n, p)).collect();
        format!("{} || {}", glob_summary(g), ms.join(" ; "))
    };
    let base = describe(&g);
    let mut out = vec![format!("display={}", hex(&g.to_string()))];
    // owned matched text returns the same captures as the borrowed matched text it was made from
    let bad_owned: Vec<String> = paths
        .iter()
        .filter(|p| matched_line(&g, n, p).contains("owned=diff"))
        .map(|p| hex(p))
        .collect();
    out.push(format!(
        "owned-vs-borrowed={}",
        if bad_owned.is_empty() { "same".to_string() } else { format!("DIFF<{}>", bad_owned[0]) }
    ));
    let mut routes: Vec<(&str, String)> = vec![];
    let shown = g.to_string();
    routes.push(("display-new", Glob::new(&shown).map(|x| describe(&x)).unwrap_or_else(|e| error_line(&e))));
    routes.push(("clone", describe(&g.clone())));
    routes.push(("into-owned", describe(&g.clone().into_owned())));
    routes.push(("from-str", Glob::from_str(e).map(|x| describe(&x)).unwrap_or_else(|e| error_line(&e))));
    routes.push(("try-from", Glob::try_from(e).map(|x| describe(&x)).unwrap_or_else(|e| error_line(&e))));
    for (name, d) in routes {
        // spans are relative to the text that was built; every route here builds the same text
        out.push(format!("{}={}", name, if d == base { "same".to_string() } else { format!("DIFF<{}>", d) }));
    }
    // combinator routes: text, compiled, nested
    let any_desc = |a: &Any<'_>| -> String {
        let ms: Vec<String> = paths.iter().map(|p| matched_line(a, 0, p)).collect();
        format!("{} || {}", any_summary(a), ms.join(" ; "))
    };
    let a_text = wax::any([e]).map(|a| any_desc(&a)).unwrap_or_else(|e| error_line(&e));
    let a_comp = wax::any([g.clone()]).map(|a| any_desc(&a)).unwrap_or_else(|e| error_line(&e));
    let a_nest = wax::any([e])
        .and_then(|inner| wax::any([inner]))
        .map(|a| {
            let ms: Vec<String> = paths.iter().map(|p| matched_line(&a, 0, p)).collect();
            format!("{}", ms.join(" ; "))
        })
        .unwrap_or_else(|e| error_line(&e));
    // a combinator exposes ONE capture, the group of its alternatives: capture 1 is the complete text and nothing lies beyond it
    let caps_of = |a: &Any<'_>, p: &str| -> Option<String> {
        let c = CandidatePath::from(p);
        let m = a.matched(&c)?;
        let want = |i: usize| if i <= 1 { Some(p.to_string()) } else { None };
        let owned = m.to_owned();
        let bad: Vec<String> = (0..=n + 3)
            .filter(|i| m.get(*i).map(String::from) != want(*i) || owned.get(*i).map(String::from) != want(*i))
            .map(|i| format!("{}:{}", i, m.get(i).map(|s| hex(s)).unwrap_or_else(|| "n".into())))
            .collect();
        if bad.is_empty() { None } else { Some(format!("{}@{}", bad.join(","), hex(p))) }
    };
    let mut cap_bad: Vec<String> = vec![];
    if let Ok(a) = wax::any([e]) { cap_bad.extend(paths.iter().filter_map(|p| caps_of(&a, p)).map(|x| format!("text:{}", x))); }
    if let Ok(a) = wax::any([g.clone()]) { cap_bad.extend(paths.iter().filter_map(|p| caps_of(&a, p)).map(|x| format!("compiled:{}", x))); }
    if let Ok(a) = wax::any([g.clone().into_owned()]) { cap_bad.extend(paths.iter().filter_map(|p| caps_of(&a, p)).map(|x| format!("owned:{}", x))); }
    if let Ok(a) = wax::any([e, e]) { cap_bad.extend(paths.iter().filter_map(|p| caps_of(&a, p)).map(|x| format!("twice:{}", x))); }
    if let Ok(a) = wax::any([e]).and_then(|i| wax::any([i])) { cap_bad.extend(paths.iter().filter_map(|p| caps_of(&a, p)).map(|x| format!("nested:{}", x))); }
    out.push(format!("any-caps={}", if cap_bad.is_empty() { "one".to_string() } else { format!("DIFF<{}>", cap_bad[0]) }));
    out.push(format!("any-compiled={}", if a_comp == a_text { "same".to_string() } else { format!("DIFF<{}>", a_comp) }));
    // a nested combinator wraps the tree once more; only behaviour is compared
    let a_text_ms = a_text.split(" || ").nth(1).unwrap_or("").to_string();
    out.push(format!("any-nested={}", if a_nest == a_text_ms { "same".to_string() } else { format!("DIFF<{}>", a_nest) }));
    // the combinator and the glob accept the same paths
    let g_is: Vec<String> = paths.iter().map(|p| u8::from(g.is_match(CandidatePath::from(p.as_str()))).to_string()).collect();
    let a_is: Vec<String> = match wax::any([e]) {
        Ok(a) => paths.iter().map(|p| u8::from(a.is_match(CandidatePath::from(p.as_str()))).to_string()).collect(),
        Err(_) => vec!["err".into()],
    };
    out.push(format!("any-vs-glob={}", if g_is == a_is { "same".to_string() } else { format!("DIFF<{}|{}>", g_is.join(""), a_is.join("")) }));
    out.join(" ")
}

/// C05: outcome class of every public operation
fn totality(e: &str, paths: &[String]) -> String {
    let mut out = vec![];
    let r = catch_unwind(|| Glob::new(e).map(|_| ()).map_err(|err| error_line(&err)));
    match r {
        Err(p) => return format!("new=panic:{}", panic_site(&p)),
        Ok(Err(line)) => return format!("new={}", line.replace(' ', "_")),
        Ok(Ok(())) => out.push("new=ok".to_string()),
    }
    let g = Glob::new(e).unwrap();
    let n = g.captures().count();
    let mut op = |name: &str, f: &mut dyn FnMut()| {
        let r = catch_unwind(AssertUnwindSafe(|| f()));
        out.push(format!("{}={}", name, match r { Ok(()) => "ok".to_string(), Err(p) => format!("panic:{}", panic_site(&p)) }));
    };
    op("depth", &mut || { let _ = g.depth(); });
    op("text", &mut || { let _ = g.text(); });
    op("root", &mut || { let _ = g.has_root(); });
    op("exh", &mut || { let _ = g.is_exhaustive(); });
    op("sem", &mut || { let _ = g.has_semantic_literals(); });
    op("captures", &mut || { let _ = g.captures().count(); });
    op("display", &mut || { let _ = g.to_string(); });
    op("partition", &mut || { let _ = g.clone().partition(); });
    op("partition-or-empty", &mut || { let _ = g.clone().partition_or_empty(); });
    op("partition-or-tree", &mut || { let _ = g.clone().partition_or_tree(); });
    op("into-owned", &mut || { let _ = g.clone().into_owned(); });
    op("owned-partition", &mut || { let _ = g.clone().into_owned().partition(); });
    op("owned-queries", &mut || { let o = g.clone().into_owned(); let _ = (o.depth(), o.text(), o.has_root(), o.is_exhaustive(), o.to_string()); });
    op("partition-captures", &mut || { if let (_, Some(p)) = g.clone().partition() { let _ = p.captures().count(); let _ = p.to_string(); let _ = p.partition(); } });
    op("any", &mut || {
        if let Ok(a) = wax::any([e, e]) {
            let _ = (a.depth(), a.text(), a.has_root(), a.is_exhaustive());
        }
    });
    op("any-empty", &mut || {
        // a combinator of no patterns, alone and inside other combinators
        let none = wax::any(Vec::<&str>::new());
        if let Ok(a) = &none {
            let _ = (a.is_match(""), a.depth(), a.text(), a.has_root(), a.is_exhaustive());
        }
        let _ = wax::any([wax::any(Vec::<&str>::new())]).map(|a| (a.is_match("a"), a.depth(), a.is_exhaustive()));
        let _ = wax::any([wax::any(Vec::<&str>::new()), wax::any([e])]).map(|a| (a.is_match("a"), a.depth(), a.text(), a.has_root(), a.is_exhaustive()));
    });
    op("any-compiled", &mut || {
        if let Ok(a) = wax::any([g.clone()]) {
            let _ = (a.depth(), a.text(), a.has_root(), a.is_exhaustive());
        }
    });
    op("not", &mut || {
        use wax::walk::{FileIterator, PathExt};
        let _ = std::path::Path::new(".").walk().not(e);
    });
    op("walker", &mut || { let _ = g.verif_walk_programs("a/b"); });
    op("match", &mut || {
        for p in paths {
            let c = CandidatePath::from(p.as_str());
            let _ = g.is_match(c.clone());
            if let Some(m) = g.matched(&c) {
                for i in 0..=n + 1 {
                    let _ = m.get(i);
                }
                let _ = m.into_owned();
            }
        }
    });
    op("matched-owned", &mut || {
        // the OWNED forms of matched text, asked for every index incl. several beyond the last capture, and the
        // combinator's matched text likewise
        for p in paths {
            let c = CandidatePath::from(p.as_str());
            if let Some(m) = g.matched(&c) {
                let a = m.to_owned();
                let b = m.into_owned();
                for i in 0..=n + 3 {
                    let _ = (a.get(i), b.get(i));
                }
                let _ = (a.complete().len(), b.complete().len(), a.to_candidate_path(), b.to_owned().get(n + 7));
            }
            if let Ok(any) = wax::any([e, e]) {
                if let Some(m) = any.matched(&c) {
                    let o = m.into_owned();
                    for i in 0..=n + 3 {
                        let _ = o.get(i);
                    }
                }
            }
        }
    });
    out.join(" ")
}

/// C11: casing hypothesis H over all scalars: if regex-syntax's simple case folding relates c to
/// some d != c then `(?i)c` must report variant text
fn casing_sweep(lo: u32, hi: u32) -> String {
    use regex_syntax::hir::{ClassUnicode, ClassUnicodeRange};
    let mut folded = 0usize;
    let mut bad = vec![];
    let mut checked = 0usize;
    for cp in lo..hi {
        let c = match char::from_u32(cp) {
            Some(c) => c,
            None => continue,
        };
        checked += 1;
        let mut cls = ClassUnicode::new([ClassUnicodeRange::new(c, c)]);
        cls.case_fold_simple();
        let partners: usize = cls.iter().map(|r| r.end() as usize - r.start() as usize + 1).sum();
        if partners > 1 {
            folded += 1;
            // build `(?i)c` (escaped) and ask for its text
            let e = format!("(?i){}", wax::escape(&c.to_string()));
            match Glob::new(&e) {
                Ok(g) => {
                    if g.text().is_invariant() {
                        bad.push(format!("{:x}", cp));
                    }
                },
                Err(_) => {},
            }
        }
    }
    format!("checked={} folded={} bad=[{}]", checked, folded, bad.join(","))
}

fn escape_cmd(s: &str) -> String {
    let esc = wax::escape(s).to_string();
    let meta: String = s
        .chars()
        .map(|c| match (wax::is_meta_character(c), wax::is_contextual_meta_character(c)) {
            (true, true) => 'B',
            (true, false) => 'M',
            (false, true) => 'C',
            (false, false) => '-',
        })
        .collect();
    format!("escaped={} meta={}", hex(&esc), if meta.is_empty() { "-".into() } else { meta })
}

fn main() {
    let stdin = std::io::stdin();
    let stdout = std::io::stdout();
    let mut out = stdout.lock();
    std::panic::set_hook(Box::new(|info| {
        // a panic is identified by its message (stable under edits that merely move lines)
        let message = if let Some(s) = info.payload().downcast_ref::<&str>() {
            s.to_string()
        }
        else if let Some(s) = info.payload().downcast_ref::<String>() {
            s.clone()
        }
        else {
            "?".to_string()
        };
        let slug: String = message
            .chars()
            .take(56)
            .map(|c| if c.is_ascii_alphanumeric() { c.to_ascii_lowercase() } else { '-' })
            .collect();
        LAST_PANIC.with(|p| *p.borrow_mut() = slug);
    }));
    // HISTORY of the thread: before the first request this thread has seen a build that fails in the parser, one that fails in
    // the rule checker, one that fails in the regex compiler (oversized program), a panic caught inside the crate's code paths
    // (a known one, if the tree still has it), a successful build, a match and a short walk. Whatever the crate remembers per
    // thread or per process (a scratch buffer, a cache, a lazily initialised table) has been used and left behind by a failure
    // when the requests are answered; the model has no such state, so a leftover shows as a disagreement
    // (the oversized build costs about 50 ms: it is spent on batches, not on the single confirmation requests)
    let lines: Vec<String> = stdin.lock().lines().map(|l| l.unwrap()).collect();
    if std::env::var("WAXH_FRESH").is_err() && (lines.len() >= 8 || std::env::var("WAXH_HISTORY").is_ok()) {
        let _ = catch_unwind(|| {
            let _ = Glob::new("{");
            let _ = Glob::new("a//b");
            let _ = Glob::new("<a*:1000000>");
            let _ = Glob::new("<a:0,2><b:1,>").map(|g| g.depth());
            let _ = Glob::new("src/**/*.rs").map(|g| {
                let _ = g.is_match("src/a/b.rs");
                let _ = g.clone().partition();
                let _ = g.walk(".").take(8).count();
            });
            let _ = wax::escape("a*b").len();
        });
    }
    for line in lines {
        let mut it = line.split(' ');
        let cmd = it.next().unwrap_or("");
        let args: Vec<&str> = it.collect();
        let arg = |i: usize| -> String { unhex(args.get(i).copied().unwrap_or("-")) };
        let res = catch_unwind(AssertUnwindSafe(|| match cmd {
            "B" => build(&arg(0)),
            "XR" => {
                // C09 (and C12): the verdicts of every way of obtaining the same pattern, each with the program it runs
                let e = arg(0);
                let one = |name: &str, exh: String, root: String, pat: &str| format!("{}={}:{}:{}", name, exh, root, hex(pat));
                let qe = |f: &dyn Fn() -> When| q(|| f(), |w| when(w).to_string());
                // depth and text of the same value, appended (`:depth:text`) by `more`
                fn more<'t, P: Program<'t>>(p: &P) -> String {
                    let all = queries(p);
                    let get = |k: &str| all.split(' ').find(|x| x.starts_with(k)).map(|x| x[k.len()..].to_string()).unwrap_or_default();
                    format!(":{}:{}", get("depth="), get("text="))
                }
                match Glob::new(&e) {
                    Err(_) => "err".to_string(),
                    Ok(g) => {
                        let mut out = vec![];
                        let o = g.clone().into_owned();
                        out.push(one("into-owned", qe(&|| o.is_exhaustive()), qe(&|| o.has_root()), o.verif_pattern()) + &more(&o));
                        if let Ok(p) = Glob::from_str(&e) {
                            out.push(one("from-str", qe(&|| p.is_exhaustive()), qe(&|| p.has_root()), p.verif_pattern()) + &more(&p));
                        }
                        if let Ok(a) = wax::any([e.as_str()]) {
                            out.push(one("any-text", qe(&|| a.is_exhaustive()), qe(&|| a.has_root()), a.verif_pattern()) + &more(&a));
                        }
                        if let Ok(a) = wax::any([g.clone()]) {
                            out.push(one("any-compiled", qe(&|| a.is_exhaustive()), qe(&|| a.has_root()), a.verif_pattern()) + &more(&a));
                        }
                        if let Ok(a) = wax::any([o]) {
                            out.push(one("any-owned", qe(&|| a.is_exhaustive()), qe(&|| a.has_root()), a.verif_pattern()) + &more(&a));
                        }
                        out.join(" ")
                    },
                }
            },
            "XH" => {
                // history independence: a value that has ANSWERED its queries and is then partitioned, re-owned, cloned or
                // combined behaves like one that was never asked (`<route>=<summary>`, `queried-<route>=same|DIFF<summary>`)
                let e = arg(0);
                fn summary<'t, P: Program<'t>>(p: &P, pat: &str) -> String {
                    format!("{}|{}", queries(p).replace(' ', "|"), hex(pat))
                }
                let ask_all = |g: &Glob<'_>| {
                    let _ = q(|| g.depth(), |_| String::new());
                    let _ = q(|| g.text(), |_| String::new());
                    let _ = q(|| g.is_exhaustive(), |_| String::new());
                    let _ = q(|| g.has_root(), |_| String::new());
                    let _ = g.captures().count();
                    let _ = g.is_match(CandidatePath::from("a/b"));
                };
                match (Glob::new(&e), Glob::new(&e)) {
                    (Ok(fresh), Ok(asked)) => {
                        ask_all(&asked);
                        let mut out = vec![];
                        let mut both = |name: &str, a: String, b: String| {
                            out.push(format!("{}={}", name, a));
                            out.push(format!("queried-{}={}", name, if a == b { "same".to_string() } else { format!("DIFF<{}>", b) }));
                        };
                        let post = |g: Glob<'_>| match g.partition().1 {
                            Some(p) => summary(&p, p.verif_pattern()),
                            None => "none".to_string(),
                        };
                        both("partition", q(|| post(fresh.clone()), |x| x), q(|| post(asked.clone()), |x| x));
                        let owned = |g: Glob<'_>| { let o = g.into_owned(); summary(&o, o.verif_pattern()) };
                        both("into-owned", q(|| owned(fresh.clone()), |x| x), q(|| owned(asked.clone()), |x| x));
                        let any1 = |g: Glob<'_>| match wax::any([g]) { Ok(a) => summary(&a, a.verif_pattern()), Err(_) => "err".to_string() };
                        both("any", q(|| any1(fresh.clone()), |x| x), q(|| any1(asked.clone()), |x| x));
                        let owned_post = |g: Glob<'_>| post(g.into_owned());
                        both("owned-partition", q(|| owned_post(fresh.clone()), |x| x), q(|| owned_post(asked.clone()), |x| x));
                        // the postfix asked, then partitioned again / re-owned
                        let twice = |g: Glob<'_>, ask: bool| match g.partition().1 {
                            Some(p) => { if ask { ask_all(&p); } let o = p.into_owned(); summary(&o, o.verif_pattern()) },
                            None => "none".to_string(),
                        };
                        both("postfix-owned", q(|| twice(fresh.clone(), false), |x| x), q(|| twice(asked.clone(), true), |x| x));
                        // SHARING: four threads ask one shared value at once; each answer is the answer of a value asked alone
                        let alone = summary(&fresh, fresh.verif_pattern());
                        let shared = std::sync::Arc::new(Glob::new(&e).unwrap().into_owned());
                        let answers: Vec<String> = (0..4)
                            .map(|_| {
                                let g = shared.clone();
                                std::thread::spawn(move || { let _ = g.is_match(CandidatePath::from("a/b")); summary(&*g, g.verif_pattern()) })
                            })
                            .collect::<Vec<_>>()
                            .into_iter()
                            .map(|t| t.join().unwrap_or_else(|_| "panic".to_string()))
                            .collect();
                        out.push(format!("shared={}", match answers.iter().find(|a| **a != alone) { None => "same".to_string(), Some(a) => format!("DIFF<{}>", a) }));
                        out.join(" ")
                    },
                    _ => "err".to_string(),
                }
            },
            "A" | "AC" | "AN" | "AO" => {
                let es: Vec<String> = args.iter().skip(1).map(|x| unhex(x)).collect();
                let r = match cmd {
                    "A" => wax::any(es.iter().map(|x| x.as_str())),
                    "AC" => {
                        let gs: Result<Vec<Glob<'_>>, _> = es.iter().map(|x| Glob::new(x)).collect();
                        match gs {
                            Ok(gs) => wax::any(gs),
                            Err(e) => Err(e),
                        }
                    },
                    "AO" => {
                        // compiled globs that OWN their expression: into_owned for the first, FromStr for the others
                        let gs: Result<Vec<Glob<'static>>, _> = es
                            .iter()
                            .enumerate()
                            .map(|(i, x)| if i == 0 { Glob::new(x).map(|g| g.into_owned()) } else { Glob::from_str(x) })
                            .collect();
                        match gs {
                            Ok(gs) => wax::any(gs),
                            Err(e) => Err(e),
                        }
                    },
                    _ => {
                        // nested: any([any([e1]), any([e2, ..])])
                        let (a, b) = es.split_at(1.min(es.len()));
                        match (wax::any(a.iter().map(|x| x.as_str())), wax::any(b.iter().map(|x| x.as_str()))) {
                            (Ok(x), Ok(y)) => wax::any([x, y]),
                            (Err(e), _) | (_, Err(e)) => Err(e),
                        }
                    },
                };
                match r {
                    Ok(a) => any_summary(&a),
                    Err(e) => error_line(&e),
                }
            },
            "M" => match Glob::new(&arg(0)) {
                Err(_) => "err".to_string(),
                Ok(g) => {
                    let n = g.captures().count();
                    matched_line(&g, n, &arg(1))
                },
            },
            "K" => {
                // the constant constructors and `any` over build RESULTS (Pattern for Result<T, BuildError>)
                let brief = |g: &Glob<'_>| format!("{} | {} | {} empty={} shown={}", g.verif_tokens(), hex(g.verif_pattern()), queries(g), u8::from(g.is_empty()), hex(&g.to_string()));
                let e = brief(&Glob::empty()) == brief(&Glob::new("").unwrap());
                let t = brief(&Glob::tree()) == brief(&Glob::new("**").unwrap());
                let es: Vec<String> = args.iter().map(|x| unhex(x)).collect();
                // when several members are invalid the two routes may report different ones first (a text member is parsed and
                // checked, a result member has been compiled too): any error is the same outcome here
                let by_text = wax::any(es.iter().map(|x| x.as_str())).map(|a| any_summary(&a)).unwrap_or_else(|_| "err".to_string());
                let by_results = wax::any(es.iter().map(|x| Glob::new(x.as_str()))).map(|a| any_summary(&a)).unwrap_or_else(|_| "err".to_string());
                format!(
                    "empty={} tree={} any-results={}",
                    if e { "same" } else { "DIFF" },
                    if t { "same" } else { "DIFF" },
                    if by_text == by_results { "same".to_string() } else { format!("DIFF<{}|{}>", by_text, by_results) }
                )
            },
            "CP" => match Glob::new(&arg(0)) {
                // a candidate path given as &str, &Path, &OsStr, owned; and raw bytes that are not UTF-8 (lossy)
                Err(_) => "err".to_string(),
                Ok(g) => {
                    use std::os::unix::ffi::OsStrExt;
                    let p = arg(1);
                    let n = g.captures().count();
                    let show = |c: CandidatePath<'_>| -> String {
                        let is = g.is_match(c.clone());
                        let m = g.matched(&c).map(|m| (0..=n).map(|i| m.get(i).map(hex).unwrap_or_else(|| "n".into())).collect::<Vec<_>>().join(","));
                        format!("{}:{}:{}", u8::from(is), hex(c.as_ref()), m.unwrap_or_else(|| "-".into()))
                    };
                    let by_str = show(CandidatePath::from(p.as_str()));
                    let by_path = show(CandidatePath::from(std::path::Path::new(&p)));
                    let by_os = show(CandidatePath::from(std::ffi::OsStr::new(&p)));
                    let by_owned = show(CandidatePath::from(p.as_str()).into_owned());
                    // the same text with a byte that is not UTF-8 spliced into the middle: read as U+FFFD
                    let mut raw = p.as_bytes().to_vec();
                    let mid = (0..=raw.len() / 2).rev().find(|i| p.is_char_boundary(*i)).unwrap_or(0);
                    raw.insert(mid, 0xff);
                    let lossy = String::from_utf8_lossy(&raw).to_string();
                    let by_raw = show(CandidatePath::from(std::ffi::OsStr::from_bytes(&raw)));
                    let by_lossy = show(CandidatePath::from(lossy.as_str()));
                    format!(
                        "routes={} raw={}",
                        if by_str == by_path && by_str == by_os && by_str == by_owned { "same".to_string() } else { format!("DIFF<{}|{}|{}|{}>", by_str, by_path, by_os, by_owned) },
                        if by_raw == by_lossy { "same".to_string() } else { format!("DIFF<{}|{}>", by_raw, by_lossy) }
                    )
                },
            },
            "MO" => match Glob::new(&arg(0)) {
                Err(_) => "err".to_string(),
                Ok(g) => matched_offsets(&g, &arg(1)),
            },
            "MAC" | "MAO" | "MAN" => {
                // match through a combinator of compiled / owned / nested members (as AC, AO, AN build them)
                let es: Vec<String> = args.iter().skip(2).map(|x| unhex(x)).collect();
                let r = match cmd {
                    "MAC" => es.iter().map(|x| Glob::new(x)).collect::<Result<Vec<Glob<'_>>, _>>().and_then(wax::any),
                    "MAO" => es
                        .iter()
                        .enumerate()
                        .map(|(i, x)| if i == 0 { Glob::new(x).map(|g| g.into_owned()) } else { Glob::from_str(x) })
                        .collect::<Result<Vec<Glob<'static>>, _>>()
                        .and_then(wax::any),
                    _ => {
                        let (a, b) = es.split_at(1.min(es.len()));
                        match (wax::any(a.iter().map(|x| x.as_str())), wax::any(b.iter().map(|x| x.as_str()))) {
                            (Ok(x), Ok(y)) => wax::any([x, y]),
                            (Err(e), _) | (_, Err(e)) => Err(e),
                        }
                    },
                };
                match r {
                    Err(_) => "err".to_string(),
                    Ok(a) => matched_line(&a, 0, &arg(0)),
                }
            },
            "MA" => {
                // MA <path> <k> <e1> .. <ek>
                let es: Vec<String> = args.iter().skip(2).map(|x| unhex(x)).collect();
                match wax::any(es.iter().map(|x| x.as_str())) {
                    Err(_) => "err".to_string(),
                    Ok(a) => matched_line(&a, 0, &arg(0)),
                }
            },
            "P" => partition(&arg(0)),
            "S" => spans(&arg(0)),
            "V" => {
                let paths: Vec<String> = args.iter().skip(1).map(|x| unhex(x)).collect();
                conversions(&arg(0), &paths)
            },
            "T" => {
                let paths: Vec<String> = args.iter().skip(1).map(|x| unhex(x)).collect();
                totality(&arg(0), &paths)
            },
            "E" => escape_cmd(&arg(0)),
            "CF" => casing_sweep(args[0].parse().unwrap(), args[1].parse().unwrap()),
            "RX" => {
                // raw regex: is_match and captures
                match regex::Regex::new(&arg(0)) {
                    Err(_) => "rxerr".to_string(),
                    Ok(r) => {
                        let hay = arg(1);
                        match r.captures(&hay) {
                            None => "nomatch".to_string(),
                            Some(c) => {
                                let v: Vec<String> = (0..c.len())
                                    .map(|i| c.get(i).map(|m| format!("s:{}", hex(m.as_str()))).unwrap_or_else(|| "n".into()))
                                    .collect();
                                format!("match {}", v.join(" "))
                            },
                        }
                    },
                }
            },
            "L" | "LC" => {
                let (a, b) = (arg(0), arg(1));
                match (lang::build(&a), lang::build(&b)) {
                    (Ok(da), Ok(db)) => match lang::diff(&da, &db, cmd == "LC") {
                        None => "EQUAL".into(),
                        Some((w, in_a)) => format!(
                            "DIFF {} {}",
                            hex(&String::from_utf8_lossy(&w)),
                            if in_a { "first" } else { "second" }
                        ),
                    },
                    (Err(e), _) | (_, Err(e)) => format!("builderr {}", e),
                }
            },
            "X" => {
                let a = arg(0);
                match lang::build(&a) {
                    Ok(d) => match lang::desc_open(&d, &a) {
                        None => "closed".into(),
                        Some((w, split)) => format!("open {} {}", hex(&String::from_utf8_lossy(&w)), split),
                    },
                    Err(e) => format!("builderr {}", e),
                }
            },
            "N" => {
                let a = arg(0);
                let rooted = args.get(1) == Some(&"1");
                match lang::build(&a) {
                    Ok(d) => format!("counts {:?}", lang::comp_counts(&d, &a, rooted, 6)).replace(", ", ","),
                    Err(e) => format!("builderr {}", e),
                }
            },
            "RT" => {
                let a = arg(0);
                match lang::build(&a) {
                    Ok(d) => match lang::unrooted_word(&d) {
                        None => "allrooted".into(),
                        Some(w) => format!("unrooted {}", hex(&String::from_utf8_lossy(&w))),
                    },
                    Err(e) => format!("builderr {}", e),
                }
            },
            "WD" => {
                let a = arg(0);
                let limit = args.get(1).and_then(|x| x.parse().ok()).unwrap_or(8);
                match lang::build(&a) {
                    Ok(d) => {
                        let ws: Vec<String> = lang::words(&d, &a, limit, 12)
                            .into_iter()
                            .filter_map(|w| String::from_utf8(w).ok())
                            .map(|w| hex(&w))
                            .collect();
                        format!("words {}", ws.join(" "))
                    },
                    Err(e) => format!("builderr {}", e),
                }
            },
            "W" => walk::walk_cmd(&args),
            "WP" => walk::walk_programs_cmd(&args),
            "WR" => walk::walk_real_cmd(&args),
            "NP" => walk::negation_programs_cmd(&args),
            // NV <op> <lhs> <rhs>: one operation of the variance algebra (crate hook), values in canonical text form
            "NV" => match args.as_slice() {
                [op, l, r] => wax::verif_variance_op(op, l, r).unwrap_or_else(|| "bad-args".into()),
                _ => "bad-args".into(),
            },
            _ => "bad-op".into(),
        }))
        .unwrap_or_else(|p| format!("panic:{}", panic_site(&p)));
        writeln!(out, "{}", res).unwrap();
        out.flush().unwrap();
    }
}
