//! Real walks over materialised directory trees: the tree is created under a fresh temporary
//! directory, *recorded* with an independent `read_dir` recursion (children in the order the OS
//! returns them), walked with the real crate, and removed.
use std::cell::RefCell;
use std::fs;
use std::path::{Path, PathBuf};
use std::rc::Rc;
use std::sync::atomic::{AtomicUsize, Ordering};

use wax::walk::{
    DepthBehavior, Entry, EntryResidue, FileIterator, GlobEntry, LinkBehavior, PathExt, TreeEntry,
    WalkBehavior, WalkError,
};
use wax::Glob;

use crate::{hex, unhex};

static COUNTER: AtomicUsize = AtomicUsize::new(0);

fn hexp(p: &Path) -> String {
    hex(&p.to_string_lossy())
}

pub enum Layer {
    Not(Vec<String>),
    /// the same negation given as compiled values (`Glob`, or `Any` of `Glob`s)
    NotCompiled(Vec<String>),
    Filter(Vec<(String, bool)>),
}

pub trait Show: Entry {
    fn show(&self) -> String;
}

/// entries whose root segment joined with the relative segment is not the entry's path, compared as OS paths (not as the
/// lossy text the items are printed in)
static JOIN_FAILS: AtomicUsize = AtomicUsize::new(0);
static ROOT_NONE: AtomicUsize = AtomicUsize::new(0);

fn show_common(e: &dyn Entry) -> String {
    let (root, rel) = e.root_relative_paths();
    if root.join(rel) != e.path() {
        JOIN_FAILS.fetch_add(1, Ordering::SeqCst);
    }
    let ft = e.file_type();
    format!(
        "ok:{}:{}:{}:{}:{}",
        hexp(e.path()),
        hexp(root),
        hexp(rel),
        e.depth(),
        if ft.is_dir() { "d" } else if ft.is_symlink() { "l" } else { "f" },
    )
}

impl Show for TreeEntry {
    fn show(&self) -> String {
        show_common(self)
    }
}

impl Show for GlobEntry {
    fn show(&self) -> String {
        format!(
            "{}:{}:{}",
            show_common(self),
            hex(self.matched().complete()),
            hex(self.to_candidate_path().as_ref()),
        )
    }
}

type Logs = Rc<RefCell<Vec<Vec<String>>>>;

fn consume<I, T>(it: I, out: &mut Vec<String>)
where
    I: Iterator<Item = Result<T, WalkError>>,
    T: Show,
{
    for item in it {
        match item {
            Ok(e) => out.push(e.show()),
            Err(e) => {
                // an error for the ROOT of the walk that names no path at all (the empty path is a path: `Some("")`)
                if e.depth() == 0 && e.path().is_none() {
                    ROOT_NONE.fetch_add(1, Ordering::SeqCst);
                }
                out.push(format!(
                    "err:{}:{}",
                    e.path().map(hexp).unwrap_or_else(|| "-".into()),
                    e.depth()
                ))
            },
        }
    }
}

macro_rules! runner {
    ($name:ident, $next:ident) => {
        fn $name<I, T, R>(it: I, layers: &[Layer], logs: &Logs, out: &mut Vec<String>) -> Result<(), String>
        where
            T: 'static + Entry + Show,
            R: 'static + Entry + From<T>,
            I: FileIterator<Entry = T, Residue = R>,
        {
            match layers.split_first() {
                None => {
                    consume(it, out);
                    Ok(())
                },
                Some((Layer::Not(exprs), rest)) => {
                    let not = if exprs.len() == 1 {
                        it.not(exprs[0].as_str())
                    }
                    else {
                        match wax::any(exprs.iter().map(|x| x.as_str())) {
                            Ok(any) => it.not(any),
                            Err(_) => return Err("noterr".into()),
                        }
                    };
                    match not {
                        Ok(w) => $next(w, rest, logs, out),
                        Err(_) => Err("noterr".into()),
                    }
                },
                Some((Layer::NotCompiled(exprs), rest)) => {
                    // compiled values: borrowed and OWNED globs alternate (an owned glob is re-encoded from its owned tree)
                    let globs: Result<Vec<Glob<'_>>, _> = exprs
                        .iter()
                        .enumerate()
                        .map(|(i, x)| if i % 2 == 0 { Glob::new(x.as_str()).map(|g| g.into_owned()) } else { Glob::new(x.as_str()) })
                        .collect();
                    let globs = match globs {
                        Ok(globs) => globs,
                        Err(_) => return Err("noterr".into()),
                    };
                    let not = if globs.len() == 1 {
                        it.not(globs.into_iter().next().unwrap())
                    }
                    else {
                        match wax::any(globs) {
                            Ok(any) => it.not(any),
                            Err(_) => return Err("noterr".into()),
                        }
                    };
                    match not {
                        Ok(w) => $next(w, rest, logs, out),
                        Err(_) => Err("noterr".into()),
                    }
                },
                Some((Layer::Filter(rules), rest)) => {
                    let rules = rules.clone();
                    let index = {
                        let mut l = logs.borrow_mut();
                        l.push(vec![]);
                        l.len() - 1
                    };
                    let logs2 = logs.clone();
                    let w = it.filter_entry(move |e: &dyn Entry| {
                        logs2.borrow_mut()[index].push(format!(
                            "{}:{}",
                            hexp(e.path()),
                            u8::from(e.file_type().is_dir())
                        ));
                        let name = e
                            .path()
                            .file_name()
                            .map(|n| n.to_string_lossy().to_string())
                            .unwrap_or_default();
                        rules.iter().find(|(n, _)| *n == name).map(|(_, tree)| {
                            if *tree {
                                EntryResidue::Tree
                            }
                            else {
                                EntryResidue::File
                            }
                        })
                    });
                    $next(w, rest, logs, out)
                },
            }
        }
    };
}

fn run0<I, T, R>(it: I, layers: &[Layer], _logs: &Logs, out: &mut Vec<String>) -> Result<(), String>
where
    T: 'static + Entry + Show,
    R: 'static + Entry + From<T>,
    I: FileIterator<Entry = T, Residue = R>,
{
    if !layers.is_empty() {
        return Err("stack-too-deep".into());
    }
    consume(it, out);
    Ok(())
}
runner!(run1, run0);
runner!(run2, run1);
runner!(run3, run2);
runner!(run4, run3);

/// a fresh directory on a file system other than the one that holds `root`
fn xdev_dir(root: &Path, n: usize) -> Option<PathBuf> {
    use std::os::unix::fs::MetadataExt;
    let dev = fs::metadata(root).ok()?.dev();
    for cand in ["/dev/shm", "/run/shm", "/run", "/var/tmp", "/tmp"] {
        let c = Path::new(cand);
        if let Ok(md) = fs::metadata(c) {
            if md.dev() != dev {
                let d = c.join(format!("waxh-x-{}-{}", std::process::id(), n));
                if fs::create_dir_all(&d).is_ok() {
                    return Some(d);
                }
            }
        }
    }
    None
}

struct XdevGuard(Option<PathBuf>);

impl Drop for XdevGuard {
    fn drop(&mut self) {
        if let Some(p) = self.0.take() {
            let _ = fs::remove_dir_all(p);
        }
    }
}

/// record the real tree in pre-order, in the order the OS returns directory entries
fn record(dir: &Path, depth: usize, ancestors: &mut Vec<PathBuf>, out: &mut Vec<String>) {
    let rd = match fs::read_dir(dir) {
        Ok(rd) => rd,
        Err(_) => return,
    };
    for e in rd {
        let e = match e {
            Ok(e) => e,
            Err(_) => continue,
        };
        let ft = e.file_type().unwrap();
        let name = e.file_name().to_string_lossy().to_string();
        let p = e.path();
        if ft.is_dir() {
            if fs::read_dir(&p).is_ok() {
                out.push(format!("{}:d:{}", depth, hex(&name)));
                ancestors.push(fs::canonicalize(&p).unwrap_or(p.clone()));
                record(&p, depth + 1, ancestors, out);
                ancestors.pop();
            }
            else {
                out.push(format!("{}:u:{}", depth, hex(&name)));
            }
        }
        else if ft.is_symlink() {
            match fs::metadata(&p) {
                Err(_) => out.push(format!("{}:ld:{}", depth, hex(&name))), // dangling
                Ok(md) if md.is_dir() => {
                    let canon = fs::canonicalize(&p).unwrap_or(p.clone());
                    if ancestors.iter().any(|a| *a == canon) {
                        out.push(format!("{}:lc:{}", depth, hex(&name))); // re-enters an ancestor
                    }
                    else if fs::read_dir(&p).is_err() {
                        out.push(format!("{}:lu:{}", depth, hex(&name)));
                    }
                    else {
                        out.push(format!("{}:lt:{}", depth, hex(&name))); // link to a directory
                        ancestors.push(canon);
                        record(&p, depth + 1, ancestors, out);
                        ancestors.pop();
                    }
                },
                Ok(_) => out.push(format!("{}:lf:{}", depth, hex(&name))), // link to a file
            }
        }
        else {
            out.push(format!("{}:f:{}", depth, hex(&name)));
        }
    }
}

fn restore_permissions(dir: &Path) {
    use std::os::unix::fs::PermissionsExt;
    if let Ok(md) = fs::symlink_metadata(dir) {
        if md.is_dir() {
            let _ = fs::set_permissions(dir, fs::Permissions::from_mode(0o755));
            if let Ok(rd) = fs::read_dir(dir) {
                for e in rd.flatten() {
                    restore_permissions(&e.path());
                }
            }
        }
    }
}

pub fn parse_stack(s: &str) -> Vec<Layer> {
    if s == "-" {
        return vec![];
    }
    s.split(';')
        .map(|l| {
            let (k, rest) = l.split_once(':').unwrap();
            if k == "n" {
                Layer::Not(rest.split('+').map(unhex).collect())
            }
            else if k == "nc" {
                Layer::NotCompiled(rest.split('+').map(unhex).collect())
            }
            else {
                Layer::Filter(
                    rest.split(',')
                        .filter(|x| !x.is_empty() && *x != "-")
                        .map(|r| {
                            let (n, v) = r.split_once('=').unwrap();
                            (unhex(n), v == "T")
                        })
                        .collect(),
                )
            }
        })
        .collect()
}

/// `W <mode> <base> <expr> <link> <min> <max> <stack> <tree>`
pub fn walk_cmd(args: &[&str]) -> String {
    if args.len() < 8 {
        return "bad-args".into();
    }
    use std::os::unix::fs::PermissionsExt;
    let n = COUNTER.fetch_add(1, Ordering::SeqCst);
    let tmp = std::env::temp_dir().join(format!("waxh-{}-{}", std::process::id(), n));
    let _ = fs::remove_dir_all(&tmp);
    let root = tmp.join("r");
    fs::create_dir_all(&root).unwrap();
    let root_str = root.to_str().unwrap().to_string();
    let mode = args[0];
    let base = unhex(args[1]);
    let expr = unhex(args[2]).replace("@ROOT", &root_str);
    let link = if args[3] == "t" { LinkBehavior::ReadTarget } else { LinkBehavior::ReadFile };
    // the minimum field names the constructor: none `bounded`, x `from_depths_or_max`, m `from_min_or_unbounded`,
    // v `bounded_at_depth_variance` (with the depth of the glob)
    let (route, min_text) = match args[4].chars().next() {
        Some(c @ ('x' | 'm' | 'v')) => (c, &args[4][1..]),
        _ => ('b', args[4]),
    };
    let min = min_text.parse::<usize>().ok();
    let max = args[5].parse::<usize>().ok();
    let mut lower: Option<usize> = None;
    let layers = parse_stack(args[6]);
    let mut unreadable = vec![];
    // `x:<path>` items and `@XDEV` in link targets: a directory on ANOTHER file system than the tree (a mount point
    // reached through a link); a tree that asks for one where none is writable is answered `noxdev`
    let wants_xdev = args[7].split(',').any(|i| i.starts_with("x:") || unhex(i.rsplit(':').next().unwrap_or("")).contains("@XDEV"));
    let xdev = if wants_xdev { xdev_dir(&root, n) } else { None };
    if wants_xdev && xdev.is_none() {
        let _ = fs::remove_dir_all(&tmp);
        return "noxdev".into();
    }
    let xdev_str = xdev.as_ref().map(|p| p.to_str().unwrap().to_string()).unwrap_or_default();
    let _guard = XdevGuard(xdev.clone());
    for item in args[7].split(',') {
        if item.is_empty() || item == "-" {
            continue;
        }
        let mut it = item.split(':');
        let k = it.next().unwrap();
        if k == "b" {
            // a file whose path is given as BYTES: every character below U+0100 stands for that single byte, so that names
            // which are not UTF-8 can be written (`caf\u{e9}` is the Latin-1 spelling, four bytes)
            use std::os::unix::ffi::OsStrExt;
            let bytes: Vec<u8> = unhex(it.next().unwrap()).chars().map(|c| c as u32 as u8).collect();
            let p = root.join(std::ffi::OsStr::from_bytes(&bytes));
            fs::create_dir_all(p.parent().unwrap()).unwrap();
            fs::write(&p, "").unwrap();
            continue;
        }
        if k == "x" {
            let p = xdev.as_ref().unwrap().join(unhex(it.next().unwrap()));
            fs::create_dir_all(p.parent().unwrap()).unwrap();
            fs::write(&p, "").unwrap();
            continue;
        }
        let p = root.join(unhex(it.next().unwrap()));
        match k {
            "d" => fs::create_dir_all(&p).unwrap(),
            "u" => {
                fs::create_dir_all(&p).unwrap();
                unreadable.push(p);
            },
            "l" => {
                fs::create_dir_all(p.parent().unwrap()).unwrap();
                let target = unhex(it.next().unwrap()).replace("@ROOT", &root_str).replace("@XDEV", &xdev_str);
                let _ = std::os::unix::fs::symlink(target, &p);
            },
            _ => {
                fs::create_dir_all(p.parent().unwrap()).unwrap();
                fs::write(&p, "").unwrap();
            },
        }
    }
    for p in &unreadable {
        let _ = fs::set_permissions(p, fs::Permissions::from_mode(0o000));
    }
    let mut rec = vec![];
    let mut ancestors = vec![fs::canonicalize(&root).unwrap()];
    record(&root, 1, &mut ancestors, &mut rec);

    // base: "-" is the root itself; "~x" is x relative to the root after chdir; otherwise the
    // text is appended to the root after a separator ("/" alone gives a trailing separator)
    let cwd = std::env::current_dir().ok();
    let basep: PathBuf = if base.is_empty() {
        root.clone()
    }
    else if let Some(rel) = base.strip_prefix('~') {
        std::env::set_current_dir(&root).unwrap();
        PathBuf::from(rel)
    }
    else if base == "/" {
        PathBuf::from(format!("{}/", root_str))
    }
    else {
        PathBuf::from(format!("{}/{}", root_str, base))
    };
    let depth = match route {
        'x' => match (min, max) {
            (Some(p), Some(q)) => Some(wax::walk::DepthMinMax::from_depths_or_max(p, q)),
            _ => None,
        },
        'm' => min.map(wax::walk::DepthMin::from_min_or_unbounded),
        'v' => match Glob::new(&expr).ok().and_then(|g| std::panic::catch_unwind(std::panic::AssertUnwindSafe(|| wax::Program::depth(&g))).ok()) {
            Some(variance) => {
                lower = Some(match variance {
                    wax::query::Variance::Invariant(n) => n,
                    wax::query::Variance::Variant(bounds) => match bounds {
                        wax::query::Boundedness::Bounded(r) => match r.lower() {
                            wax::query::Boundedness::Bounded(n) => n.get(),
                            _ => 0,
                        },
                        _ => 0,
                    },
                });
                if min.is_none() && max.is_none() { None } else { DepthBehavior::bounded_at_depth_variance(min, max, variance) }
            },
            // the glob does not build (reported as such below) or its depth query panics
            None => if Glob::new(&expr).is_err() { Some(DepthBehavior::Unbounded) } else { None },
        },
        _ if min.is_none() && max.is_none() => Some(DepthBehavior::Unbounded),
        _ => DepthBehavior::bounded(min, max),
    };
    let result = (|| -> Result<(Vec<String>, Vec<Vec<String>>), String> {
        let depth = depth.ok_or_else(|| "depthnone".to_string())?;
        // the behaviour reaches the walk the way a caller would write it: the default through `walk()`, a single
        // non-default field through its own `Into<WalkBehavior>` conversion, both fields through the struct
        let default_depth = depth == DepthBehavior::Unbounded;
        let default_link = link == LinkBehavior::ReadFile;
        let all_default = default_depth && default_link;
        let behavior: WalkBehavior = if all_default {
            ().into()
        }
        else if default_depth {
            link.into()
        }
        else if default_link {
            depth.into()
        }
        else {
            WalkBehavior { depth, link }
        };
        let logs: Logs = Rc::new(RefCell::new(vec![]));
        let mut items = vec![];
        if mode == "o" {
            // a glob that owns its expression (FromStr): anchor and component programs come from the owned token tree
            let glob: Glob<'static> = expr.parse().map_err(|_| "globerr".to_string())?;
            if all_default {
                run4(glob.walk(basep.clone()), &layers, &logs, &mut items)?;
            }
            else {
                run4(glob.walk_with_behavior(basep.clone(), behavior), &layers, &logs, &mut items)?;
            }
        }
        else if mode == "g" {
            let glob = Glob::new(&expr).map_err(|_| "globerr".to_string())?;
            // HISTORY: the value has answered its queries, matched a path and been walked once before the walk that is
            // recorded (mode `o` walks a fresh value): a remembered answer or a consumed piece of state shows as a
            // disagreement with the model
            {
                use wax::Program;
                let _ = std::panic::catch_unwind(std::panic::AssertUnwindSafe(|| {
                    let _ = glob.depth();
                    let _ = glob.text();
                    let _ = glob.is_exhaustive();
                    let _ = glob.has_root();
                    let _ = glob.is_match("a/b");
                    let _ = glob.walk(basep.clone()).take(64).count();
                }));
            }
            if all_default {
                run4(glob.walk(basep.clone()), &layers, &logs, &mut items)?;
            }
            else {
                run4(glob.walk_with_behavior(basep.clone(), behavior), &layers, &logs, &mut items)?;
            }
        }
        else if all_default {
            run4(basep.as_path().walk(), &layers, &logs, &mut items)?;
        }
        else {
            run4(basep.as_path().walk_with_behavior(behavior), &layers, &logs, &mut items)?;
        }
        let logs = logs.borrow().clone();
        Ok((items, logs))
    })();
    if let Some(cwd) = cwd {
        let _ = std::env::set_current_dir(cwd);
    }
    restore_permissions(&root);
    let _ = fs::remove_dir_all(&tmp);
    let join = |v: &Vec<String>| if v.is_empty() { "-".to_string() } else { v.join(";") };
    let mut lower = lower.map(|n| format!(" lower={}", n)).unwrap_or_default();
    // entries whose segments do not join to their path AS OS PATHS (only mentioned when there are any)
    let jf = JOIN_FAILS.swap(0, Ordering::SeqCst);
    if jf > 0 {
        lower.push_str(&format!(" joinfail={}", jf));
    }
    let rn = ROOT_NONE.swap(0, Ordering::SeqCst);
    if rn > 0 {
        lower.push_str(&format!(" rootnone={}", rn));
    }
    match result {
        Err(e) => format!("{} root={} rec={}{}", e, hex(&root_str), join(&rec), lower),
        Ok((items, logs)) => format!(
            "root={} base={} rec={} items={} logs={}{}",
            hex(&root_str),
            hexp(&basep),
            join(&rec),
            join(&items),
            if logs.is_empty() { "-".to_string() } else { logs.iter().map(join).collect::<Vec<_>>().join("|") },
            lower,
        ),
    }
}

/// `WP <base> <expr>`: root, pivot and component programs of a glob walk (no file system access)
pub fn walk_programs_cmd(args: &[&str]) -> String {
    if args.len() < 2 {
        return "bad-args".into();
    }
    let base = unhex(args[0]);
    let expr = unhex(args[1]);
    match Glob::new(&expr) {
        Err(_) => "globerr".into(),
        Ok(glob) => {
            let (root, pivot, progs) = glob.verif_walk_programs(PathBuf::from(&base));
            // "the glob replaces the base directory, as with path joining": the walk starts at the base joined
            // with the prefix that `partition` (public API) reports
            let expected = Path::new(&base).join(glob.clone().partition().0);
            format!(
                "root={} pivot={} progs={} joined={}",
                hexp(&root),
                pivot,
                if progs.is_empty() { "-".to_string() } else { progs.iter().map(|p| hex(p)).collect::<Vec<_>>().join(";") },
                if expected == root { "same".to_string() } else { format!("DIFF<{}>", hexp(&expected)) }
            )
        },
    }
}

/// `WR <expr> <base> <max>`: walks the REAL file system with a rooted glob (maximum depth `max`) and compares with
/// the path walk of `/` to the same depth filtered by `is_match` on the whole path
pub fn walk_real_cmd(args: &[&str]) -> String {
    if args.len() < 3 {
        return "bad-args".into();
    }
    let expr = unhex(args[0]);
    let base = unhex(args[1]);
    let max: usize = args[2].parse().unwrap_or(1);
    let glob = match Glob::new(&expr) {
        Ok(g) => g,
        Err(_) => return "globerr".into(),
    };
    // rooted globs count the root directory as a component and report one more (a listed finding), so the glob walk
    // runs with max + 2 and must lie between the reference walks to max and to max + 2
    let walk_ref = |m: usize| -> Vec<String> {
        let mut v: Vec<String> = Path::new("/")
            .walk_with_behavior(DepthBehavior::bounded(None, m).unwrap())
            .filter_map(|e| e.ok())
            .map(|e| e.path().to_string_lossy().to_string())
            .filter(|p| wax::Program::is_match(&glob, p.as_str()))
            .collect();
        v.sort();
        v
    };
    let mut got: Vec<String> = glob
        .walk_with_behavior(PathBuf::from(&base), DepthBehavior::bounded(None, max + 2).unwrap())
        .filter_map(|e| e.ok())
        .map(|e| e.path().to_string_lossy().to_string())
        .collect();
    got.sort();
    let (lo, hi) = (walk_ref(max), walk_ref(max + 2));
    let missing: Vec<&String> = lo.iter().filter(|p| !got.contains(p)).collect();
    let extra: Vec<&String> = got.iter().filter(|p| !hi.contains(p)).collect();
    if missing.is_empty() && extra.is_empty() {
        format!("same {} {} {}", lo.len(), got.len(), hi.len())
    }
    else {
        format!(
            "DIFF got={} lo={} hi={} missing={} extra={}",
            got.len(),
            lo.len(),
            hi.len(),
            missing.first().map(|p| hex(p)).unwrap_or_else(|| "-".into()),
            extra.first().map(|p| hex(p)).unwrap_or_else(|| "-".into())
        )
    }
}

/// `NP <k> <e1> .. <ek>`: the programs a negation compiles to
pub fn negation_programs_cmd(args: &[&str]) -> String {
    let exprs: Vec<String> = args.iter().skip(1).map(|x| unhex(x)).collect();
    if exprs.is_empty() {
        return "bad-args".into();
    }
    let walk = Path::new(".").walk();
    let not = if exprs.len() == 1 {
        walk.not(exprs[0].as_str())
    }
    else {
        match wax::any(exprs.iter().map(|x| x.as_str())) {
            Ok(any) => walk.not(any),
            Err(_) => return "err".into(),
        }
    };
    match not {
        Err(_) => "err".into(),
        Ok(not) => {
            let (ex, nx) = not.verif_patterns();
            format!(
                "ex={} nx={}",
                ex.map(|p| hex(&p)).unwrap_or_else(|| "none".into()),
                nx.map(|p| hex(&p)).unwrap_or_else(|| "none".into())
            )
        },
    }
}
