//! Exact per-expression language decisions on the text of compiled programs (search aid, not
//! proof): dense DFAs built by regex-automata from the very pattern text the crate compiled, and
//! breadth-first products with shortest witnesses.
use regex_automata::dfa::{dense, Automaton, StartKind};
use regex_automata::util::primitives::StateID;
use regex_automata::{Anchored, Input};
use std::collections::{BTreeSet, HashMap, HashSet, VecDeque};

pub type D = dense::DFA<Vec<u32>>;

pub fn build(p: &str) -> Result<D, String> {
    dense::Builder::new()
        .configure(
            dense::Config::new()
                .start_kind(StartKind::Anchored)
                .dfa_size_limit(Some(48 << 20))
                .determinize_size_limit(Some(48 << 20)),
        )
        .build(p)
        .map_err(|e| e.to_string().replace(' ', "_"))
}

fn start(d: &D) -> StateID {
    d.start_state_forward(&Input::new("").anchored(Anchored::Yes)).unwrap()
}

fn accepts(d: &D, s: StateID) -> bool {
    d.is_match_state(d.next_eoi_state(s))
}

/// byte order that prefers printable witnesses
fn order() -> Vec<u8> {
    let mut v: Vec<u8> = b"ab/xyAB.cdz01".to_vec();
    for b in 0..=255u8 {
        if !v.contains(&b) {
            v.push(b);
        }
    }
    v
}

/// tracker of canonical paths: 0 empty, 1 just "/", 2 after a non-root separator, 3 in a component
fn canon_step(tr: u8, is_sep: bool) -> Option<u8> {
    match (tr, is_sep) {
        (0, true) => Some(1),
        (0, false) => Some(3),
        (1, true) => None,
        (1, false) => Some(3),
        (2, true) => None,
        (2, false) => Some(3),
        (3, true) => Some(2),
        (3, false) => Some(3),
        _ => None,
    }
}
fn canon_final(tr: u8) -> bool {
    tr == 0 || tr == 1 || tr == 3
}

/// shortest word in the symmetric difference, and whether it is in the first language
pub fn diff(a: &D, b: &D, canonical: bool) -> Option<(Vec<u8>, bool)> {
    let (sa, sb) = (start(a), start(b));
    let ord = order();
    type K = (StateID, StateID, u8);
    let mut seen: HashMap<K, Option<(K, u8)>> = HashMap::new();
    let mut q = VecDeque::new();
    seen.insert((sa, sb, 0), None);
    q.push_back((sa, sb, 0u8));
    while let Some((x, y, tr)) = q.pop_front() {
        let (ax, by) = (accepts(a, x), accepts(b, y));
        if ax != by && (!canonical || canon_final(tr)) {
            let mut w = vec![];
            let mut cur = (x, y, tr);
            while let Some(Some((prev, byte))) = seen.get(&cur) {
                w.push(*byte);
                cur = *prev;
            }
            w.reverse();
            // only whole UTF-8 words are paths
            if std::str::from_utf8(&w).is_ok() {
                return Some((w, ax));
            }
        }
        for &byte in &ord {
            let ntr = if canonical {
                match canon_step(tr, byte == b'/') {
                    Some(t) => t,
                    None => continue,
                }
            }
            else {
                0
            };
            let nx = a.next_state(x, byte);
            let ny = b.next_state(y, byte);
            if a.is_dead_state(nx) && b.is_dead_state(ny) {
                continue;
            }
            let key = (nx, ny, ntr);
            if !seen.contains_key(&key) {
                seen.insert(key, Some(((x, y, tr), byte)));
                q.push_back(key);
            }
        }
    }
    None
}

/// the symbols words are built from: whole characters (so that every word is a string), as their UTF-8 bytes.
/// Every character that occurs in the program text can occur in a word of its language (literals are written as
/// themselves, escaped or not; the characters of regex syntax come along and cost a few transitions), plus the case
/// variants of every character, plus a few characters that occur in no expression
fn alphabet(pattern: &str) -> Vec<Vec<u8>> {
    let mut v: Vec<Vec<u8>> = vec![b"/".to_vec(), b"q".to_vec(), b".".to_vec(), b"\n".to_vec()];
    let mut add = |c: char| {
        let mut buf = [0u8; 4];
        let b = c.encode_utf8(&mut buf).as_bytes().to_vec();
        if !v.contains(&b) {
            v.push(b);
        }
    };
    for c in pattern.chars() {
        add(c);
        for x in c.to_lowercase().chain(c.to_uppercase()) {
            add(x);
        }
    }
    v
}

fn step(d: &D, st: StateID, sym: &[u8]) -> StateID {
    sym.iter().fold(st, |s, b| d.next_state(s, *b))
}

/// canonical p in L and canonical q beneath p with q not in L: returns (q, length of p)
pub fn desc_open(d: &D, pattern: &str) -> Option<(Vec<u8>, usize)> {
    // phase 0: reading p; phase 1: reading the remainder (p was accepted at the split)
    let s0 = start(d);
    let alpha = alphabet(pattern);
    type K = (StateID, u8, u8);
    let mut seen: HashMap<K, Option<(K, usize)>> = HashMap::new();
    let mut q: VecDeque<K> = VecDeque::new();
    seen.insert((s0, 0, 0), None);
    q.push_back((s0, 0, 0));
    while let Some((st, ph, tr)) = q.pop_front() {
        if ph == 1 && tr == 3 && !accepts(d, st) {
            let mut syms: Vec<&Vec<u8>> = vec![];
            let mut cur = (st, ph, tr);
            let mut phases = vec![];
            while let Some(Some((prev, sym))) = seen.get(&cur) {
                syms.push(&alpha[*sym]);
                phases.push(prev.1);
                cur = *prev;
            }
            syms.reverse();
            phases.reverse();
            // the split (in CHARACTERS) is before the first symbol read from phase 0 into phase 1
            let mut w = vec![];
            let mut split = 0usize;
            for (i, (sym, ph)) in syms.iter().zip(phases.iter()).enumerate() {
                if *ph == 0 {
                    split = i;
                }
                w.extend_from_slice(sym);
            }
            return Some((w, split));
        }
        for (si, sym) in alpha.iter().enumerate() {
            let is_sep = sym.as_slice() == b"/";
            let ntr = match canon_step(tr, is_sep) {
                Some(t) => t,
                None => continue,
            };
            let nst = step(d, st, sym);
            let mut nexts: Vec<u8> = vec![];
            if ph == 1 {
                nexts.push(1);
            }
            else {
                nexts.push(0);
                // split before this byte: p = what was read so far. Beneath p: p, a separator
                // (unless p is "" or "/"), and a non-empty relative canonical remainder.
                let p_ok = accepts(d, st)
                    && match tr {
                        0 => !is_sep,
                        1 => !is_sep,
                        3 => is_sep,
                        _ => false,
                    };
                if p_ok {
                    nexts.push(1);
                }
            }
            for nph in nexts {
                let key = (nst, nph, ntr);
                if !seen.contains_key(&key) {
                    seen.insert(key, Some(((st, ph, tr), si)));
                    q.push_back(key);
                }
            }
        }
    }
    None
}

/// set of component counts k (capped: `cap` means "cap or more") of canonical words in L whose
/// rootedness is `rooted`
pub fn comp_counts(d: &D, pattern: &str, rooted: bool, cap: usize) -> Vec<usize> {
    let s0 = start(d);
    let alpha = alphabet(pattern);
    // tr: 0 empty (relative), 1 "/" (rooted), 3/2 relative in component / after separator,
    // 13/12 the same for rooted paths
    let mut seen: HashSet<(StateID, u8, usize)> = Default::default();
    let mut q = VecDeque::new();
    seen.insert((s0, 0, 0));
    q.push_back((s0, 0u8, 0usize));
    let mut found = BTreeSet::new();
    while let Some((st, tr, k)) = q.pop_front() {
        if (tr == 0 || tr == 1 || tr == 3 || tr == 13) && accepts(d, st) {
            found.insert((k, tr));
        }
        for sym in &alpha {
            let is_sep = sym.as_slice() == b"/";
            let (ntr, nk) = match (tr, is_sep) {
                (0, true) => (1, k),
                (0, false) => (3, k + 1),
                (1, true) => continue,
                (1, false) => (13, k + 1),
                (2, true) => continue,
                (2, false) => (3, k + 1),
                (3, true) => (2, k),
                (3, false) => (3, k),
                (12, true) => continue,
                (12, false) => (13, k + 1),
                (13, true) => (12, k),
                (13, false) => (13, k),
                _ => continue,
            };
            let nk = nk.min(cap);
            let nst = step(d, st, sym);
            if d.is_dead_state(nst) {
                continue;
            }
            if seen.insert((nst, ntr, nk)) {
                q.push_back((nst, ntr, nk));
            }
        }
    }
    let mut out = BTreeSet::new();
    for (k, tr) in found {
        let r = tr == 1 || tr == 13;
        if r == rooted {
            out.insert(k);
        }
    }
    out.into_iter().collect()
}

/// shortest word of L that does not begin with a separator (the empty word included)
pub fn unrooted_word(d: &D) -> Option<Vec<u8>> {
    let s0 = start(d);
    if accepts(d, s0) {
        return Some(vec![]);
    }
    let ord = order();
    type K = (StateID, bool);
    let mut seen: HashMap<K, Option<(K, u8)>> = HashMap::new();
    let mut q = VecDeque::new();
    seen.insert((s0, true), None);
    q.push_back((s0, true));
    while let Some((st, first)) = q.pop_front() {
        if !first && accepts(d, st) {
            let mut w = vec![];
            let mut cur = (st, first);
            while let Some(Some((prev, byte))) = seen.get(&cur) {
                w.push(*byte);
                cur = *prev;
            }
            w.reverse();
            if std::str::from_utf8(&w).is_ok() {
                return Some(w);
            }
        }
        for &byte in &ord {
            if first && byte == b'/' {
                continue;
            }
            let n = d.next_state(st, byte);
            if d.is_dead_state(n) {
                continue;
            }
            if !seen.contains_key(&(n, false)) {
                seen.insert((n, false), Some(((st, first), byte)));
                q.push_back((n, false));
            }
        }
    }
    None
}

/// up to `limit` shortest words of L (for sampling candidate paths)
pub fn words(d: &D, pattern: &str, limit: usize, maxlen: usize) -> Vec<Vec<u8>> {
    let s0 = start(d);
    let alpha = alphabet(pattern);
    let mut out = vec![];
    let mut q: VecDeque<(StateID, Vec<u8>)> = VecDeque::new();
    q.push_back((s0, vec![]));
    let mut expanded = 0usize;
    while let Some((st, w)) = q.pop_front() {
        if accepts(d, st) {
            out.push(w.clone());
            if out.len() >= limit {
                break;
            }
        }
        if w.len() >= maxlen || expanded > 20000 {
            continue;
        }
        for sym in &alpha {
            let n = step(d, st, sym);
            if d.is_dead_state(n) {
                continue;
            }
            let mut w2 = w.clone();
            w2.extend_from_slice(sym);
            q.push_back((n, w2));
            expanded += 1;
        }
    }
    out
}
